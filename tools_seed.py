#!/usr/bin/env python3
"""Developer tool: confirm a seeded change delivered by a sub-agent and run the checks against it.

usage: tools_seed.py <PROP> <n> [--props C01,C05] [--base /tmp/seed2 --tag r2]
       (reads <base>/<PROP>.out/change<n>.diff, demo<n>.py; default base /tmp/seed)
       With --scratch the checks run against a scratch copy (VERIF_REPO) instead of patching /repo.

1. confirms in a scratch worktree (outside /repo and /verif): the diff applies, the test suite
   passes with it, the demo fails with it and passes without it;
2. copies patch + demo to /verif/seeded/<PROP>-<n>/;
3. applies the patch to /repo, runs ./check for the property (and any extra ones), undoes it
   (git -C /repo checkout -- .), and writes meta.json with what was run and what was detected.
"""
import json
import os
import shutil
import subprocess
import sys
import time

PY = '/venv/bin/python'


def sh(cmd, cwd=None, timeout=3600):
    p = subprocess.run(cmd, shell=True, cwd=cwd, capture_output=True, text=True, timeout=timeout)
    return p.returncode, (p.stdout + p.stderr)


def main():
    prop, n = sys.argv[1], sys.argv[2]
    extra = []
    if '--props' in sys.argv:
        extra = sys.argv[sys.argv.index('--props') + 1].split(',')
    base = sys.argv[sys.argv.index('--base') + 1] if '--base' in sys.argv else '/tmp/seed'
    tag = sys.argv[sys.argv.index('--tag') + 1] if '--tag' in sys.argv else ''
    scratch_mode = '--scratch' in sys.argv
    src = '%s/%s.out' % (base, prop)
    diff = os.path.join(src, 'change%s.diff' % n)
    demo = os.path.join(src, 'demo%s.py' % n)
    wt = '%s/confirm-%s-%s' % (base, prop, n)
    sh('git -C /repo worktree remove --force %s' % wt)
    rc, out = sh('git -C /repo worktree add --detach %s HEAD' % wt)
    sid = '%s-%s%s' % (prop, (tag + '-') if tag else '', n)
    meta = {'property': prop, 'seed': sid, 'confirmed': False}
    try:
        rc0, out0 = sh('%s %s' % (PY, demo), cwd=wt)
        rc, out = sh('git apply %s' % diff, cwd=wt)
        if rc != 0:
            meta['error'] = 'patch does not apply to HEAD: ' + out[-300:]
            print(json.dumps(meta, indent=1))
            return 2
        rct, outt = sh('%s -m pytest -q -p no:cacheprovider' % PY, cwd=wt)
        rc1, out1 = sh('%s %s' % (PY, demo), cwd=wt)
        meta.update({'demo_passes_without_change': rc0 == 0, 'tests_pass_with_change': rct == 0,
                     'tests_tail': outt.strip().splitlines()[-1] if outt.strip() else '',
                     'demo_fails_with_change': rc1 != 0, 'demo_output_with_change': out1[-400:]})
        meta['confirmed'] = rc0 == 0 and rct == 0 and rc1 != 0
    finally:
        sh('git -C /repo worktree remove --force %s' % wt)
    dest = '/verif/seeded/%s' % sid
    os.makedirs(dest, exist_ok=True)
    shutil.copy(diff, os.path.join(dest, 'patch.diff'))
    shutil.copy(demo, os.path.join(dest, 'demo.py'))
    notes = os.path.join(src, 'notes.md')
    if os.path.exists(notes):
        shutil.copy(notes, os.path.join(dest, 'agent_notes.md'))
    if '--confirm-only' in sys.argv:
        with open(os.path.join(dest, 'meta.json'), 'w') as f:
            json.dump(meta, f, indent=1)
        print(json.dumps(meta, indent=1)[:1500])
        return 0
    if meta['confirmed'] and scratch_mode:
        sc = '/var/tmp/seed-scratch-%s' % sid
        sh('rm -rf %s; mkdir -p %s; git -C /repo archive HEAD | tar -x -C %s' % (sc, sc, sc))
        rc, out = sh('git apply %s' % diff, cwd=sc)
        if rc != 0:
            rc, out = sh('patch -p1 -s -i %s' % diff, cwd=sc)
        results = {}
        try:
            for p in [prop] + extra:
                t0 = time.time()
                rc, out = sh('VERIF_REPO=%s VERIF_SELFTEST=1 ./check %s --tier quick' % (sc, p), cwd='/verif')
                lines = out.strip().splitlines()
                results[p] = {'exit': rc, 'wall_s': round(time.time() - t0, 1),
                              'violation_lines': [l[:300] for l in lines if l.startswith('VIOLATION')][:8],
                              'undecided': [l[:200] for l in lines if l.startswith('UNDECIDED')][:8],
                              'summary': [l for l in lines if 'tier=' in l][:1]}
        finally:
            sh('rm -rf %s' % sc)
        meta['checks'] = results
        meta['detected'] = any(r['exit'] == 1 for r in results.values())
        meta['detected_by_deductive'] = any('obligation=' in v for r in results.values() for v in r['violation_lines'])
        meta['detected_by_bounded'] = any('contract=' in v or 'class=' in v for r in results.values() for v in r['violation_lines'])
    elif meta['confirmed']:
        # run the checks against the change
        rc, out = sh('git -C /repo status --porcelain')
        if out.strip():
            meta['error'] = '/repo not clean'
        else:
            rc, out = sh('git -C /repo apply %s' % diff)
            results = {}
            try:
                for p in [prop] + extra:
                    t0 = time.time()
                    rc, out = sh('./check %s --tier quick' % p, cwd='/verif')
                    lines = out.strip().splitlines()
                    results[p] = {'exit': rc, 'wall_s': round(time.time() - t0, 1),
                                  'violation_lines': [l[:300] for l in lines if l.startswith('VIOLATION')][:8],
                                  'undecided': [l[:200] for l in lines if l.startswith('UNDECIDED')][:8],
                                  'summary': [l for l in lines if 'tier=' in l][:1]}
            finally:
                sh('git -C /repo checkout -- .')
            meta['checks'] = results
            meta['detected'] = any(r['exit'] == 1 for r in results.values())
            meta['detected_by_deductive'] = any('obligation=' in v for r in results.values() for v in r['violation_lines'])
            meta['detected_by_bounded'] = any('contract=' in v or 'class=' in v for r in results.values() for v in r['violation_lines'])
    with open(os.path.join(dest, 'meta.json'), 'w') as f:
        json.dump(meta, f, indent=1)
    print(json.dumps(meta, indent=1)[:3000])
    return 0


if __name__ == '__main__':
    sys.exit(main())
