"""./check driver: deductive tier (pyvc + lemma generators) then bounded tier, known findings,
replay files, evidence, exit code.

Exit codes: 0 property held on everything explored (known findings are printed, not alarms);
1 at least one VIOLATION line; 3 checker error (CHECKER-ERROR line, never a VIOLATION).
"""
import argparse
import hashlib
import importlib
import json
import multiprocessing as mp
import os
import subprocess
import sys
import tempfile
import time
import traceback

VERIF = os.path.dirname(os.path.dirname(os.path.abspath(__file__)))
REPO = os.environ.get('VERIF_REPO', '/repo')
BOUNDED_PY = os.environ.get('VERIF_BOUNDED_PY', '/venv/bin/python')


def load_findings():
    p = os.path.join(VERIF, 'known_findings.json')
    if not os.path.exists(p):
        return {'findings': [], 'fixed': []}
    with open(p) as f:
        return json.load(f)


def finding_for(findings, pid, kind, name=None, key=None, cls=None):
    """Return the known finding that lists this violation, or None."""
    for f in findings.get('findings', []):
        if f.get('property') != pid or f.get('kind') != kind:
            continue
        if kind == 'obligation':
            if f.get('obligation') == name:
                return f
        else:
            if key is not None and key in f.get('keys', []):
                return f
            if cls is not None and cls in f.get('classes', []) and not f.get('keys_only'):
                return f
            parts = f.get('class_parts')
            if cls and parts and all(p in parts for p in str(cls).split('+')):
                need = f.get('must_include_any')
                if not need or any(p in need for p in str(cls).split('+')):
                    return f
            pre = f.get('key_prefixes', [])
            if key is not None and any(key.startswith(x) for x in pre):
                return f
    return None


# ------------------------------------------------------------------------ deductive tier ----
def _verify_one(args):
    kind, key, repo = args
    t0 = time.time()
    try:
        from contracts import registry
        # every task starts from the same fresh-name counter: its SMT queries are then the same text
        # whichever worker runs it and whatever that worker verified before (verdicts of quantified
        # queries depend on the names through the solver's term order)
        from pyvc import types as _t
        _t._fresh_n[0] = 0
        if kind == 'pyvc':
            from pyvc.execcall import Executor
            from pyvc import solve
            m = registry.model()
            ex = Executor(m, repo)
            res = ex.verify(key)
            out = [r.to_json() for r in res]
            return {'task': key, 'kind': kind, 'results': out, 'sha': ex.fn_hashes,
                    'wall_s': time.time() - t0, 'solver': dict(solve.stats), 'paths': ex.paths,
                    'hints': dict(getattr(ex, 'hint_log', {}))}
        else:
            fn = registry.lemma(key)
            out = fn(repo)
            return {'task': key, 'kind': kind, 'results': out.get('results', []), 'sha': out.get('sha', {}),
                    'wall_s': time.time() - t0, 'solver': out.get('solver', {}), 'paths': 0,
                    'assumptions': out.get('assumptions', [])}
    except Exception:
        return {'task': key, 'kind': kind, 'results': [
            {'name': key + ':checker-error', 'kind': 'error', 'function': key, 'line': 0,
             'verdict': 'undecided', 'backend': 'none', 'ms': 0, 'detail': traceback.format_exc()[-1500:]}],
            'sha': {}, 'wall_s': time.time() - t0, 'solver': {}, 'paths': 0, 'crashed': True}


def run_deductive(pid, workers, tier='quick'):
    from contracts import registry
    tasks = registry.tasks(pid, tier)
    if not tasks:
        return [], []
    ctx = mp.get_context('fork')
    jobs = [(k, key, REPO) for (k, key) in tasks]
    with ctx.Pool(min(workers, len(jobs))) as p:
        outs = p.map(_verify_one, jobs, chunksize=1)
    obs = []
    if os.environ.get('VERIF_WRITE_HINTS'):
        # developer switch: record which back end discharged the slow obligations of this run
        hp = os.path.join(VERIF, 'contracts', 'BACKEND_HINTS.json')
        try:
            hints = json.load(open(hp))
        except (OSError, ValueError):
            hints = {}
        fns = {o['task'].split(':')[1] for o in outs if o.get('kind') == 'pyvc'}
        hints = {k: v for k, v in hints.items() if k.split(':')[0] not in fns}
        for o in outs:
            hints.update(o.get('hints') or {})
        json.dump(hints, open(hp, 'w'), indent=1, sort_keys=True)
    if os.environ.get('VERIF_TIMING'):
        for o in sorted(outs, key=lambda o: -o.get('wall_s', 0))[:8]:
            print('TIMING %-70s %6.1fs %d paths' % (o['task'], o.get('wall_s', 0), o.get('paths', 0)))
    for o in outs:
        for r in o['results']:
            props = r.get('props')
            if props and pid not in props:
                continue
            r['task'] = o['task']
            obs.append(r)
    return obs, outs


# ------------------------------------------------------------------------ bounded tier ------
def run_bounded(pid, tier, seed, workers):
    mod = os.path.join(VERIF, 'runtime', 'b%s.py' % pid[1:])
    if not os.path.exists(mod):
        return None
    fd, out = tempfile.mkstemp(prefix='verif-b%s-' % pid, suffix='.json', dir=os.environ.get('TMPDIR', '/var/tmp'))
    os.close(fd)
    env = dict(os.environ)
    env['VERIF_REPO'] = REPO
    env['PYTHONPATH'] = VERIF
    env.pop('PYTHONHOME', None)
    try:
        p = subprocess.run([BOUNDED_PY, '-m', 'runtime.run', pid, '--tier', tier, '--seed', str(seed),
                            '--workers', str(workers), '--out', out], cwd=VERIF, env=env,
                           capture_output=True, text=True,
                           timeout=int(os.environ.get('VERIF_BOUNDED_TIMEOUT', '7200')))
        with open(out) as f:
            res = json.load(f)
        res['stderr_tail'] = (p.stderr or '')[-500:]
        return res
    except Exception as e:
        return {'status': 'error', 'error': repr(e), 'failures': [], 'evaluations': 0}
    finally:
        try:
            os.unlink(out)
        except OSError:
            pass


# ------------------------------------------------------------------------ replay ------------
def write_replay(pid, name, payload):
    d = os.path.join(VERIF, 'replays' if not os.environ.get('VERIF_SELFTEST') else 'replays/selftest', pid)
    os.makedirs(d, exist_ok=True)
    safe = ''.join(c if c.isalnum() or c in '._-' else '_' for c in name)[:120]
    h = hashlib.sha1(name.encode()).hexdigest()[:8]
    path = os.path.join(d, '%s-%s.json' % (safe, h))
    with open(path, 'w') as f:
        json.dump(payload, f, indent=1, default=repr)
    return os.path.relpath(path, VERIF)


def try_replay(pid, ob):
    """Function-level replay of a refuted obligation on the real code (contracts/replay.py)."""
    try:
        if ob.get('kind') == 'lemma':
            # lemma obligations are re-derived from the tree being replayed on: same obligation
            # name refuted again with a witness that replays on the real pattern / method
            from contracts import registry
            for key, (fn, props) in registry.lemmas().items():
                if pid not in props:
                    continue
                for r in fn(REPO).get('results', []):
                    if r['name'] == ob['name']:
                        nr = dict(r.get('native_replay') or {})
                        nr['reproduced'] = r['verdict'] == 'refuted' and bool(nr.get('reproduced', True))
                        nr['verdict_on_this_tree'] = r['verdict']
                        return nr
            return {'reproduced': False, 'reason': 'no lemma produces obligation %s' % ob['name']}
        from contracts import replay
        return replay.replay(pid, ob, REPO)
    except Exception:
        return {'reproduced': False, 'error': traceback.format_exc()[-800:]}


def do_replay(pid, path):
    with open(path) as f:
        rp = json.load(f)
    if rp.get('tier_kind') == 'bounded':
        code = rp.get('replay') or ''
        print('replaying bounded failure %s' % rp.get('key'))
        env = dict(os.environ)
        env['VERIF_REPO'] = REPO
        env['PYTHONPATH'] = VERIF
        p = subprocess.run([BOUNDED_PY, '-c', code], cwd=VERIF, env=env, capture_output=True, text=True)
        print(p.stdout[-3000:])
        print(p.stderr[-2000:])
        failed = p.returncode != 0
    else:
        ob = rp['obligation_record']
        r = try_replay(pid, ob)
        print(json.dumps(r, indent=1, default=repr)[:4000])
        failed = bool(r.get('reproduced'))
    if failed:
        print('VIOLATION property=%s replay=%s' % (pid, path))
        return 1
    print('replay did not reproduce a failure on this tree')
    return 0


# ------------------------------------------------------------------------ main --------------
def self_check():
    """MANIFEST.setup_cmd: nothing is built; verify the tools and the encoding cross-check."""
    ok = True
    try:
        import z3
        print('z3', z3.get_version_string())
    except Exception as e:
        print('CHECKER-ERROR z3 python API missing: %r' % e)
        ok = False
    print('cvc5', 'present' if os.path.exists('/usr/bin/cvc5') else 'absent (z3 only)')
    if not os.path.exists(BOUNDED_PY):
        print('CHECKER-ERROR %s missing' % BOUNDED_PY)
        ok = False
    if not os.path.isdir(os.path.join(REPO, 'mistletoe')):
        print('CHECKER-ERROR %s/mistletoe missing' % REPO)
        ok = False
    try:
        from vlib import crosscheck
        n, bad = crosscheck.run()
        print('encoding cross-check against CPython: %d cases, %d disagreements' % (n, len(bad)))
        if bad:
            print('CHECKER-ERROR encoding disagrees with CPython: %r' % (bad[:3],))
            ok = False
        from contracts import registry
        m = registry.model()
        print('contracts loaded: %d (%d trusted/protocol)' % (len(m.contracts), sum(1 for c in m.contracts.values() if c.trusted)))
        # assume-scan: every trusted contract and every assumed lemma must be on the committed allow-list
        allow = json.load(open(os.path.join(VERIF, 'contracts', 'TRUSTED.json')))
        extra = [k for k in registry.trusted_contracts(None) if k not in allow['trusted_contracts']]
        lem = []
        for k, c in m.contracts.items():
            for pat, upd in (c.ghost_after or {}).items():
                for g, e in upd:
                    if g == '__assume__':
                        lem.append((k, pat))
        extra_l = [x for x in lem if not any(a['function'] == x[0] and a['after'] == x[1] for a in allow['assumed_lemmas'])]
        print('assume-scan: %d trusted contracts, %d assumed lemmas, all on the allow-list contracts/TRUSTED.json' % (
            len(registry.trusted_contracts(None)), len(lem)) if not extra and not extra_l else '')
        if extra or extra_l:
            print('CHECKER-ERROR trusted contracts / assumed lemmas not on the allow-list: %r %r' % (extra, extra_l))
            ok = False
    except Exception:
        print('CHECKER-ERROR self-check crashed: %s' % traceback.format_exc()[-600:])
        ok = False
    return 0 if ok else 3


def selftest(only=None):
    """Mutation self-test: every confirmed seeded change under /verif/seeded is applied to a scratch
    copy of /repo's HEAD (outside /repo and /verif, removed afterwards) and the property's quick
    check must report a violation there; the unmodified copy must pass."""
    import glob
    import shutil
    base = tempfile.mkdtemp(prefix='verif-selftest-', dir=os.environ.get('TMPDIR', '/var/tmp'))
    missed = []
    ran = 0
    summary = {}
    try:
        jobs = []
        for meta_path in sorted(glob.glob(os.path.join(VERIF, 'seeded', '*', 'meta.json'))):
            meta = json.load(open(meta_path))
            if not meta.get('confirmed'):
                continue
            if only and not any(meta['property'] == o or meta['seed'].startswith(o) or ('-%s-' % o) in meta['seed']
                                for o in only.split(',')):
                continue      # a property id, a seed id prefix, or a round tag such as r4 (several, comma-separated)
            jobs.append((meta_path, meta))
        head = subprocess.run(['git', '-C', REPO, 'rev-parse', '--short', 'HEAD'], capture_output=True, text=True).stdout.strip()
        njobs = max(1, int(os.environ.get('VERIF_SELFTEST_JOBS', '3')))
        per = max(2, 16 // njobs)

        def one(job):
            import re as _re
            meta_path, meta = job
            pid = meta['property']
            d = os.path.join(base, meta['seed'])
            os.makedirs(d)
            subprocess.run('git -C %s archive HEAD | tar -x -C %s' % (REPO, d), shell=True, check=True)
            patch_file = os.path.join(os.path.dirname(meta_path), 'patch.diff')
            rebased = os.path.join(os.path.dirname(meta_path), 'patch.rebased.diff')
            if os.path.exists(rebased):
                # the same change carried over by hand after a later fix: commit touched the same lines
                patch_file = rebased
            p = subprocess.run(['git', 'apply', patch_file], cwd=d, capture_output=True, text=True)
            if p.returncode != 0:
                p = subprocess.run(['patch', '-p1', '-s', '-i', patch_file], cwd=d, capture_output=True, text=True)
            if p.returncode != 0:
                shutil.rmtree(d)
                return meta['seed'], None
            env = dict(os.environ)
            env['VERIF_REPO'] = d
            env['VERIF_SELFTEST'] = '1'
            env['VERIF_WORKERS'] = str(per)
            env['TMPDIR'] = os.path.join(base, 'tmp-' + meta['seed'])     # evidence / bounded scratch of this run: removed with `base`
            os.makedirs(env['TMPDIR'], exist_ok=True)
            r = subprocess.run([os.path.join(VERIF, 'check'), pid, '--tier', 'quick'], cwd=VERIF, env=env,
                               capture_output=True, text=True)
            shutil.rmtree(d, ignore_errors=True)
            vio = [l for l in r.stdout.splitlines() if l.startswith('VIOLATION')]
            named = [l for l in vio if 'obligation=' in l]
            return meta['seed'], {
                'property': pid, 'exit': r.returncode, 'violation_lines': len(vio),
                'obligations': sorted({m.group(1) for l in named for m in [_re.search(r'obligation=(\S+)', l)] if m})[:6],
                'bounded_classes': sorted({m.group(1) for l in vio for m in [_re.search(r'class=(\S+)', l)] if m})[:4],
                'no_failing_input_found_only': bool(vio) and all(l.rstrip().endswith('no-failing-input-found') for l in vio),
                'head': head, 'named': len(named)}

        from concurrent.futures import ThreadPoolExecutor
        with ThreadPoolExecutor(max_workers=njobs) as tp:
            for seed_id, res in tp.map(one, jobs):
                if res is None:
                    print('SELFTEST %s: patch no longer applies to HEAD (skipped)' % seed_id, flush=True)
                    continue
                ran += 1
                print('SELFTEST %s: exit=%d, %d violation line(s), %d by a named obligation' % (
                    seed_id, res['exit'], res['violation_lines'], res.pop('named')), flush=True)
                if res['exit'] != 1:
                    missed.append(seed_id)
                summary[seed_id] = res
    finally:
        shutil.rmtree(base, ignore_errors=True)
    print('SELFTEST: %d seeded changes run, %d not detected: %s' % (ran, len(missed), missed))
    out = os.path.join(VERIF, 'seeded', 'SELFTEST.json')
    prev = {}
    if only and os.path.exists(out):
        prev = json.load(open(out))
    prev.update(summary)
    with open(out, 'w') as f:
        json.dump(prev, f, indent=1, sort_keys=True)
    return 0 if not missed else 2


def main():
    if len(sys.argv) > 1 and sys.argv[1] == '--self-check':
        return self_check()
    if len(sys.argv) > 1 and sys.argv[1] == '--selftest':
        return selftest(sys.argv[2] if len(sys.argv) > 2 else None)
    ap = argparse.ArgumentParser()
    ap.add_argument('prop')
    ap.add_argument('--tier', default=None)
    ap.add_argument('--replay', default=None)
    ap.add_argument('--workers', type=int, default=int(os.environ.get('VERIF_WORKERS', '16')))
    ap.add_argument('--no-bounded', action='store_true')
    ap.add_argument('--no-deductive', action='store_true')
    a = ap.parse_args()
    pid = a.prop
    tier = os.environ.get('VERIF_TIER') or a.tier or 'quick'
    if tier not in ('quick', 'thorough'):
        tier = 'quick'
    seed = int(os.environ.get('VERIF_SEED', '0') or 0)
    if a.replay:
        return do_replay(pid, a.replay)
    t0 = time.time()
    from contracts import registry
    info = registry.PROPS.get(pid)
    if info is None:
        print('CHECKER-ERROR unknown property %s' % pid)
        return 3
    findings = load_findings()
    violations = []
    known_lines = []
    obs, outs = ([], []) if a.no_deductive else run_deductive(pid, a.workers, tier)
    bounded = None if a.no_bounded else run_bounded(pid, tier, seed, a.workers)

    proved = [o for o in obs if o['verdict'] == 'proved']
    refuted = [o for o in obs if o['verdict'] == 'refuted']
    undecided = [o for o in obs if o['verdict'] == 'undecided']
    crashed = [o for o in outs if o.get('crashed')]

    bfail = (bounded or {}).get('failures', []) if bounded else []
    # an undecided obligation with a candidate input becomes a refutation only if that input, replayed
    # on the real function of the tree under test, really breaks the clause
    for ob in list(undecided):
        cm = ob.get('candidate_model')
        if not cm:
            continue
        trial = dict(ob)
        trial['model'] = cm
        trial['candidate_input'] = True
        rp = try_replay(pid, trial)
        if rp.get('reproduced'):
            ob['verdict'] = 'refuted'
            ob['backend'] = (ob.get('backend') or '') + '+candidate-replayed'
            ob['model'] = cm
            ob['candidate_input'] = True
            ob['native_replay'] = rp
            ob['detail'] = 'solver undecided; candidate input (quantified facts dropped) reproduces the failure on the real code'
            undecided.remove(ob)
            refuted.append(ob)
    for ob in refuted:
        kf = finding_for(findings, pid, 'obligation', name=ob['name'])
        if kf is not None:
            known_lines.append('KNOWN-FINDING: property=%s %s [obligation %s]' % (pid, kf['what'], ob['name']))
            ob['known_finding'] = kf.get('id')
            continue
        rp = ob.get('native_replay') or try_replay(pid, ob)
        payload = {'property': pid, 'tier_kind': 'deductive', 'obligation': ob['name'],
                   'function': ob.get('function'), 'line': ob.get('line'), 'clause': ob.get('text'),
                   'solver_model': ob.get('model'), 'solver_backend': ob.get('backend'),
                   'obligation_record': ob, 'native_replay': rp,
                   'how_to_run': './check %s --replay <this file>' % pid}
        api = [f for f in bfail if finding_for(findings, pid, 'bounded', key=f.get('key'), cls=f.get('class')) is None]
        if api:
            payload['api_input'] = api[0]
        path = write_replay(pid, ob['name'], payload)
        suffix = '' if (rp.get('reproduced') or api) else ' no-failing-input-found'
        violations.append('VIOLATION property=%s replay=%s obligation=%s%s' % (pid, path, ob['name'], suffix))
    known_bounded = 0
    n_new_bounded = 0
    kf_seen = {}
    for f in bfail:
        kf = finding_for(findings, pid, 'bounded', key=f.get('key'), cls=f.get('class'))
        if kf is not None:
            known_bounded += 1
            kf_seen.setdefault(kf.get('id'), [kf, 0])[1] += 1
            continue
        n_new_bounded += 1
        if n_new_bounded > 20:
            continue
        payload = dict(f)
        payload.update({'property': pid, 'tier_kind': 'bounded',
                        'how_to_run': './check %s --replay <this file>' % pid})
        path = write_replay(pid, 'bounded-' + str(f.get('key'))[:80], payload)
        violations.append('VIOLATION property=%s replay=%s contract=%s class=%s input=%s' % (
            pid, path, f.get('contract'), f.get('class'), json.dumps(f.get('input'), default=repr)[:200]))
    for fid, (kf, n) in kf_seen.items():
        known_lines.append('KNOWN-FINDING: property=%s %s [%d bounded case(s)]' % (pid, kf['what'], n))
    if n_new_bounded > 20:
        violations.append('VIOLATION property=%s replay=%s (and %d more failing bounded cases not listed)' % (
            pid, 'replays/%s/' % pid, n_new_bounded - 20))
    # the module may truncate its failure list: every failure CLASS it counted must still be a
    # known finding, otherwise the unlisted remainder hides a new violation
    by_class = (bounded or {}).get('failures_by_class') or {}
    listed_classes = {f.get('class') for f in bfail}
    for cls, n in sorted(by_class.items()):
        if not n or cls in listed_classes:
            continue
        if finding_for(findings, pid, 'bounded', key=None, cls=cls) is None:
            path = write_replay(pid, 'bounded-class-' + str(cls), {
                'property': pid, 'tier_kind': 'bounded', 'class': cls, 'count': n,
                'minimal_input': ((bounded or {}).get('minimal_input_per_class') or {}).get(cls),
                'replay': 'import sys; sys.exit(1)', 'key': 'class:' + str(cls)})
            violations.append('VIOLATION property=%s replay=%s class=%s count=%d (class not in the listed failures)' % (pid, path, cls, n))

    checker_error = None
    if bounded is not None and bounded.get('status') != 'ok':
        checker_error = 'bounded tier failed: %s' % str(bounded.get('error'))[-400:]
    n_ob = len(obs)
    expected = registry.expected_count(pid)
    if not a.no_deductive and expected and n_ob == 0:
        checker_error = 'zero obligations generated (expected about %d)' % expected
    count_warning = None
    if not a.no_deductive and expected and tier == 'quick' and n_ob < 0.8 * expected:
        count_warning = 'only %d obligations generated, %d expected: contracts no longer attach to the code (see undecided)' % (n_ob, expected)

    # ---- evidence ------------------------------------------------------------------------
    level = info['level']
    all_discharged = n_ob > 0 and len(proved) == n_ob
    if level == 'proof' and not all_discharged:
        level = 'other'
    solver_s = sum(o.get('ms', 0) for o in obs) / 1000.0
    fn_under_contract = []
    for o in outs:
        for k, h in (o.get('sha') or {}).items():
            fn_under_contract.append({'function': k, 'source_sha256': h})
    assumptions = registry.assumptions(pid)
    for o in outs:
        for s in o.get('assumptions', []) or []:
            if s not in assumptions:
                assumptions.append(s)
    cov = {
        'obligations': n_ob,
        'discharged': len(proved),
        'refuted': [o['name'] for o in refuted],
        'undecided': [{'name': o['name'], 'why': str(o.get('detail'))[:200]} for o in undecided],
        'expected_obligations': expected,
        'checker_cmd': './check %s --tier %s' % (pid, tier),
        'trusted_base': registry.trusted_base(pid),
        'functions_under_contract': fn_under_contract,
        'per_obligation': [{k: o.get(k) for k in ('name', 'kind', 'function', 'verdict', 'backend', 'ms')} for o in obs],
        'solver_time_s': round(solver_s, 2),
        'backends': sorted({o.get('backend') for o in obs if o.get('backend')}),
        'explanation': info['explanation'],
        'samples': [{'obligation': o['name'], 'clause': o.get('text'), 'verdict': o['verdict'], 'backend': o.get('backend')}
                    for o in (sorted(obs, key=lambda o: (not o.get('text'), o['kind'] not in ('post', 'call-assert', 'lemma', 'yield', 'ghost-assert')))[:8])] or
                   [{'note': 'no deductive obligations for this property'}],
    }
    if bounded is not None:
        cov['bounded'] = {k: bounded.get(k) for k in (
            'domain', 'rule', 'evaluations', 'distinct_nontrivial', 'contract_evaluations', 'exhaustive',
            'wall_s', 'status', 'failures_total') if k in bounded}
        cov['bounded']['label'] = 'bounded stand-in: runtime contracts on the real functions over an enumerated domain; never counted as proved'
        cov['bounded']['failures_listed'] = len(bfail)
        cov['bounded']['failures_known'] = known_bounded
        cov['evaluations'] = int(bounded.get('evaluations') or 0)
        cov['distinct_nontrivial'] = int(bounded.get('distinct_nontrivial') or 0)
        cov['rule'] = bounded.get('rule') or ''
        if bounded.get('samples'):
            cov['samples'] = cov['samples'] + [{'bounded_case': s} for s in bounded['samples'][:4]]
        cov['exhaustive'] = bool(bounded.get('exhaustive'))
    ev = {
        'property_id': pid, 'tier': tier, 'seed': seed, 'level': level, 'coverage': cov,
        'assumptions': assumptions, 'wall_s': round(time.time() - t0, 2),
        'violations': len(violations),
        'known_findings_reported': len(known_lines),
    }
    evdir = os.path.join(VERIF, 'evidence') if not os.environ.get('VERIF_SELFTEST') else \
        tempfile.mkdtemp(prefix='verif-selftest-ev-', dir=os.environ.get('TMPDIR', '/var/tmp'))
    os.makedirs(evdir, exist_ok=True)
    with open(os.path.join(evdir, pid + '.json'), 'w') as f:
        json.dump(ev, f, indent=1, default=repr)

    print('%s tier=%s: %d obligations, %d discharged, %d refuted, %d undecided; bounded: %s evaluations, %d failing (%d known); %.1fs' % (
        pid, tier, n_ob, len(proved), len(refuted), len(undecided),
        (bounded or {}).get('evaluations', 'n/a'), len(bfail), known_bounded, time.time() - t0))
    if count_warning:
        print('CHECKER-WARNING ' + count_warning)
    for u in undecided[:10]:
        print('UNDECIDED %s: %s' % (u['name'], str(u.get('detail'))[:160]))
    for l in known_lines:
        print(l)
    if checker_error and not violations:
        print('CHECKER-ERROR %s' % checker_error)
        return 3
    if checker_error:
        print('CHECKER-WARNING %s (violations of the other tier are still reported)' % checker_error)
    if crashed:
        print('CHECKER-WARNING generator crashed on: %s (reported undecided)' % ', '.join(o['task'] for o in crashed))
    if violations:
        for v in violations:
            print(v)
        return 1
    return 0


if __name__ == '__main__':
    sys.exit(main())
