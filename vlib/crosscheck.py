"""CPython cross-check of the pyvc encoding (DESIGN 2.7): each encoded builtin is evaluated on
enumerated small concrete arguments through the same primitives the VC generator uses, simplified
by z3, and compared with CPython's own result."""
import itertools
import z3
from pyvc.types import *  # noqa
from pyvc.model import Model
from pyvc.execcall import Executor
from pyvc.engine import State


def conc(v):
    e = z3.simplify(v.e)
    if isinstance(v.t, TStr):
        assert z3.is_string_value(e), e
        return e.as_string()
    if isinstance(v.t, TInt):
        return e.as_long()
    if isinstance(v.t, TBool):
        return z3.is_true(e)
    if isinstance(v.t, TList):
        n = z3.simplify(list_len(v)).as_long()
        return [conc(Val(v.t.elem, z3.Select(list_arr(v), i))) for i in range(n)]
    raise TypeError(v.t)


def run(limit=None):
    m = Model()
    ex = Executor(m, '/nonexistent')
    st = State()
    st.alloc = z3.IntVal(0)
    n = 0
    bad = []
    strings = ['', 'a', 'ab', 'a>b', '>\tx', '  x ', 'abc\n', 'aXbXc']
    ints = [None, -4, -2, -1, 0, 1, 2, 3, 5]
    for s in strings:
        sv = mk_str(s)
        for a, b in itertools.product(ints, ints):
            got = conc(ex.slice(sv, None if a is None else mk_int(a), None if b is None else mk_int(b), None))
            n += 1
            if got != s[a:b]:
                bad.append(('str-slice', s, a, b, got, s[a:b]))
        for i in range(-len(s), len(s)):
            got = conc(ex.index(st, sv, mk_int(i), None))
            n += 1
            if got != s[i]:
                bad.append(('str-index', s, i, got, s[i]))
        for t in ['', 'a', 'X', '>', ' ', '\n', 'ab']:
            tv = mk_str(t)
            for name, py in (('startswith', s.startswith(t)), ('endswith', s.endswith(t))):
                got = conc(ex.str_method(st, sv, name, [tv], None))
                n += 1
                if got != py:
                    bad.append((name, s, t, got, py))
            got = z3.is_true(z3.simplify(ex.contains(st, sv, tv)))
            n += 1
            if got != (t in s):
                bad.append(('in', s, t, got, t in s))
            got = conc(ex.str_method(st, sv, 'find', [tv], None))
            n += 1
            if got != s.find(t):
                bad.append(('find', s, t, got, s.find(t)))
            if t:
                got = conc(ex.str_method(st, sv, 'replace', [tv, mk_str('QQ'), mk_int(1)], None))
                n += 1
                if got != s.replace(t, 'QQ', 1):
                    bad.append(('replace1', s, t, got, s.replace(t, 'QQ', 1)))
                got = conc(ex.str_call(st, sv, 'split', [tv, mk_int(1)], {}, 0, None))
                n += 1
                if got != s.split(t, 1):
                    bad.append(('split1', s, t, got, s.split(t, 1)))
    lists = [[], [1], [1, 2], [1, 2, 3, 4]]
    for l in lists:
        lv = list_from(TList(INT), [mk_int(x) for x in l])
        for a, b in itertools.product(ints, ints):
            got = conc(ex.slice(lv, None if a is None else mk_int(a), None if b is None else mk_int(b), None))
            n += 1
            if got != l[a:b]:
                bad.append(('list-slice', l, a, b, got, l[a:b]))
            got = conc(ex.slice(lv, None if a is None else mk_int(a), None if b is None else mk_int(b), mk_int(-1)))
            n += 1
            if got != l[a:b:-1]:
                bad.append(('list-slice-rev', l, a, b, got, l[a:b:-1]))
    # strip family: the light axioms must be satisfied by CPython's result (consistency, not equality)
    for s in ['', ' ', ' a ', '\t>x\n', '\n', 'a', '  ', ' \x0b a']:
        for name, chars in (('strip', None), ('lstrip', None), ('rstrip', None), ('lstrip', ' '), ('strip', '\n')):
            st2 = State()
            st2.alloc = z3.IntVal(0)
            r = ex.str_method(st2, mk_str(s), name, [mk_str(chars)] if chars is not None else [], None)
            py = getattr(s, name)(*([chars] if chars is not None else []))
            sol = z3.Solver()
            sol.add(*st2.pc)
            sol.add(r.e == z3.StringVal(py))
            n += 1
            if sol.check() != z3.sat:
                bad.append(('strip-axioms-exclude-cpython', s, name, chars, py))
    return n, bad


if __name__ == '__main__':
    n, bad = run()
    print(n, 'cases', len(bad), 'disagreements')
    for b in bad[:20]:
        print(b)
