"""CPython cross-check of the pyvc encoding (DESIGN 2.7): each encoded builtin is evaluated on
enumerated small concrete arguments through the same primitives the VC generator uses, simplified
by z3, and compared with CPython's own result."""
import itertools
import z3
from pyvc.types import *  # noqa
from pyvc.model import Model
from pyvc.execcall import Executor
from pyvc.engine import State


def conc(v):
    e = z3.simplify(v.e)
    if isinstance(v.t, TStr):
        assert z3.is_string_value(e), e
        return e.as_string()
    if isinstance(v.t, TInt):
        return e.as_long()
    if isinstance(v.t, TBool):
        return z3.is_true(e)
    if isinstance(v.t, TList):
        n = z3.simplify(list_len(v)).as_long()
        return [conc(Val(v.t.elem, z3.Select(list_arr(v), i))) for i in range(n)]
    if isinstance(v.t, TOpt):
        if z3.is_true(z3.simplify(opt_is_none(v))):
            return None
        return conc(opt_val(v))
    if isinstance(v.t, TTuple):
        return tuple(conc(tuple_get(v, i)) for i in range(len(v.t.elems)))
    if isinstance(v.t, TNone):
        return None
    raise TypeError(v.t)


def lift(x):
    if isinstance(x, bool):
        return mk_bool(x)
    if isinstance(x, int):
        return mk_int(x)
    if isinstance(x, str):
        return mk_str(x)
    if isinstance(x, list):
        if not x:
            return list_from(TList(INT), [])
        vals = [lift(e) for e in x]
        return list_from(TList(vals[0].t), vals)
    raise TypeError(x)


EXPR_CASES = [
    # (expression, list of environments)
    ('[(k, x) for k, x in enumerate(xs)]', [{'xs': l} for l in ([], [5], [5, 6, 7])]),
    ('[k * 10 + x for k, x in enumerate(xs, start=2)]', [{'xs': l} for l in ([], [5], [5, 6, 7])]),
    ('[k + len(w) for k, w in enumerate(ws[1:], start=1)]', [{'ws': l} for l in (['a'], ['a', 'bb'], ['a', 'bb', ''])]),
    ('[(a, b) for a, b in zip_longest(xs, ys)]', [{'xs': a, 'ys': b} for a in ([1], [1, 2], [1, 2, 3]) for b in ([7], [7, 8])]),
    ('[a if a else -1 for a, b in zip_longest(xs, ys)]', [{'xs': a, 'ys': b} for a in ([1], [0, 2]) for b in ([7], [7, 8, 9])]),
    ('xs.index(v)', [{'xs': l, 'v': v} for l in ([3], [3, 4, 3], [1, 2, 3, 3]) for v in (3,)]),
    ('xs.index(v, 1)', [{'xs': l, 'v': v} for l in ([3, 3], [3, 4, 3], [1, 2, 3, 3]) for v in (3,)]),
    ('[None]', [{}]),
    ('s[a:][k]', [{'s': 'abcdef', 'a': a, 'k': k} for a in (0, 2, 4) for k in (0, 1)]),
    ('s.strip(" \t") == s.strip()', [{'s': x} for x in ('a', ' a ', '\ta b\t ')]),
]


def run_exprs(ex):
    import ast as _ast
    from itertools import zip_longest  # noqa: F401  (used by eval below)
    n, bad = 0, []
    ex.cur_fn = 'crosscheck:expr'
    ex.cur_contract = None
    ex.results = []
    ex.cur_module = 'crosscheck'
    for src, envs in EXPR_CASES:
        node = _ast.parse(src, mode='eval').body
        for env in envs:
            st = State()
            st.alloc = z3.IntVal(0)
            for k, v in env.items():
                st.env[k] = lift(v)
            expected = eval(src, {'zip_longest': zip_longest}, dict(env))
            try:
                outs = [(s1, v) for s1, v in ex.ev(node, st) if not s1.dead]
                vals = []
                for s1, v in outs:
                    # keep the outcomes whose path condition is satisfiable with the concrete inputs
                    sol = z3.Solver()
                    sol.add(*s1.pc)
                    if sol.check() == z3.sat:
                        m_ = sol.model()
                        vals.append(conc(Val(v.t, m_.eval(v.e, model_completion=True)) if v.e is not None else v))
                got = vals[0] if len(vals) == 1 else vals
            except Exception as e:  # noqa
                got = 'EXC %r' % (e,)
            n += 1
            exp = expected
            if isinstance(exp, list):
                exp = [tuple(x) if isinstance(x, (tuple, list)) else x for x in exp]
            if got != exp:
                bad.append(('expr', src, env, got, exp))
    return n, bad


def run(limit=None):
    m = Model()
    ex = Executor(m, '/nonexistent')
    st = State()
    st.alloc = z3.IntVal(0)
    n = 0
    bad = []
    strings = ['', 'a', 'ab', 'a>b', '>\tx', '  x ', 'abc\n', 'aXbXc']
    ints = [None, -4, -2, -1, 0, 1, 2, 3, 5]
    for s in strings:
        sv = mk_str(s)
        for a, b in itertools.product(ints, ints):
            got = conc(ex.slice(sv, None if a is None else mk_int(a), None if b is None else mk_int(b), None))
            n += 1
            if got != s[a:b]:
                bad.append(('str-slice', s, a, b, got, s[a:b]))
        for i in range(-len(s), len(s)):
            got = conc(ex.index(st, sv, mk_int(i), None))
            n += 1
            if got != s[i]:
                bad.append(('str-index', s, i, got, s[i]))
        for t in ['', 'a', 'X', '>', ' ', '\n', 'ab']:
            tv = mk_str(t)
            for name, py in (('startswith', s.startswith(t)), ('endswith', s.endswith(t))):
                got = conc(ex.str_method(st, sv, name, [tv], None))
                n += 1
                if got != py:
                    bad.append((name, s, t, got, py))
            got = z3.is_true(z3.simplify(ex.contains(st, sv, tv)))
            n += 1
            if got != (t in s):
                bad.append(('in', s, t, got, t in s))
            got = conc(ex.str_method(st, sv, 'find', [tv], None))
            n += 1
            if got != s.find(t):
                bad.append(('find', s, t, got, s.find(t)))
            if t:
                got = conc(ex.str_method(st, sv, 'replace', [tv, mk_str('QQ'), mk_int(1)], None))
                n += 1
                if got != s.replace(t, 'QQ', 1):
                    bad.append(('replace1', s, t, got, s.replace(t, 'QQ', 1)))
                got = conc(ex.str_call(st, sv, 'split', [tv, mk_int(1)], {}, 0, None))
                n += 1
                if got != s.split(t, 1):
                    bad.append(('split1', s, t, got, s.split(t, 1)))
    lists = [[], [1], [1, 2], [1, 2, 3, 4]]
    for l in lists:
        lv = list_from(TList(INT), [mk_int(x) for x in l])
        for a, b in itertools.product(ints, ints):
            got = conc(ex.slice(lv, None if a is None else mk_int(a), None if b is None else mk_int(b), None))
            n += 1
            if got != l[a:b]:
                bad.append(('list-slice', l, a, b, got, l[a:b]))
            got = conc(ex.slice(lv, None if a is None else mk_int(a), None if b is None else mk_int(b), mk_int(-1)))
            n += 1
            if got != l[a:b:-1]:
                bad.append(('list-slice-rev', l, a, b, got, l[a:b:-1]))
    # strip family: the light axioms must be satisfied by CPython's result (consistency, not equality)
    ex.blank_axiom = True      # the optional "all strippable characters -> empty result" fact is checked as well
    for s in ['', ' ', ' a ', '\t>x\n', '\n', 'a', '  ', ' \x0b a', '    ', ' \n', '\u00a0 ', '\n\n', ' \t\n\r\x0c']:
        for name, chars in (('strip', None), ('lstrip', None), ('rstrip', None), ('lstrip', ' '), ('strip', '\n')):
            st2 = State()
            st2.alloc = z3.IntVal(0)
            r = ex.str_method(st2, mk_str(s), name, [mk_str(chars)] if chars is not None else [], None)
            py = getattr(s, name)(*([chars] if chars is not None else []))
            sol = z3.Solver()
            sol.add(*st2.pc)
            sol.add(r.e == z3.StringVal(py))
            n += 1
            if sol.check() != z3.sat:
                bad.append(('strip-axioms-exclude-cpython', s, name, chars, py))
    # isspace is defined through strip(): the two must agree in CPython for every single character
    # (and on a few strings) - they use the same character class
    import sys as _sys
    for cp in range(_sys.maxunicode + 1):
        c = chr(cp)
        n += 1
        if c.isspace() != (c.strip() == ''):
            bad.append(('isspace-vs-strip', cp))
    for s in ['', ' ', ' a', '\t\n', '\u2003 ', 'a']:
        n += 1
        if s.isspace() != (len(s) > 0 and s.strip() == ''):
            bad.append(('isspace-vs-strip-str', s))
    n2, bad2 = run_exprs(ex)
    return n + n2, bad + bad2


if __name__ == '__main__':
    n, bad = run()
    print(n, 'cases', len(bad), 'disagreements')
    for b in bad[:20]:
        print(b)
