#!/bin/bash
# developer tool: apply a sed expression to a scratch copy of /repo and run pyvc on it
# usage: tools_mut.sh <file-relative-to-repo> <sed-expr> <modules> [keys...]
set -e
D=/scratch/mut.$$
mkdir -p $D && cp -r ${MUT_SRC:-/repo}/mistletoe $D/ 
f=$1; e=$2; shift 2
sed -i "$e" $D/$f
diff <(cat ${MUT_SRC:-/repo}/$f) $D/$f | head -8 || true
cd /verif && PYVC_REPO=$D python3-vt -m pyvc.run "$@" | grep -v "^   ok" || true
rm -rf $D
