#!/usr/bin/env python3
"""Developer tool: record the number of deductive obligations per property (quick tier) on the
current tree as contracts/EXPECTED_COUNTS.json (vacuity guard of vlib/main.py)."""
import json, os, re, subprocess, sys
out = {}
env = dict(os.environ)
env['VERIF_SELFTEST'] = '1'   # do not overwrite evidence files
for i in range(1, 20):
    pid = 'C%02d' % i
    p = subprocess.run(['./check', pid, '--no-bounded'], cwd='/verif', capture_output=True, text=True, env=env)
    m = re.search(r'tier=quick: (\d+) obligations, (\d+) discharged, (\d+) refuted, (\d+) undecided', p.stdout)
    print(pid, m.groups() if m else p.stdout[-200:])
    if m:
        out[pid] = int(m.group(1))
json.dump(out, open('/verif/contracts/EXPECTED_COUNTS.json', 'w'), indent=1)
