"""pyvc engine: forward symbolic execution of real Python function bodies against sidecar
contracts, producing proof obligations that are discharged by z3 / cvc5.

The function body is read with `ast` from the working tree of /repo on every run (extract.py);
nothing here contains a copy of repository code.
"""
import ast
import hashlib
import os
import time
import z3

from .types import *  # noqa
from .model import Model, Contract, Loop, parse_expr
from . import solve


class OutOfSubset(Exception):
    def __init__(self, what, node=None):
        line = getattr(node, 'lineno', '?')
        super().__init__('%s@%s' % (what, line))
        self.what = what
        self.line = line


class Exc:
    """An exceptional outcome of an expression / statement."""

    def __init__(self, name, line, origin=''):
        self.name = name
        self.line = line
        self.origin = origin

    def __repr__(self):
        return 'Exc(%s@%s %s)' % (self.name, self.line, self.origin)


class Outcome:
    def __init__(self, kind, value=None):
        self.kind = kind      # 'normal' | 'return' | 'break' | 'continue' | 'raise'
        self.value = value


NORMAL = Outcome('normal')


class State:
    def __init__(self):
        self.env = {}
        self.heap = {}       # (cls, field) -> z3 array
        self.glob = {}       # key -> Val
        self.pc = []
        self.ghost = {}
        self.alloc = None
        self.trace = []
        self.dead = False

    def fork(self):
        s = State()
        s.env = dict(self.env)
        s.heap = dict(self.heap)
        s.glob = dict(self.glob)
        s.pc = list(self.pc)
        s.ghost = dict(self.ghost)
        s.alloc = self.alloc
        s.trace = list(self.trace)
        return s

    def assume(self, b):
        if z3.is_true(b):
            return
        self.pc.append(b)


_hints = None


def backend_hints():
    """contracts/BACKEND_HINTS.json: obligation name -> back end that discharged it on the last recorded
    run of the unchanged tree (written by tools_hints.py).  Used to ORDER the solver attempts only."""
    global _hints
    if _hints is None:
        import json
        p = os.path.join(os.path.dirname(os.path.dirname(os.path.abspath(__file__))), 'contracts', 'BACKEND_HINTS.json')
        try:
            with open(p) as f:
                _hints = json.load(f)
        except (OSError, ValueError):
            _hints = {}
    return _hints


class ObResult:
    def __init__(self, name, kind, fn, line, verdict, backend, ms, detail=None, model=None,
                 prop=(), text=''):
        self.name = name
        self.kind = kind
        self.fn = fn
        self.line = line
        self.verdict = verdict
        self.backend = backend
        self.ms = ms
        self.detail = detail
        self.model = model
        self.prop = list(prop)
        self.text = text
        self.candidate = None

    def to_json(self):
        d = dict(name=self.name, kind=self.kind, function=self.fn, line=self.line,
                 verdict=self.verdict, backend=self.backend, ms=round(self.ms, 1))
        if self.detail:
            d['detail'] = str(self.detail)[:2000]
        if self.model is not None:
            d['model'] = self.model
        if getattr(self, 'candidate', None) is not None:
            d['candidate_model'] = self.candidate
        if self.text:
            d['text'] = self.text
        if self.prop:
            d['props'] = self.prop
        return d


def _int(e):
    return e if z3.is_expr(e) else z3.IntVal(e)


class Engine:
    MAX_PATHS = 20000

    def __init__(self, model, repo_root):
        self.m = model
        self.repo = repo_root
        self.results = []
        self.cur_fn = None
        self.cur_contract = None
        self.cur_module = None
        self.cur_class = None
        self.paths = 0
        self.ob_seq = {}
        self.src_cache = {}
        self.covers = []
        self.ufunc_decls = {}
        self.inline_depth = 0
        self.loop_ordinal = {}
        self.spec_depth = 0

    # ------------------------------------------------------------------ source extraction --
    def module_path(self, module):
        return os.path.join(self.repo, module.replace('.', '/') + '.py')

    def module_ast(self, module):
        if module not in self.src_cache:
            path = self.module_path(module)
            src = open(path, encoding='utf-8').read()
            self.src_cache[module] = (src, ast.parse(src))
        return self.src_cache[module]

    def find_def(self, key):
        """key = 'pkg.mod:Class.func' or 'pkg.mod:func' -> (FunctionDef, source segment)."""
        module, qual = key.split('#')[0].split(':')
        src, tree = self.module_ast(module)
        parts = qual.split('.')
        body = tree.body
        node = None
        for i, p in enumerate(parts):
            found = None
            nth = 1
            if '@' in p:                      # 'name@2': the second definition with that name (property setter)
                p, k = p.split('@')
                nth = int(k)
            for n in body:
                if isinstance(n, (ast.FunctionDef, ast.ClassDef)) and n.name == p:
                    nth -= 1
                    if nth == 0:
                        found = n
                        break
            if found is None:
                raise KeyError('function %s not found in working tree' % key)
            node = found
            body = found.body
        if not isinstance(node, ast.FunctionDef):
            raise KeyError('%s is not a function' % key)
        seg = ast.get_source_segment(src, node)
        return node, seg

    # ------------------------------------------------------------------ obligations -------
    def ob_name(self, kind, line, tag=''):
        base = '%s:%s%s' % (self.cur_fn.split(':')[1] if self.cur_fn else '?', kind,
                            (':' + tag) if tag else '')
        n = self.ob_seq.get(base, 0)
        self.ob_seq[base] = n + 1
        return base if n == 0 else '%s#%d' % (base, n)

    def prove(self, st, goal, kind, line, tag='', text='', stable_name=None, defer=None):
        """Record and discharge an obligation; afterwards the goal is assumed on the path.  With
        `defer` (a list) the goal is appended there instead: clauses that stand at the same program
        point (the asserts / preconditions of one call, the postconditions of one exit, the asserts of
        one yield) are each proved from the same facts - never from a sibling clause, which may carry
        another property's tag and be refuted - and assumed together by the caller afterwards."""
        if z3.is_true(goal):
            return
        if defer is not None:
            class _Hold:
                pc = st.pc
                last_line = getattr(st, 'last_line', '?')

                @staticmethod
                def assume(g):
                    defer.append(g)
            real_st = st
            hold = _Hold()
            return self._prove(real_st, hold, goal, kind, line, tag, text, stable_name)
        return self._prove(st, st, goal, kind, line, tag, text, stable_name)

    def _prove(self, real_st, st, goal, kind, line, tag, text, stable_name):
        real = real_st
        name = stable_name or ('%s:%s%s@L%s' % (self.cur_fn.split(':')[1], kind,
                                                 (':' + tag) if tag else '', line))
        for old in self.results:
            if old.name == name and old.verdict == 'refuted':
                st.assume(goal)     # already refuted on another path: one counterexample is enough
                return
            if old.name == name and old.verdict == 'undecided' and getattr(old, 'paths', 1) >= 2 \
                    and not os.environ.get('PYVC_ALL_PATHS'):
                # undecided on two paths already: the verdict can only change to `refuted`; look for a
                # counterexample on the further paths with a short budget instead of the full ladder
                verdict, backend, ms, info = solve.prove(st.pc, goal, timeout_ms=1500, quick=True)
                if verdict == 'refuted':
                    model = self.model_to_json(info, real)
                    self.merge_result(ObResult(name, kind, self.cur_fn, line, verdict, backend, ms, None, model,
                                               prop=(getattr(self, 'clause_props', None) or
                                                     (self.cur_contract.prop if self.cur_contract else ())), text=text))
                st.assume(goal)
                return
        # k-th attempt of this obligation name in this task (one per path): the hint is per attempt
        seqs = self.__dict__.setdefault('attempt_seq', {})
        hk = '%s|%d' % (name, seqs.get(name, 0))
        seqs[name] = seqs.get(name, 0) + 1
        verdict, backend, ms, info = solve.prove(st.pc, goal, timeout_ms=getattr(self, 'timeout_ms', None),
                                                 hint=backend_hints().get(hk))
        if verdict == 'proved' and ms > 1500 and backend in ('cvc5', 'z3-4.8-cli', 'z3'):
            self.__dict__.setdefault('hint_log', {})[hk] = backend
        if os.environ.get('PYVC_TRACE'):
            print('TRACE %-50s %-9s %7.0fms pc=%d last-line=%s' % (name, verdict, ms, len(st.pc), getattr(st, 'last_line', '?')), flush=True)
        model = None
        candidate = None
        if verdict == 'refuted':
            model = self.model_to_json(info, real)
            info = None
        elif verdict == 'undecided' and kind in ('post', 'post-exc', 'noraise'):
            # not a verdict: an input that satisfies the quantifier-free part of the path condition and
            # falsifies the goal.  It may violate the dropped (quantified) facts, so it only counts if
            # the driver can replay it on the real function and the real result breaks the clause.
            try:
                cm = solve.candidate(st.pc, goal)
                if cm is not None:
                    candidate = self.model_to_json(cm, real)
            except Exception:
                candidate = None
        r_ = ObResult(name, kind, self.cur_fn, line, verdict, backend, ms, info,
                      model, prop=(getattr(self, 'clause_props', None) or
                                   (self.cur_contract.prop if self.cur_contract else ())),
                      text=text)
        r_.candidate = candidate
        self.merge_result(r_)
        st.assume(goal)

    def merge_result(self, r):
        """Obligations with the same stable name on several paths are one obligation:
        proved iff proved on every path."""
        for old in self.results:
            if old.name == r.name:
                old.ms += r.ms
                old.paths = getattr(old, 'paths', 1) + 1
                rank = {'proved': 0, 'undecided': 1, 'refuted': 2}
                if rank[r.verdict] > rank[old.verdict]:
                    old.verdict, old.backend, old.detail, old.model = r.verdict, r.backend, r.detail, r.model
                if getattr(old, 'candidate', None) is None and getattr(r, 'candidate', None) is not None:
                    old.candidate = r.candidate
                return
        r.paths = 1
        self.results.append(r)

    def concretize(self, zm, v, depth=0):
        """z3 model value of a Val as a plain Python/JSON value."""
        t = v.t
        if isinstance(t, TNone):
            return None
        if isinstance(t, TObj):
            return {'__obj__': str(v.py)}
        ev = lambda e: zm.eval(e, model_completion=True)
        if isinstance(t, TInt) or isinstance(t, TRef):
            r = ev(v.e)
            return r.as_long() if z3.is_int_value(r) else str(r)
        if isinstance(t, TBool):
            return z3.is_true(ev(v.e))
        if isinstance(t, TStr):
            r = ev(v.e)
            return z3_unescape(r.as_string()) if z3.is_string_value(r) else str(r)
        if depth > 3:
            return '...'
        if isinstance(t, TOpt):
            if z3.is_true(ev(opt_is_none(v))):
                return None
            return self.concretize(zm, opt_val(v), depth + 1)
        if isinstance(t, TTuple):
            return [self.concretize(zm, tuple_get(v, i), depth + 1) for i in range(len(t.elems))]
        if isinstance(t, TList):
            n = ev(list_len(v))
            n = n.as_long() if z3.is_int_value(n) else 0
            out = []
            for i in range(max(0, min(n, 8))):
                out.append(self.concretize(zm, Val(t.elem, z3.Select(list_arr(v), i)), depth + 1))
            if n > 8:
                out.append('... (%d elements)' % n)
            return out
        return str(ev(v.e))

    def model_to_json(self, zm, st):
        out = {}
        try:
            for k, v in list(st.env.items()):
                if isinstance(v, Val):
                    out[k] = self.concretize(zm, v)
            for k, v in st.glob.items():
                out['G:' + k] = self.concretize(zm, v)
            ent = st.ghost.get('__entry__')
            if ent:
                eh = st.ghost.get('__entry_heap__', {})
                for k, v in ent.items():
                    if not isinstance(v, Val):
                        continue
                    out['entry:' + k] = self.concretize(zm, v)
                    refs = []
                    if isinstance(v.t, TRef):
                        refs = [('entry:' + k, v)]
                    seen = 0
                    while refs and seen < 12:
                        label, rv = refs.pop(0)
                        seen += 1
                        for (cls, f), arr in eh.items():
                            if self.is_sub(rv.t.cls, cls):
                                ft = self.m.classes[cls][f]
                                fv = Val(ft, z3.Select(arr, rv.e))
                                out['%s.%s' % (label, f)] = self.concretize(zm, fv)
                                if isinstance(ft, TRef) and label.count('.') < 2:
                                    refs.append(('%s.%s' % (label, f), fv))
        except Exception as e:  # pragma: no cover
            out['__error__'] = repr(e)
        return out

    # ------------------------------------------------------------------ helpers -----------
    def is_sub(self, cls, parent):
        while cls is not None:
            if cls == parent:
                return True
            cls = self.m.subclass_of.get(cls)
        return False

    def field_owner(self, cls, field):
        c = cls
        while c is not None:
            if field in self.m.classes.get(c, {}):
                return c
            c = self.m.subclass_of.get(c)
        return None

    def heap_arr(self, st, cls, field):
        owner = self.field_owner(cls, field)
        if owner is None:
            raise OutOfSubset('unknown field %s.%s' % (cls, field))
        k = (owner, field)
        if isinstance(self.m.classes[owner][field], TObj):
            raise OutOfSubset('read of opaque field %s.%s' % (owner, field))
        if k not in st.heap:
            t = self.m.classes[owner][field]
            st.heap[k] = z3.Const(fresh_name('H_%s_%s' % (owner, field)),
                                  z3.ArraySort(z3.IntSort(), sort_of(t)))
        return k, st.heap[k], self.m.classes[owner][field]

    def read_field(self, st, ref, field):
        k, arr, t = self.heap_arr(st, ref.t.cls, field)
        v = Val(t, z3.Select(arr, ref.e))
        self.assume_wf(st, v)
        inv = self.m.elem_inv.get(k)
        if inv is not None:
            v.py = ('eleminv', inv)
        return v

    def assume_wf(self, st, v):
        """Well-formedness of encoded values: list lengths are non-negative."""
        if isinstance(v.t, TList):
            st.assume(list_len(v) >= 0)
        elif isinstance(v.t, TOpt) and isinstance(v.t.elem, TList):
            st.assume(z3.Or(opt_is_none(v), list_len(opt_val(v)) >= 0))
        elif isinstance(v.t, TTuple):
            for i, et in enumerate(v.t.elems):
                if isinstance(et, (TList, TTuple)):
                    self.assume_wf(st, tuple_get(v, i))

    def fresh_val(self, st, t, base='v'):
        v = fresh(t, base)
        self.assume_wf(st, v)
        return v

    def write_field(self, st, ref, field, val):
        owner = self.field_owner(ref.t.cls, field)
        if owner is not None and isinstance(self.m.classes[owner][field], TObj):
            return      # opaque field (not encoded): the write itself is still frame-checked
        k, arr, t = self.heap_arr(st, ref.t.cls, field)
        val = self.coerce(val, t)
        st.heap[k] = z3.Store(arr, ref.e, val.e)

    def ufunc(self, name):
        if name not in self.ufunc_decls:
            args, ret = self.m.ufuncs[name]
            self.ufunc_decls[name] = z3.Function('uf_' + name, *[sort_of(a) for a in args], sort_of(ret))
        return self.ufunc_decls[name]

    def call_ufunc(self, name, vals):
        args, ret = self.m.ufuncs[name]
        f = self.ufunc(name)
        vs = [self.coerce(v, a) for v, a in zip(vals, args)]
        return Val(ret, f(*[v.e for v in vs]))

    # ------------------------------------------------------------------ coercion / truth --
    def coerce(self, v, t):
        if v.t == t:
            return v
        if isinstance(t, TOpt):
            if isinstance(v.t, TNone):
                return opt_none(t)
            if v.t == t.elem:
                return opt_some(t, v)
            if isinstance(v.t, TRef) and isinstance(t.elem, TRef):
                return opt_some(t, Val(t.elem, v.e))
            if isinstance(v.t, TOpt):
                # Opt[A] -> Opt[B] with coercible payloads
                inner = self.coerce(opt_val(v), t.elem)
                return Val(t, z3.If(opt_is_none(v), opt_none(t).e, opt_some(t, inner).e))
            try:
                inner = self.coerce(v, t.elem)
                return opt_some(t, inner)
            except OutOfSubset:
                pass
        if isinstance(v.t, TOpt) and v.t.elem == t:
            return opt_val(v)
        if isinstance(t, TRef) and isinstance(v.t, TRef):
            return Val(t, v.e)
        if isinstance(t, TInt) and isinstance(v.t, TBool):
            return Val(INT, z3.If(v.e, 1, 0))
        if isinstance(t, TTuple) and isinstance(v.t, TTuple) and len(t.elems) == len(v.t.elems):
            return mk_tuple_t(t, [self.coerce(tuple_get(v, i), t.elems[i]) for i in range(len(t.elems))])
        if isinstance(t, TList) and isinstance(v.t, TList):
            if isinstance(v.t.elem, TNone) and isinstance(t.elem, TOpt) and getattr(v, 'py', None) != 'emptylit':
                # [None, None, ...] as a list of optionals: every element is none
                return mk_list(t, list_len(v), z3.K(z3.IntSort(), opt_none(t.elem).e))
            if isinstance(v.t.elem, TNone) or getattr(v, 'py', None) == 'emptylit':
                return empty_list(t)
            if isinstance(t.elem, TRef) and isinstance(v.t.elem, TRef):
                return Val(t, v.e)
        raise OutOfSubset('cannot coerce %s to %s' % (v.t, t))

    def truthy(self, v):
        t = v.t
        if isinstance(t, TBool):
            return v.e
        if isinstance(t, TInt):
            return v.e != 0
        if isinstance(t, TStr):
            return z3.Length(v.e) > 0
        if isinstance(t, TNone):
            return z3.BoolVal(False)
        if isinstance(t, TList):
            return list_len(v) > 0
        if isinstance(t, TOpt):
            return z3.And(z3.Not(opt_is_none(v)), self.truthy(opt_val(v)))
        if isinstance(t, TTuple):
            return z3.BoolVal(len(t.elems) > 0)
        if isinstance(t, TRef):
            lenf = self.field_owner(t.cls, '__len__')
            if lenf is not None:
                raise OutOfSubset('truthiness of sized object')
            return z3.BoolVal(True)
        if isinstance(t, TObj):
            if t.kind == 'charset':
                return z3.BoolVal(bool(v.py))
            return z3.BoolVal(True)
        raise OutOfSubset('truthiness of %s' % t)

    def equal(self, a, b):
        """Python == / is for the value kinds in the subset."""
        if isinstance(a.t, TNone) and isinstance(b.t, TNone):
            return z3.BoolVal(True)
        if isinstance(a.t, TNone):
            a, b = b, a
        if isinstance(b.t, TNone):
            if isinstance(a.t, TOpt):
                return opt_is_none(a)
            return z3.BoolVal(False)
        if isinstance(a.t, TObj) or isinstance(b.t, TObj):
            if isinstance(a.t, TObj) and isinstance(b.t, TObj):
                kinds = {a.t.kind, b.t.kind}
                if kinds == {'symset', 'charset'}:
                    sym, lit_ = (a, b) if a.t.kind == 'symset' else (b, a)
                    chars = lit_.py
                    if isinstance(chars, (set, frozenset)) and len(chars) == 1:
                        # set(s) == {c}  <=>  s is a non-empty run of c
                        (c,) = tuple(chars)
                        return z3.InRe(sym.py.e, z3.Plus(z3.Re(z3.StringVal(c))))
                    raise OutOfSubset('set comparison with a non-singleton literal')
                if a.t.kind != b.t.kind or a.t.kind not in ('class', 'module', 'func', 'builtin', 'charset'):
                    raise OutOfSubset('comparison of %s with %s' % (a.t, b.t))
                return z3.BoolVal(a.py == b.py)
            # abstract class reference vs concrete class: uninterpreted identity
            o, r = (a, b) if isinstance(a.t, TObj) else (b, a)
            if isinstance(r.t, TRef) and o.t.kind == 'class':
                return r.e == self.class_id(o.py)
            return z3.BoolVal(False)
        if isinstance(a.t, TOpt) and not isinstance(b.t, TOpt):
            try:
                bb = self.coerce(b, a.t.elem)
            except OutOfSubset:
                return z3.BoolVal(False)
            return z3.And(z3.Not(opt_is_none(a)), self.equal(opt_val(a), bb))
        if isinstance(b.t, TOpt) and not isinstance(a.t, TOpt):
            return self.equal(b, a)
        if isinstance(a.t, TBool) and isinstance(b.t, TInt):
            a = self.coerce(a, INT)
        if isinstance(a.t, TInt) and isinstance(b.t, TBool):
            b = self.coerce(b, INT)
        if isinstance(a.t, TList) and isinstance(b.t, TList):
            return self.list_equal(a, b)
        if isinstance(a.t, TTuple) and isinstance(b.t, TTuple):
            if len(a.t.elems) != len(b.t.elems):
                return z3.BoolVal(False)
            return z3.And(*[self.equal(tuple_get(a, i), tuple_get(b, i)) for i in range(len(a.t.elems))]) \
                if a.t.elems else z3.BoolVal(True)
        if a.t != b.t:
            if isinstance(a.t, TRef) and isinstance(b.t, TRef):
                return a.e == b.e
            return z3.BoolVal(False)
        return a.e == b.e

    def list_equal(self, a, b):
        if a.t != b.t:
            try:
                b = self.coerce(b, a.t)
            except OutOfSubset:
                # e.g. [None] vs list of Opt
                return z3.BoolVal(False)
        i = z3.Int(fresh_name('i'))
        return z3.And(list_len(a) == list_len(b),
                      z3.ForAll([i], z3.Implies(z3.And(0 <= i, i < list_len(a)),
                                                z3.Select(list_arr(a), i) == z3.Select(list_arr(b), i))))

    _class_ids = {}

    def class_id(self, name):
        if name not in Engine._class_ids:
            Engine._class_ids[name] = len(Engine._class_ids) + 1
        return z3.IntVal(-Engine._class_ids[name])  # negative ids: never heap-allocated

    # ------------------------------------------------------------------ name resolution ----
    def lookup_name(self, st, name, node=None):
        if name in st.env:
            v = st.env[name]
            if v is UNBOUND:
                return None
            return v
        ns = self.m.namespaces.get(self.cur_module, {})
        if name in ns:
            return self.binding_value(st, ns[name])
        if name in ('True', 'False', 'None'):
            return {'True': mk_bool(True), 'False': mk_bool(False), 'None': NONE_VAL}[name]
        if name in BUILTIN_NAMES:
            return mk_obj('builtin', name)
        return None

    def binding_value(self, st, b):
        kind = b[0]
        if kind == 'global':
            return self.read_global(st, b[1])
        if kind == 'class':
            return mk_obj('class', b[1])
        if kind == 'module':
            return mk_obj('module', b[1])
        if kind == 'func':
            return mk_obj('func', b[1])
        if kind == 'charset':
            return mk_obj('charset', b[1])
        if kind == 'const':
            return b[1]
        if kind == 'str':
            return mk_str(b[1])
        if kind == 'tuple_ctor':
            return mk_obj('tuple_ctor', b[1])
        raise OutOfSubset('binding kind %s' % kind)

    def read_global(self, st, key):
        if key not in st.glob:
            st.glob[key] = self.fresh_val(st, self.m.globals[key], 'G_' + key.replace('.', '_'))
        return st.glob[key]

    def write_global(self, st, key, val):
        st.glob[key] = self.coerce(val, self.m.globals[key])
        st.ghost.setdefault('__written__', set())
        st.ghost['__written__'] = set(st.ghost['__written__']) | {key}

    # ------------------------------------------------------------------ spec evaluation ----
    def spec(self, expr, st, extra=None, old=None):
        """Evaluate a contract expression (string or ast) to a z3 Bool in state `st`."""
        node = parse_expr(expr) if isinstance(expr, str) else expr
        env = SpecEnv(st, extra or {}, old)
        v = self.sev(node, env)
        return self.truthy(v)

    def spec_val(self, expr, st, extra=None, old=None):
        node = parse_expr(expr) if isinstance(expr, str) else expr
        return self.sev(node, SpecEnv(st, extra or {}, old))

    def sev(self, node, env):
        st = env.st
        if isinstance(node, ast.Constant):
            return self.const(node.value, node)
        if isinstance(node, ast.Name):
            if node.id in env.extra:
                return env.extra[node.id]
            v = self.lookup_name(st, node.id, node)
            if v is None:
                g = self.m.globals.get(node.id)
                if g is not None:
                    return self.read_global(st, node.id)
                raise OutOfSubset('spec: unknown name %s' % node.id, node)
            return v
        if isinstance(node, ast.BoolOp):
            vals = []
            for v in node.values:
                b = self.truthy(self.sev(v, env))
                vals.append(b)
                # short-circuit on a literal decision (e.g. `is_none(x) or f(some(x))` when x is
                # statically None on this path): the remaining operands need not be well-typed
                sb = z3.simplify(b)
                if isinstance(node.op, ast.Or) and z3.is_true(sb):
                    return mk_bool(True)
                if isinstance(node.op, ast.And) and z3.is_false(sb):
                    return mk_bool(False)
            return mk_bool(z3.And(*vals) if isinstance(node.op, ast.And) else z3.Or(*vals))
        if isinstance(node, ast.UnaryOp):
            if isinstance(node.op, ast.Not):
                return mk_bool(z3.Not(self.truthy(self.sev(node.operand, env))))
            if isinstance(node.op, ast.USub):
                return mk_int(-self.sev(node.operand, env).e)
        if isinstance(node, ast.IfExp):
            c = self.truthy(self.sev(node.test, env))
            a = self.sev(node.body, env)
            b = self.sev(node.orelse, env)
            a, b = self.unify(a, b)
            return Val(a.t, z3.If(c, a.e, b.e))
        if isinstance(node, ast.Compare):
            left = self.sev(node.left, env)
            conj = []
            for op, rn in zip(node.ops, node.comparators):
                right = self.sev(rn, env)
                conj.append(self.compare(op, left, right, st, None))
                left = right
            return mk_bool(z3.And(*conj) if len(conj) > 1 else conj[0])
        if isinstance(node, ast.BinOp):
            a = self.sev(node.left, env)
            b = self.sev(node.right, env)
            return self.binop(node.op, a, b, st, None, node)
        if isinstance(node, ast.Attribute):
            # dotted global?
            dotted = dotted_name(node)
            if dotted and dotted in self.m.globals:
                return self.read_global(st, dotted)
            base = self.sev(node.value, env)
            return self.attr_read(st, base, node.attr, None, node)
        if isinstance(node, ast.Subscript):
            base = self.sev(node.value, env)
            if isinstance(node.slice, ast.Slice):
                lo = self.sev(node.slice.lower, env) if node.slice.lower else None
                hi = self.sev(node.slice.upper, env) if node.slice.upper else None
                step = self.sev(node.slice.step, env) if node.slice.step else None
                return self.slice(base, lo, hi, step, node)
            idx = self.sev(node.slice, env)
            return self.index(st, base, idx, None, node)
        if isinstance(node, ast.Tuple):
            return mk_tuple([self.sev(e, env) for e in node.elts])
        if isinstance(node, ast.List):
            vals = [self.sev(e, env) for e in node.elts]
            return self.list_literal(vals)
        if isinstance(node, ast.Call):
            return self.spec_call(node, env)
        raise OutOfSubset('spec: %s' % type(node).__name__, node)

    def unify(self, a, b):
        if a.t == b.t:
            return a, b
        for t in (a.t, b.t):
            try:
                return self.coerce(a, t), self.coerce(b, t)
            except OutOfSubset:
                pass
        if isinstance(a.t, TNone) and not isinstance(b.t, TOpt):
            t = TOpt(b.t)
            return self.coerce(a, t), self.coerce(b, t)
        if isinstance(b.t, TNone) and not isinstance(a.t, TOpt):
            t = TOpt(a.t)
            return self.coerce(a, t), self.coerce(b, t)
        raise OutOfSubset('cannot unify %s and %s' % (a.t, b.t))

    def spec_call(self, node, env):
        st = env.st
        f = node.func
        if isinstance(f, ast.Name):
            name = f.id
            if name == 'old':
                if env.old is None:
                    raise OutOfSubset('old() without pre-state', node)
                return self.sev(node.args[0], SpecEnv(env.old, env.extra, env.old))
            if name == 'implies':
                a = self.truthy(self.sev(node.args[0], env))
                if z3.is_false(z3.simplify(a)):
                    return mk_bool(True)
                b = self.truthy(self.sev(node.args[1], env))
                return mk_bool(z3.Implies(a, b))
            if name == 'iff':
                a = self.truthy(self.sev(node.args[0], env))
                b = self.truthy(self.sev(node.args[1], env))
                return mk_bool(a == b)
            if name == 'ite':
                c = self.truthy(self.sev(node.args[0], env))
                a, b = self.unify(self.sev(node.args[1], env), self.sev(node.args[2], env))
                return Val(a.t, z3.If(c, a.e, b.e))
            if name in ('forall', 'exists'):
                # forall(lambda i: body, lo, hi)   i ranges over lo <= i < hi
                lam = node.args[0]
                names = [a.arg for a in lam.args.args]
                bound = [z3.Int(fresh_name(n)) for n in names]
                extra = dict(env.extra)
                for n, b in zip(names, bound):
                    extra[n] = mk_int(b)
                env2 = SpecEnv(st, extra, env.old)
                rng = []
                rest = node.args[1:]
                marked = []
                for k, b in enumerate(bound):
                    if len(rest) >= 2 * k + 2:
                        lo = self.sev(rest[2 * k], env2).e
                        hi = self.sev(rest[2 * k + 1], env2).e
                        rng.append(z3.And(lo <= b, b < hi))
                        slo = z3.simplify(lo)
                        if z3.is_int_value(slo) and slo.as_long() >= 0:
                            marked.append(b)
                saved_nn = getattr(self, 'nonneg_bound', None)
                self.nonneg_bound = list(saved_nn or []) + marked
                try:
                    body = self.truthy(self.sev(lam.body, env2))
                finally:
                    self.nonneg_bound = saved_nn
                guard = z3.And(*rng) if rng else z3.BoolVal(True)
                if name == 'forall':
                    return mk_bool(z3.ForAll(bound, z3.Implies(guard, body)))
                return mk_bool(z3.Exists(bound, z3.And(guard, body)))
            if name == 'forall_str':
                lam = node.args[0]
                names = [a.arg for a in lam.args.args]
                bound = [z3.String(fresh_name(n)) for n in names]
                extra = dict(env.extra)
                for n, b in zip(names, bound):
                    extra[n] = mk_str(b)
                body = self.truthy(self.sev(lam.body, SpecEnv(st, extra, env.old)))
                return mk_bool(z3.ForAll(bound, body))
            if name == 'forall_ref':
                # forall_ref('Class', lambda p: body): p ranges over all allocated references
                cls = node.args[0].value
                lam = node.args[1]
                names = [a.arg for a in lam.args.args]
                bound = [z3.Int(fresh_name(n)) for n in names]
                extra = dict(env.extra)
                for n, b in zip(names, bound):
                    extra[n] = Val(TRef(cls), b)
                body = self.truthy(self.sev(lam.body, SpecEnv(st, extra, env.old)))
                guard = z3.And(*[b >= 0 for b in bound])
                return mk_bool(z3.ForAll(bound, z3.Implies(guard, body)))
            if name == 'len':
                return self.length(self.sev(node.args[0], env))
            if name == 'same':
                a = self.sev(node.args[0], env)
                b = self.sev(node.args[1], env)
                a, b = self.unify(a, b)
                return mk_bool(a.e == b.e)
            if name == 'at_loop':
                snap = st.ghost.get('__loop_entry__%d' % node.args[0].value)
                if snap is None:
                    raise OutOfSubset('at_loop(%d) outside that loop' % node.args[0].value, node)
                return self.sev(node.args[1], SpecEnv(snap, env.extra, env.old))
            if name == 'written':
                # typestate: the named global was assigned on THIS path (since function entry)
                return mk_bool(node.args[0].value in st.ghost.get('__written__', ()))
            if name == 'is_fresh':
                # allocated by the call / function whose contract this is (not before it)
                v = self.sev(node.args[0], env)
                if isinstance(v.t, TOpt):
                    return mk_bool(z3.Or(opt_is_none(v), opt_val(v).e >= env.old.alloc))
                return mk_bool(v.e >= env.old.alloc)
            if name == 'allocated':
                v = self.sev(node.args[0], env)
                return mk_bool(z3.And(v.e >= 0, v.e < st.alloc))
            if name == 'is_none':
                v = self.sev(node.args[0], env)
                return mk_bool(self.equal(v, NONE_VAL))
            if name == 'some':
                v = self.sev(node.args[0], env)
                if isinstance(v.t, TOpt):
                    return opt_val(v)
                return v
            if name in ('max', 'min'):
                a = self.sev(node.args[0], env)
                b = self.sev(node.args[1], env)
                if name == 'max':
                    return mk_int(z3.If(a.e >= b.e, a.e, b.e))
                return mk_int(z3.If(a.e <= b.e, a.e, b.e))
            if name == 'field':
                # field(ref, 'name') explicit heap read
                v = self.sev(node.args[0], env)
                return self.read_field(st, v, node.args[1].value)
            if name == 'ghost':
                return st.ghost[node.args[0].value]
            if name == 'typed_none':
                return NONE_VAL
            if name in self.m.predicates:
                params, body = self.m.predicates[name]
                args = [self.sev(a, env) for a in node.args]
                if len(args) != len(params):
                    raise OutOfSubset('predicate arity %s' % name, node)
                extra = dict(zip(params, args))
                self.spec_depth += 1
                try:
                    if self.spec_depth > 20:
                        raise OutOfSubset('predicate recursion %s' % name, node)
                    return self.sev(parse_expr(body), SpecEnv(st, extra, env.old))
                finally:
                    self.spec_depth -= 1
            if name in self.m.ufuncs:
                return self.call_ufunc(name, [self.sev(a, env) for a in node.args])
            if name == 'isinstance':
                v = self.sev(node.args[0], env)
                return self.isinstance_(st, v, node.args[1], node)
        if isinstance(f, ast.Attribute):
            base = self.sev(f.value, env)
            args = [self.sev(a, env) for a in node.args]
            if isinstance(base.t, TStr) and f.attr == 'split' and len(args) == 1 and isinstance(args[0].t, TStr):
                return self.split_value(st, base, args[0])
            if isinstance(base.t, TStr) and f.attr == 'join' and len(args) == 1 and isinstance(args[0].t, TList) \
                    and hasattr(self, 'join_value'):
                # sep.join(list): the same uninterpreted function of (separator, list) as in code mode
                return self.join_value(st, base, args[0])
            if isinstance(base.t, TStr):
                r = self.str_method(st, base, f.attr, args, None, node)
                if r is not None:
                    return r
            # pure contract method in spec position (e.g. lines.peek())
            if isinstance(base.t, TRef):
                key = self.method_key(base.t.cls, f.attr)
                if key and self.m.contracts[key].pure:
                    return self.pure_call(st, self.m.contracts[key], [base] + args, node)
        raise OutOfSubset('spec call %s' % ast.dump(node)[:80], node)

    def pure_call(self, st, c, args, node):
        """A pure contracted function used as a term: result is a fresh value constrained by ensures."""
        res = fresh(c.returns, 'pure_' + c.key.split(':')[1].replace('.', '_')) \
            if not isinstance(c.returns, TNone) else NONE_VAL
        extra = {}
        for (pn, pt, *_), a in zip(c.params, args):
            extra[pn] = self.coerce(a, pt)
        extra['result'] = res
        for e in c.ensures:
            st.assume(self.spec(e, st, extra, st))
        return res

    # ------------------------------------------------------------------ primitive ops -----
    def const(self, value, node=None):
        if value is None:
            return NONE_VAL
        if isinstance(value, bool):
            return mk_bool(value)
        if isinstance(value, int):
            return mk_int(value)
        if isinstance(value, str):
            return mk_str(value)
        raise OutOfSubset('constant %r' % (value,), node)

    def list_literal(self, vals):
        if not vals:
            v = empty_list(TList(NONE))
            v.py = 'emptylit'
            return v
        t0 = vals[0].t
        for v in vals[1:]:
            if v.t != t0:
                a, b = self.unify(Val(t0, vals[0].e), v)
                t0 = a.t
        vals = [self.coerce(v, t0) for v in vals]
        return list_from(TList(t0), vals)

    def length(self, v):
        if isinstance(v.t, TStr):
            return mk_int(z3.Length(v.e))
        if isinstance(v.t, TList):
            return mk_int(list_len(v))
        if isinstance(v.t, TTuple):
            return mk_int(len(v.t.elems))
        if isinstance(v.t, TObj) and v.t.kind == 'charset':
            return mk_int(len(v.py))
        raise OutOfSubset('len of %s' % v.t)

    def binop(self, op, a, b, st, line, node=None):
        if isinstance(a.t, TBool):
            a = self.coerce(a, INT)
        if isinstance(b.t, TBool):
            b = self.coerce(b, INT)
        if isinstance(a.t, TInt) and isinstance(b.t, TInt):
            if isinstance(op, ast.Add):
                return mk_int(a.e + b.e)
            if isinstance(op, ast.Sub):
                return mk_int(a.e - b.e)
            if isinstance(op, ast.Mult):
                return mk_int(a.e * b.e)
            if isinstance(op, ast.FloorDiv):
                if line is not None:
                    self.prove(st, b.e != 0, 'noraise', line, 'zerodiv')
                # Python // floors; SMT div floors for a positive divisor only.
                if line is not None:
                    self.prove(st, b.e > 0, 'encoding', line, 'floordiv-positive-divisor')
                return mk_int(a.e / b.e)
            if isinstance(op, ast.Mod):
                if line is not None:
                    self.prove(st, b.e != 0, 'noraise', line, 'zerodiv')
                # Python % has the sign of the divisor; SMT mod is non-negative. Equal for b > 0.
                if line is not None:
                    self.prove(st, b.e > 0, 'encoding', line, 'mod-positive-divisor')
                return mk_int(a.e % b.e)
        if isinstance(a.t, TStr) and isinstance(b.t, TStr) and isinstance(op, ast.Add):
            return mk_str(z3.Concat(a.e, b.e))
        if isinstance(op, ast.Mult) and isinstance(a.t, TStr) and isinstance(b.t, TInt):
            return self.str_repeat(st, a, b)
        if isinstance(op, ast.Mult) and isinstance(b.t, TStr) and isinstance(a.t, TInt):
            return self.str_repeat(st, b, a)
        if isinstance(op, ast.Add) and isinstance(a.t, TList) and isinstance(b.t, TList):
            return self.list_concat(a, b, st)
        if isinstance(op, ast.Add) and isinstance(a.t, TTuple) and isinstance(b.t, TTuple):
            return mk_tuple([tuple_get(a, i) for i in range(len(a.t.elems))] +
                            [tuple_get(b, i) for i in range(len(b.t.elems))])
        raise OutOfSubset('binop %s on %s,%s' % (type(op).__name__, a.t, b.t), node)

    def split_value(self, st, s, sep):
        """s.split(sep) as a function of (s, sep) - the same operands give the same list in code and in a
        clause - with the length fact len == count(sep) + 1."""
        r = self.call_ufunc_auto('str_split', [s, sep], TList(STR))
        st.assume(list_len(r) >= 1)
        cnt = self.call_ufunc_auto('str_count', [s, sep], INT, st=st, facts='count')
        st.assume(list_len(r) == cnt.e + 1)
        return r

    def str_repeat(self, st, s, n):
        """s * n: exact for n <= 0; for n > 0 an uninterpreted result with length and
        membership facts (len == len(s)*n; every char of result is a char of s when len(s)==1)."""
        # a function of (s, n): the same operands give the same term in code and in a clause
        r = self.call_ufunc_auto('str_repeat', [s, n], STR)
        nn = z3.If(n.e > 0, n.e, 0)
        st.assume(z3.Length(r.e) == z3.Length(s.e) * nn)
        if z3.is_string_value(s.e) and len(s.e.as_string()) == 1:
            st.assume(z3.InRe(r.e, z3.Star(z3.Re(s.e))))
        return r

    concat_axioms = False

    def list_concat(self, a, b, st=None):
        if a.t != b.t:
            a, b = self.unify(a, b)
        i = z3.Int(fresh_name('ci'))
        la = list_len(a)
        if self.concat_axioms and st is not None:
            # axiomatic encoding (friendlier to E-matching than a lambda array under quantifiers)
            r = self.fresh_val(st, a.t, 'cat')
            st.assume(list_len(r) == la + list_len(b))
            st.assume(z3.ForAll([i], z3.Implies(z3.And(0 <= i, i < la),
                                                z3.Select(list_arr(r), i) == z3.Select(list_arr(a), i))))
            j = z3.Int(fresh_name('cj'))
            st.assume(z3.ForAll([j], z3.Implies(z3.And(la <= j, j < la + list_len(b)),
                                                z3.Select(list_arr(r), j) == z3.Select(list_arr(b), j - la))))
            return r
        arr = z3.Lambda([i], z3.If(i < la, z3.Select(list_arr(a), i), z3.Select(list_arr(b), i - la)))
        return mk_list(a.t, la + list_len(b), arr)

    def compare(self, op, a, b, st, line):
        if isinstance(op, (ast.Eq, ast.Is)):
            return self.equal(a, b)
        if isinstance(op, (ast.NotEq, ast.IsNot)):
            return z3.Not(self.equal(a, b))
        if isinstance(op, (ast.In, ast.NotIn)):
            r = self.contains(st, b, a, line)
            return r if isinstance(op, ast.In) else z3.Not(r)
        if isinstance(a.t, TBool):
            a = self.coerce(a, INT)
        if isinstance(b.t, TBool):
            b = self.coerce(b, INT)
        if line is None and (isinstance(a.t, TNone) or isinstance(b.t, TNone)):
            # spec mode, total semantics: an order comparison with None has an unspecified value
            return z3.Bool(fresh_name('undef'))
        if isinstance(a.t, TOpt) and isinstance(a.t.elem, TInt):
            if line is not None:
                self.prove(st, z3.Not(opt_is_none(a)), 'noraise', line, 'None-compare')
            a = opt_val(a)
        if isinstance(b.t, TOpt) and isinstance(b.t.elem, TInt):
            if line is not None:
                self.prove(st, z3.Not(opt_is_none(b)), 'noraise', line, 'None-compare')
            b = opt_val(b)
        if isinstance(a.t, TInt) and isinstance(b.t, TInt):
            if isinstance(op, ast.Lt):
                return a.e < b.e
            if isinstance(op, ast.LtE):
                return a.e <= b.e
            if isinstance(op, ast.Gt):
                return a.e > b.e
            if isinstance(op, ast.GtE):
                return a.e >= b.e
        raise OutOfSubset('compare %s on %s,%s' % (type(op).__name__, a.t, b.t))

    def contains(self, st, container, item, line=None):
        if isinstance(container.t, TOpt):
            if line is not None:
                self.prove(st, z3.Not(opt_is_none(container)), 'noraise', line, 'in-None')
            container = opt_val(container)
        if isinstance(item.t, TOpt) and isinstance(container.t, TStr):
            if line is not None:
                self.prove(st, z3.Not(opt_is_none(item)), 'noraise', line, 'None-in-str')
            item = opt_val(item)
        if isinstance(container.t, TDict):
            it = self.coerce(item, container.t.k)
            return z3.Not(opt_is_none(Val(TOpt(container.t.v), z3.Select(container.e, it.e))))
        if isinstance(container.t, TStr) and isinstance(item.t, TStr):
            return z3.Contains(container.e, item.e)
        if isinstance(container.t, TObj) and container.t.kind == 'charset':
            chars = container.py
            if isinstance(chars, str):       # named big set: uninterpreted membership
                return self.call_ufunc('in_' + chars, [item]).e
            if not isinstance(item.t, TStr):
                return z3.BoolVal(False)
            return z3.Or(*[item.e == z3.StringVal(c) for c in sorted(chars)]) if chars else z3.BoolVal(False)
        if isinstance(container.t, TTuple):
            ors = [self.equal(tuple_get(container, i), item) for i in range(len(container.t.elems))]
            return z3.Or(*ors) if ors else z3.BoolVal(False)
        if isinstance(container.t, TList):
            i = z3.Int(fresh_name('mi'))
            it = item
            if it.t != container.t.elem:
                try:
                    it = self.coerce(item, container.t.elem)
                except OutOfSubset:
                    return z3.BoolVal(False)
            return z3.Exists([i], z3.And(0 <= i, i < list_len(container),
                                         z3.Select(list_arr(container), i) == it.e))
        raise OutOfSubset('in on %s' % container.t)

    def norm_index(self, n, i):
        if self.known_nonneg(i):
            return i       # keeps `arr[i]` as the quantifier trigger instead of arr[If(i < 0, ...)]
        return z3.If(i < 0, i + n, i)

    @staticmethod
    def _subterms(t, limit=200):
        out, todo = [], [t]
        while todo and len(out) < limit:
            x = todo.pop()
            out.append(x)
            todo.extend(x.children())
        return out

    def known_nonneg(self, i):
        nn = getattr(self, 'nonneg_bound', None)
        if z3.is_int_value(i):
            return i.as_long() >= 0
        if not nn:
            return False
        if z3.is_const(i):
            return any(i.eq(b) for b in nn)
        if z3.is_add(i):
            return all(self.known_nonneg(c) for c in i.children())
        return False

    def index(self, st, base, idx, line, node=None):
        """base[idx]; with `line` set an in-range obligation is generated."""
        if isinstance(base.t, TOpt):
            if line is not None:
                self.prove(st, z3.Not(opt_is_none(base)), 'noraise', line, 'None-subscript')
            base = opt_val(base)
        if isinstance(base.t, TDict):
            k = self.coerce(idx, base.t.k)
            cell = Val(TOpt(base.t.v), z3.Select(base.e, k.e))
            if line is not None:
                self.prove(st, z3.Not(opt_is_none(cell)), 'noraise', line, 'KeyError')
            return opt_val(cell)
        if isinstance(idx.t, TBool):
            idx = self.coerce(idx, INT)
        if isinstance(base.t, TTuple):
            if not z3.is_int_value(z3.simplify(idx.e)):
                raise OutOfSubset('tuple index not constant', node)
            k = z3.simplify(idx.e).as_long()
            n = len(base.t.elems)
            if not -n <= k < n:
                if line is not None:
                    self.prove(st, z3.BoolVal(False), 'noraise', line, 'tuple-index')
                raise OutOfSubset('tuple index out of range', node)
            return tuple_get(base, k % n)
        if isinstance(base.t, TStr):
            n = z3.Length(base.e)
            if line is not None:
                self.prove(st, z3.And(-n <= idx.e, idx.e < n), 'noraise', line, 'str-index')
            return mk_str(z3.SubString(base.e, self.norm_index(n, idx.e), 1))
        if isinstance(base.t, TList):
            n = list_len(base)
            if line is not None:
                self.prove(st, z3.And(-n <= idx.e, idx.e < n), 'noraise', line, 'list-index')
            el = Val(base.t.elem, z3.Select(list_arr(base), self.norm_index(n, idx.e)))
            if isinstance(base.py, tuple) and base.py and base.py[0] == 'eleminv':
                # declared data-structure invariant of this field, instantiated at the element read
                st.assume(self.spec(base.py[1], st, {'x': el}, None))
            return el
        raise OutOfSubset('subscript on %s' % base.t, node)

    def clamp(self, n, v, default):
        """Python slice bound normalisation for step +1."""
        if v is None:
            return default
        e = v.e
        if isinstance(v.t, TOpt):
            e = z3.If(opt_is_none(v), default, opt_val(v).e)
            raw = opt_val(v).e
            e = z3.If(opt_is_none(v), default,
                      z3.If(raw < 0, z3.If(raw + n < 0, 0, raw + n), z3.If(raw > n, n, raw)))
            return e
        return z3.If(e < 0, z3.If(e + n < 0, 0, e + n), z3.If(e > n, n, e))

    def slice(self, base, lo, hi, step, node=None):
        if isinstance(base.t, TOpt):
            base = opt_val(base)
        neg = False
        if step is not None:
            s = z3.simplify(step.e)
            if z3.is_int_value(s) and s.as_long() == -1:
                neg = True
            elif z3.is_int_value(s) and s.as_long() == 1:
                pass
            else:
                raise OutOfSubset('slice step', node)
        if isinstance(base.t, TStr):
            if neg:
                raise OutOfSubset('negative-step string slice', node)
            n = z3.Length(base.e)
            a = self.clamp(n, lo, z3.IntVal(0))
            b = self.clamp(n, hi, n)
            return mk_str(z3.SubString(base.e, a, z3.If(b - a > 0, b - a, 0)))
        if isinstance(base.t, TList):
            n = list_len(base)
            i = z3.Int(fresh_name('si'))
            if not neg:
                a = self.clamp(n, lo, z3.IntVal(0))
                b = self.clamp(n, hi, n)
                ln = z3.If(b - a > 0, b - a, 0)
                arr = z3.Lambda([i], z3.Select(list_arr(base), i + a))
                return mk_list(base.t, ln, arr)
            # step == -1
            def nclamp(v, default):
                if v is None:
                    return default
                def body(e):
                    return z3.If(e < 0, z3.If(e + n < -1, -1, e + n), z3.If(e > n - 1, n - 1, e))
                if isinstance(v.t, TOpt):
                    return z3.If(opt_is_none(v), default, body(opt_val(v).e))
                if isinstance(v.t, TNone):
                    return default
                return body(v.e)
            a = nclamp(lo, n - 1)
            b = nclamp(hi, z3.IntVal(-1))
            ln = z3.If(a - b > 0, a - b, 0)
            arr = z3.Lambda([i], z3.Select(list_arr(base), a - i))
            return mk_list(base.t, ln, arr)
        if isinstance(base.t, TTuple):
            raise OutOfSubset('tuple slice', node)
        raise OutOfSubset('slice on %s' % base.t, node)

    def source_class_const(self, pycls, attr):
        """A class attribute the model does not know (added by a change to the working tree): if the class body
        binds it to an int / str / bool literal and no statement of the package assigns to an attribute of that
        name anywhere, its value is that literal."""
        c = pycls
        while c is not None:
            for module in sorted(self.m.namespaces):
                try:
                    _src, tree = self.module_ast(module)
                except (OSError, KeyError, SyntaxError):
                    continue
                for n in tree.body:
                    if not (isinstance(n, ast.ClassDef) and n.name == c):
                        continue
                    for b in n.body:
                        if isinstance(b, ast.Assign) and len(b.targets) == 1 and isinstance(b.targets[0], ast.Name) \
                                and b.targets[0].id == attr:
                            if not (isinstance(b.value, ast.Constant) and isinstance(b.value.value, (bool, int, str))):
                                return None
                            for m2 in sorted(self.m.namespaces):
                                try:
                                    _s2, t2 = self.module_ast(m2)
                                except (OSError, KeyError, SyntaxError):
                                    continue
                                for x in ast.walk(t2):
                                    if isinstance(x, ast.Attribute) and x.attr == attr and isinstance(x.ctx, (ast.Store, ast.Del)):
                                        return None
                                    if isinstance(x, ast.Call) and isinstance(x.func, ast.Name) and x.func.id == 'setattr':
                                        pass
                            v = b.value.value
                            return mk_bool(v) if isinstance(v, bool) else mk_int(v) if isinstance(v, int) else mk_str(v)
            c = self.m.subclass_of.get(c)
        return None

    def attr_read(self, st, base, attr, line, node=None):
        if isinstance(base.t, TOpt) and isinstance(base.t.elem, TRef):
            if line is not None:
                self.prove(st, z3.Not(opt_is_none(base)), 'noraise', line, 'None-attribute:' + attr)
            base = opt_val(base)
        if isinstance(base.t, TNone):
            if line is not None:
                self.prove(st, z3.BoolVal(False), 'noraise', line, 'None-attribute:' + attr)
            raise OutOfSubset('attribute of None', node)
        if isinstance(base.t, TRef):
            if self.field_owner(base.t.cls, attr) is not None:
                if (self.field_owner(base.t.cls, attr), attr) in self.m.optional_fields and line is not None:
                    has = self.read_field(st, base, '__has_' + attr)
                    self.prove(st, has.e, 'noraise', line, 'AttributeError:' + attr)
                return self.read_field(st, base, attr)
            key = self.method_key(base.t.cls, attr)
            if key:
                c = self.m.contracts[key]
                if getattr(c, 'is_property', False):
                    return None  # handled by caller
                return mk_obj('boundmethod', (key, base))
            ca = self.m.class_attrs.get((base.t.cls, attr))
            if ca is not None and ca[0] == 'const':
                return ca[1]       # class-level constant read through an instance
            raise OutOfSubset('unknown attribute %s.%s' % (base.t.cls, attr), node)
        if isinstance(base.t, TObj):
            if base.t.kind == 'class':
                ca = self.m.class_attrs.get((base.py, attr))
                if ca is not None:
                    return self.binding_value(st, ca)
                key = self.class_method_key(base.py, attr)
                if key:
                    return mk_obj('func', key)
                cv = self.source_class_const(base.py, attr)
                if cv is not None:
                    return cv
                raise OutOfSubset('unknown class attribute %s.%s' % (base.py, attr), node)
            if base.t.kind == 'module':
                ns = self.m.namespaces.get(base.py, {})
                if attr in ns:
                    return self.binding_value(st, ns[attr])
                fk = self.auto_inline_module_function(base.py, attr) if hasattr(self, 'auto_inline_module_function') else None
                if fk is not None:
                    return mk_obj('func', fk)
                raise OutOfSubset('unknown module attribute %s.%s' % (base.py, attr), node)
        raise OutOfSubset('attribute %s on %s' % (attr, base.t), node)

    def method_key(self, cls, name):
        c = cls
        while c is not None:
            k = self.m.methods.get((c, name))
            if k:
                return k
            c = self.m.subclass_of.get(c)
        return None

    def class_method_key(self, pycls, name):
        c = pycls
        while c is not None:
            k = self.m.methods.get((c, name))
            if k:
                return k
            c = self.m.subclass_of.get(c)
        return None

    def isinstance_(self, st, v, clsnode, node):
        names = []
        if isinstance(clsnode, ast.Tuple):
            for e in clsnode.elts:
                names.append(dotted_name(e))
        else:
            names.append(dotted_name(clsnode))
        names = [n.split('.')[-1] for n in names]
        if 'list' in names and isinstance(v.t, TList):
            return mk_bool(True)
        if 'str' in names and isinstance(v.t, TStr):
            return mk_bool(True)
        if isinstance(v.t, (TList, TStr, TInt, TBool, TTuple, TNone)):
            return mk_bool(False)
        if isinstance(v.t, TRef):
            if any(self.is_sub(v.t.cls, n) for n in names):
                return mk_bool(True)
            # dynamic kind test through an uninterpreted predicate per class name
            ors = []
            for n in names:
                fn = 'isinstance_' + n
                if fn not in self.m.ufuncs:
                    self.m.ufuncs[fn] = ([INT], BOOL)
                ors.append(self.ufunc(fn)(v.e))
            return mk_bool(z3.Or(*ors))
        raise OutOfSubset('isinstance on %s' % v.t, node)

    # string methods shared by spec and code mode -------------------------------------------
    WS = None

    def ws_re(self, chars):
        return z3.Union(*[z3.Re(z3.StringVal(c)) for c in chars]) if len(chars) > 1 else z3.Re(z3.StringVal(chars[0]))

    PY_WS = [chr(i) for i in range(0x110000) if chr(i).isspace()]

    exact_strip = False

    def in_charset(self, c, cs):
        """c (a one-character string term) is one of the characters cs."""
        return z3.Or(*[c == z3.StringVal(x) for x in cs])

    def strip_like(self, st, s, chars, left, right):
        """str.strip/lstrip/rstrip as an uninterpreted function of its argument plus instance
        facts.  Default ("light") facts are sound consequences of the exact specification
        (assumption A3): the result is a suffix/prefix/substring of s, its exposed end
        characters are not strippable, an unstrippable end leaves s unchanged, and the three
        variants over the same character set are empty together (blank(s)).
        With exact_strip the exact characterisation s = p ++ r ++ q, p,q in C*, is added."""
        cs = self.PY_WS if chars is None else list(chars)
        tag = 'ws' if chars is None else ''.join('%x_' % ord(c) for c in cs)
        fname = 'strip_%s%s_%s' % ('l' if left else '', 'r' if right else '', tag)
        if fname not in self.m.ufuncs:
            self.m.ufuncs[fname] = ([STR], STR)
        bname = 'blank_' + tag
        if bname not in self.m.ufuncs:
            self.m.ufuncs[bname] = ([STR], BOOL)
        r = self.call_ufunc(fname, [s])
        key = (fname, s.e.get_id(), self.exact_strip)
        cache = st.ghost.get('__strip_cache__', frozenset())
        if key in cache:
            return r
        st.ghost['__strip_cache__'] = cache | {key}
        blank = self.call_ufunc(bname, [s]).e
        n = z3.Length(s.e)
        rn = z3.Length(r.e)
        st.assume((rn == 0) == blank)
        st.assume(z3.Implies(n == 0, blank))
        if getattr(self, 'blank_axiom', False):
            # valid fact (consequence of s = p ++ r ++ q with p, q in C*): a string made of strippable
            # characters only strips to the empty string
            st.assume(z3.Implies(z3.InRe(s.e, z3.Star(self.ws_re(cs))), blank))
        st.assume(rn <= n)
        first = z3.SubString(r.e, 0, 1)
        last = z3.SubString(r.e, rn - 1, 1)
        if left and not right:
            st.assume(z3.SuffixOf(r.e, s.e))
        elif right and not left:
            st.assume(z3.PrefixOf(r.e, s.e))
        else:
            st.assume(z3.Contains(s.e, r.e))
        if left:
            st.assume(z3.Or(rn == 0, z3.Not(self.in_charset(first, cs))))
            if not right:
                st.assume(z3.Implies(z3.And(n > 0, z3.Not(self.in_charset(z3.SubString(s.e, 0, 1), cs))), r.e == s.e))
        if right:
            st.assume(z3.Or(rn == 0, z3.Not(self.in_charset(last, cs))))
            if not left:
                st.assume(z3.Implies(z3.And(n > 0, z3.Not(self.in_charset(z3.SubString(s.e, n - 1, 1), cs))), r.e == s.e))
        if left and right:
            st.assume(z3.Implies(z3.And(n > 0, z3.Not(self.in_charset(z3.SubString(s.e, 0, 1), cs)),
                                        z3.Not(self.in_charset(z3.SubString(s.e, n - 1, 1), cs))), r.e == s.e))
        # cross-variant lemma (same side(s), nested character sets C1 <= C2): if the C1-stripped
        # string already has non-C2 ends, stripping C2 gives the same result.  Instantiated for
        # the family {Unicode whitespace, ' '} on the same argument term.
        if not getattr(self, '_in_variant', False):
            self._in_variant = True
            try:
                for other in (None, ' '):
                    ocs = self.PY_WS if other is None else list(other)
                    if set(ocs) == set(cs):
                        continue
                    if not (set(ocs) <= set(cs) or set(cs) <= set(ocs)):
                        continue
                    ro = self.strip_like(st, s, other, left, right)
                    small_r, big_r, big = (ro.e, r.e, cs) if set(ocs) <= set(cs) else (r.e, ro.e, ocs)
                    ln = z3.Length(small_r)
                    conds = [ln > 0]
                    if left:
                        conds.append(z3.Not(self.in_charset(z3.SubString(small_r, 0, 1), big)))
                    if right:
                        conds.append(z3.Not(self.in_charset(z3.SubString(small_r, ln - 1, 1), big)))
                    st.assume(z3.Implies(z3.And(*conds), big_r == small_r))
            finally:
                self._in_variant = False
        if self.exact_strip:
            C = self.ws_re(cs)
            p = z3.String(fresh_name('sp')) if left else z3.StringVal('')
            q = z3.String(fresh_name('sq')) if right else z3.StringVal('')
            st.assume(s.e == z3.Concat(p, r.e, q))
            if left:
                st.assume(z3.InRe(p, z3.Star(C)))
            if right:
                st.assume(z3.InRe(q, z3.Star(C)))
        return r

    def str_method(self, st, s, name, args, line, node=None):
        if name in ('strip', 'lstrip', 'rstrip'):
            chars = None
            if args:
                a = z3.simplify(args[0].e)
                if not z3.is_string_value(a):
                    # symbolic character set: an uninterpreted result with the facts that hold for
                    # every character set (substring, not longer; unchanged when chars is empty)
                    r = self.call_ufunc_auto('str_%s_chars' % name, [s, args[0]], STR)
                    st.assume(z3.Length(r.e) <= z3.Length(s.e))
                    st.assume(z3.Contains(s.e, r.e))
                    st.assume(z3.Implies(z3.Length(args[0].e) == 0, r.e == s.e))
                    return r
                chars = a.as_string()
            return self.strip_like(st, s, chars, name in ('strip', 'lstrip'), name in ('strip', 'rstrip'))
        if name == 'startswith' or name == 'endswith':
            f = z3.PrefixOf if name == 'startswith' else z3.SuffixOf
            a = args[0]
            if isinstance(a.t, TTuple):
                return mk_bool(z3.Or(*[f(tuple_get(a, i).e, s.e) for i in range(len(a.t.elems))]))
            return mk_bool(f(a.e, s.e))
        if name == 'replace':
            if len(args) == 3:
                c = z3.simplify(args[2].e)
                if z3.is_int_value(c) and c.as_long() == 1:
                    return mk_str(z3.Replace(s.e, args[0].e, args[1].e))
            return self.call_ufunc_auto('str_replace_all', [s, args[0], args[1]], STR)
        if name == 'find':
            if len(args) == 1:
                return mk_int(z3.IndexOf(s.e, args[0].e, 0))
        if name == 'count':
            r = self.call_ufunc_auto('str_count', [s, args[0]], INT, st=st, facts='count')
            a0 = z3.simplify(args[0].e)
            if z3.is_string_value(a0) and len(a0.as_string()) == 1:
                st.assume((r.e >= 1) == z3.Contains(s.e, args[0].e))
                # additivity over a cut: count(t) == count(t[:a]) + count(t[a:]) when s is the suffix t[a:]
                se = s.e
                if z3.is_app(se) and se.decl().kind() == z3.Z3_OP_SEQ_EXTRACT:
                    base, off, ln = se.children()
                    head = z3.SubString(base, 0, off)
                    cb = self.call_ufunc_auto('str_count', [mk_str(base), args[0]], INT)
                    ch = self.call_ufunc_auto('str_count', [mk_str(head), args[0]], INT)
                    whole = z3.And(off >= 0, off <= z3.Length(base), ln >= z3.Length(base) - off)
                    st.assume(z3.Implies(whole, cb.e == ch.e + r.e))
                    st.assume(z3.And(ch.e >= 0, (ch.e >= 1) == z3.Contains(head, args[0].e)))
            return r
        if name == 'isspace':
            # exact: non-empty and made of whitespace only, i.e. stripping whitespace leaves nothing
            # (str.strip() and str.isspace() use the same character class)
            r = self.call_ufunc_auto('str_isspace', [s], BOOL)
            stripped = self.strip_like(st, s, None, True, True)
            st.assume(r.e == z3.And(z3.Length(s.e) > 0, z3.Length(stripped.e) == 0))
            return r
        if name in ('isdigit', 'isupper', 'isalpha'):
            return self.call_ufunc_auto('str_' + name, [s], BOOL)
        if name in ('casefold', 'lower', 'upper'):
            return self.call_ufunc_auto('str_' + name, [s], STR)
        if name == 'expandtabs':
            r = self.call_ufunc_auto('str_expandtabs', [s] + args, STR)
            st.assume(z3.Length(r.e) >= z3.Length(s.e))
            st.assume(z3.Implies(z3.Not(z3.Contains(s.e, z3.StringVal('\t'))), r.e == s.e))
            return r
        if name == 'split':
            return None
        if name == 'join':
            return None
        if name == 'format':
            return None
        return None

    def call_ufunc_auto(self, name, vals, ret, st=None, facts=None):
        if name not in self.m.ufuncs:
            self.m.ufuncs[name] = ([v.t for v in vals], ret)
        r = self.call_ufunc(name, vals)
        if facts == 'count' and st is not None:
            st.assume(r.e >= 0)
            st.assume(r.e <= z3.Length(vals[0].e))
        return r


class SpecEnv:
    def __init__(self, st, extra, old):
        self.st = st
        self.extra = extra
        self.old = old


UNBOUND = object()

BUILTIN_NAMES = {'len', 'next', 'enumerate', 'range', 'any', 'all', 'isinstance', 'hasattr', 'int',
                 'set', 'min', 'max', 'sorted', 'list', 'getattr', 'reversed', 'zip', 'map', 'filter',
                 'str', 'ord', 'super', 'StopIteration', 'RuntimeError', 'NotImplementedError',
                 'tuple', 'bool'}


def dotted_name(node):
    parts = []
    while isinstance(node, ast.Attribute):
        parts.append(node.attr)
        node = node.value
    if isinstance(node, ast.Name):
        parts.append(node.id)
        return '.'.join(reversed(parts))
    return None


def mk_tuple_t(t, vals):
    return Val(t, sort_of(t).constructor(0)(*[v.e for v in vals]))
