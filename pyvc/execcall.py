"""Calls (contracts, inlining, builtins, constructors) and the per-function driver."""
import ast
import hashlib
import time
import z3
from .types import *  # noqa
from .engine import Engine, OutOfSubset, Exc, Outcome, NORMAL, UNBOUND, State, ObResult, dotted_name
from .execexpr import ExprMixin
from .execstmt import StmtMixin, assigned_names
from .model import Contract, Loop
from . import solve


def mutated_global_names(fdef):
    """Names a function mutates in place (receiver of a mutating list method, subscript store) or
    declares `global`, and never binds as a plain local: candidates for module globals."""
    bound, mutated, declared = set(), set(), set()
    for a in fdef.args.args + fdef.args.kwonlyargs:
        bound.add(a.arg)
    for n in ast.walk(fdef):
        if isinstance(n, ast.Global):
            declared |= set(n.names)
        elif isinstance(n, ast.Name) and isinstance(n.ctx, ast.Store):
            bound.add(n.id)
        elif isinstance(n, ast.Call) and isinstance(n.func, ast.Attribute) and isinstance(n.func.value, ast.Name) \
                and n.func.attr in ('append', 'pop', 'remove', 'extend', 'insert', 'clear', 'update', 'sort', 'reverse'):
            mutated.add(n.func.value.id)
        elif isinstance(n, (ast.Subscript,)) and isinstance(n.ctx, (ast.Store, ast.Del)) and isinstance(n.value, ast.Name):
            mutated.add(n.value.id)
    return frozenset((mutated - bound) | declared)


def clause(e):
    """A contract clause is an expression string or (expression, [property ids])."""
    if isinstance(e, tuple):
        return e[0], ([e[1]] if isinstance(e[1], str) else list(e[1]))
    return e, None


class Executor(ExprMixin, StmtMixin, Engine):
    clause_props = None

    def __init__(self, model, repo_root):
        super().__init__(model, repo_root)
        self.cur_fn_stack = []
        self.loop_index = {}
        self.local_types = {}
        self.fn_old = None
        self.fn_hashes = {}
        self.errors = []

    # ------------------------------------------------------------------ frames ------------
    def written_in(self, body_nodes):
        c = self.m.contracts[self.cur_fn_stack[0]]
        return self.contract_fields(c, whole=True), self.contract_globals(c)

    def contract_fields(self, c, whole=False):
        out = set()
        for mfy in c.modifies:
            if mfy.startswith(('F:', 'N:')):
                cls, f = mfy[2:].split('.')
                if mfy.startswith('N:') and not whole:
                    continue
                out.add((self.field_owner(cls, f), f))
            elif mfy.startswith(('G:', 'P:')):
                continue
            else:
                p, f = mfy.split('.')
                pt = [t for (n, t, *_) in c.params if n == p]
                if not pt:
                    raise OutOfSubset('modifies entry %s names no parameter' % mfy)
                t = pt[0]
                if isinstance(t, TOpt):
                    t = t.elem
                out.add((self.field_owner(t.cls, f), f))
        return out

    def fresh_only_fields(self):
        c = self.m.contracts[self.cur_fn_stack[0]]
        out = set()
        others = set()
        for mfy in c.modifies:
            if mfy.startswith('N:'):
                cls, f = mfy[2:].split('.')
                out.add((self.field_owner(cls, f), f))
        return out - self.contract_fields(c, whole=False)

    def contract_globals(self, c):
        return {m[2:] for m in c.modifies if m.startswith('G:')}

    def check_field_write_allowed(self, st, base, field, line):
        c = self.m.contracts[self.cur_fn_stack[0]]
        owner = self.field_owner(base.t.cls, field)
        allowed = []
        for mfy in c.modifies:
            if mfy.startswith('F:'):
                cls, f = mfy[2:].split('.')
                if f == field and self.field_owner(cls, f) == owner:
                    return
            elif not mfy.startswith(('G:', 'P:', 'N:')):
                p, f = mfy.split('.')
                if f != field:
                    continue
                ent = st.ghost['__entry__'].get(p)
                if ent is not None:
                    e = ent
                    if isinstance(e.t, TOpt):
                        e = opt_val(e)
                    if isinstance(e.t, TRef) and self.field_owner(e.t.cls, f) == owner:
                        allowed.append(base.e == e.e)
        fresh_ok = base.e >= st.ghost['__entry_alloc__']
        self.prove(st, z3.Or(fresh_ok, *allowed), 'frame', line, 'write:%s.%s' % (owner, field))

    def write_field(self, st, ref, field, val, check=True, line=0):
        if check and self.cur_fn_stack and not field.startswith('__has_'):
            self.check_field_write_allowed(st, ref, field, line or self.cur_line)
        super().write_field(st, ref, field, val)

    def write_global(self, st, key, val):
        if self.cur_fn_stack:
            c = self.m.contracts[self.cur_fn_stack[0]]
            if key not in self.contract_globals(c):
                self.prove(st, z3.BoolVal(False), 'frame', self.cur_line, 'global-write:' + key)
        super().write_global(st, key, val)

    cur_line = 0

    def exec_stmt(self, node, st):
        self.cur_line = getattr(node, 'lineno', self.cur_line)
        c = self.m.contracts.get(self.cur_fn_stack[0]) if len(self.cur_fn_stack) == 1 else None
        if c is not None and getattr(c, 'ghost_before', None) and not isinstance(node, (ast.If, ast.While, ast.For, ast.Try)):
            pre = c.ghost_before.get(ast.unparse(node))
            if pre is not None:
                self.ghost_hits = getattr(self, 'ghost_hits', set()) | {'before:' + ast.unparse(node)}
                for gi, (gname, expr) in enumerate(pre):
                    e2, props = clause(expr)
                    self.clause_props = props
                    self.prove(st, self.spec(e2, st, {}, self.fn_old), 'ghost-assert', self.cur_line, 'before.%d' % gi, text=e2)
                    self.clause_props = None
        upd = None
        if c is not None and c.ghost_after and not isinstance(node, (ast.If, ast.While, ast.For, ast.Try)):
            text = ast.unparse(node)
            upd = c.ghost_after.get(text)
            if upd is None:
                import re as _re
                for pat, u in c.ghost_after.items():
                    if pat.startswith('re:') and _re.fullmatch(pat[3:], text):
                        upd = u
                        self.ghost_hits = getattr(self, 'ghost_hits', set()) | {pat}
                        break
        if upd is None:
            yield from super().exec_stmt(node, st)
            return
        self.ghost_hits = getattr(self, 'ghost_hits', set()) | {ast.unparse(node)}
        for s1, out in super().exec_stmt(node, st):
            if out.kind == 'normal' and not s1.dead:
                for gname, expr in upd:
                    if gname == '__assume__':
                        # an assumed lemma (listed in the evidence as an assumption of this contract)
                        s1.assume(self.spec(expr, s1, {}, self.fn_old))
                        continue
                    if gname == '__assert__':
                        e2, props = clause(expr)
                        self.clause_props = props
                        self.prove(s1, self.spec(e2, s1, {}, self.fn_old), 'ghost-assert', self.cur_line,
                                   'after.%d' % upd.index((gname, expr)), text=e2)
                        self.clause_props = None
                        continue
                    v = self.spec_val(expr, s1, {}, self.fn_old)
                    s1.env[gname] = self.coerce(v, c.ghost_init[gname][0])
            yield s1, out

    # ------------------------------------------------------------------ calls -------------
    def ev_call(self, node, st):
        line = node.lineno
        f = node.func
        if isinstance(f, ast.Attribute) and f.attr == 'group' and len(node.args) > 1 and not node.keywords \
                and isinstance(f.value, ast.Name):
            # m.group(a, b, ...) == (m.group(a), m.group(b), ...)   (re documentation)
            tup = ast.Tuple(elts=[ast.Call(func=f, args=[a], keywords=[]) for a in node.args], ctx=ast.Load())
            ast.copy_location(tup, node)
            for e in tup.elts:
                ast.copy_location(e, node)
            yield from self.ev(tup, st)
            return
        # --- builtins by bare name
        if isinstance(f, ast.Name) and f.id not in st.env:
            v = self.lookup_name(st, f.id)
            if v is not None and isinstance(v.t, TObj) and v.t.kind == 'builtin':
                yield from self.ev_builtin(f.id, node, st)
                return
        # --- method calls on evaluated receivers
        if isinstance(f, ast.Attribute):
            dotted = dotted_name(f)
            for s1, base in self.ev(f.value, st):
                if isinstance(base, Exc):
                    yield s1, base
                    continue
                yield from self.ev_method_call(node, f, base, s1)
            return
        # --- plain function / class call
        for s1, fv in self.ev(f, st):
            if isinstance(fv, Exc):
                yield s1, fv
                continue
            yield from self.ev_call_value(node, fv, s1)

    def ev_args(self, node, st):
        """yields (state, ([positional vals], {kw: val})) or (state, Exc)."""
        if any(isinstance(a, ast.Starred) for a in node.args) or any(k.arg is None for k in node.keywords):
            raise OutOfSubset('star-args call', node)
        nodes = list(node.args) + [k.value for k in node.keywords]
        for s1, vals in self.ev_list(nodes, st):
            if isinstance(vals, Exc):
                yield s1, vals
                continue
            pos = vals[:len(node.args)]
            kw = {k.arg: v for k, v in zip(node.keywords, vals[len(node.args):])}
            yield s1, (pos, kw)

    def ev_call_value(self, node, fv, st, prefix_args=()):
        if not isinstance(fv.t, TObj):
            if isinstance(fv.t, TRef):
                # calling an abstract class object: constructor protocol
                key = self.method_key(fv.t.cls, '__call__')
                if key:
                    for s1, a in self.ev_args(node, st):
                        if isinstance(a, Exc):
                            yield s1, a
                            continue
                        yield from self.call_contract(s1, self.m.contracts[key], [fv] + a[0], a[1], node)
                    return
            raise OutOfSubset('call of %s' % fv.t, node)
        kind = fv.t.kind
        for s1, a in self.ev_args(node, st):
            if isinstance(a, Exc):
                yield s1, a
                continue
            pos, kw = a
            pos = list(prefix_args) + pos
            if kind == 'func':
                yield from self.call_contract(s1, self.m.contracts[fv.py], pos, kw, node)
            elif kind == 'boundmethod':
                key, recv = fv.py
                yield from self.call_contract(s1, self.m.contracts[key], [recv] + pos, kw, node)
            elif kind == 'class':
                yield from self.construct(s1, fv.py, pos, kw, node)
            elif kind == 'localfunc':
                yield from self.inline_local(s1, fv.py, pos, kw, node)
            elif kind == 'tuple_ctor':
                yield s1, mk_tuple(pos)       # namedtuple constructor: positional fields
            else:
                raise OutOfSubset('call of %s' % kind, node)

    def ev_method_call(self, node, f, base, st):
        line = node.lineno
        name = f.attr
        if isinstance(base.t, TOpt) and not isinstance(base.t.elem, (TStr, TList)) or isinstance(base.t, TNone):
            if isinstance(base.t, TNone):
                self.prove(st, z3.BoolVal(False), 'noraise', line, 'None-method:' + name)
                st.dead = True
                return
            self.prove(st, z3.Not(opt_is_none(base)), 'noraise', line, 'None-method:' + name)
            base = opt_val(base)
        if isinstance(base.t, TOpt):
            self.prove(st, z3.Not(opt_is_none(base)), 'noraise', line, 'None-method:' + name)
            base = opt_val(base)
        if isinstance(base.t, TStr):
            for s1, a in self.ev_args(node, st):
                if isinstance(a, Exc):
                    yield s1, a
                    continue
                yield s1, self.str_call(s1, base, name, a[0], a[1], line, node)
            return
        if isinstance(base.t, TList):
            yield from self.list_call(node, f, base, name, st)
            return
        if isinstance(base.t, TDict):
            if name != 'get':
                raise OutOfSubset('dict method %s' % name, node)
            for s1, a in self.ev_args(node, st):
                if isinstance(a, Exc):
                    yield s1, a
                    continue
                pos, kw = a
                if kw or not 1 <= len(pos) <= 2 or (len(pos) == 2 and not isinstance(pos[1].t, TNone)):
                    raise OutOfSubset('dict.get with a default other than None', node)
                # d.get(k) / d.get(k, None): the cell of the total map key -> Optional[value]
                k = self.coerce(pos[0], base.t.k)
                yield s1, Val(TOpt(base.t.v), z3.Select(base.e, k.e))
            return
        if isinstance(base.t, TRef):
            key = self.method_key(base.t.cls, name)
            if key is None and self.field_owner(base.t.cls, name) is not None:
                # calling the value of a field (e.g. self.cls(match))
                fv = self.attr_read(st, base, name, line, node)
                yield from self.ev_call_value(node, fv, st)
                return
            if key is None:
                key = self.auto_inline_contract(base.t.cls, name, node)
            if key is None:
                raise OutOfSubset('no contract for method %s.%s' % (base.t.cls, name), node)
            c = self.m.contracts[key]
            for s1, a in self.ev_args(node, st):
                if isinstance(a, Exc):
                    yield s1, a
                    continue
                recv = [] if getattr(c, 'is_static', False) else [base]
                yield from self.call_contract(s1, c, recv + a[0], a[1], node)
            return
        if isinstance(base.t, TObj):
            if base.t.kind == 'class':
                key = self.class_method_key(base.py, name)
                if key is None:
                    key = self.auto_inline_contract(base.py, name, node)
                if key is None:
                    raise OutOfSubset('no contract for %s.%s' % (base.py, name), node)
                c = self.m.contracts[key]
                for s1, a in self.ev_args(node, st):
                    if isinstance(a, Exc):
                        yield s1, a
                        continue
                    pre = [base] if getattr(c, 'is_classmethod', False) else []
                    yield from self.call_contract(s1, c, pre + a[0], a[1], node)
                return
            if base.t.kind == 'module':
                fv = self.attr_read(st, base, name, line, node)
                yield from self.ev_call_value(node, fv, st)
                return
            if base.t.kind == 'super':
                key = self.class_method_key(self.m.subclass_of.get(base.py[0]), name)
                if key is None:
                    raise OutOfSubset('super().%s' % name, node)
                yield from self.ev_call_value(node, mk_obj('boundmethod', (key, base.py[1])), st)
                return
            if base.t.kind == 'pattern':
                for s1, a in self.ev_args(node, st):
                    if isinstance(a, Exc):
                        yield s1, a
                        continue
                    yield from self.regex_call(s1, base.py, name, a[0], node)
                return
        raise OutOfSubset('method %s on %s' % (name, base.t), node)

    def regex_call(self, st, pat, name, args, node):
        key = 're:%s.%s' % (pat, name)
        if key not in self.m.contracts:
            raise OutOfSubset('no capture contract %s' % key, node)
        yield from self.call_contract(st, self.m.contracts[key], args, {}, node)

    def str_call(self, st, s, name, pos, kw, line, node):
        r = self.str_method(st, s, name, pos, line, node)
        if r is not None:
            return r
        if name == 'split':
            if not pos and not kw:
                # whitespace split: opaque list of non-empty words
                r = fresh(TList(STR), 'words')
                st.assume(list_len(r) >= 0)
                st.assume((list_len(r) == 0) == (z3.Length(self.strip_like(st, s, None, True, True).e) == 0))
                return r
            if 'maxsplit' in kw and not pos:
                r = fresh(TList(STR), 'words')
                st.assume(z3.And(list_len(r) >= 0, list_len(r) <= kw['maxsplit'].e + 1))
                st.assume((list_len(r) == 0) == (z3.Length(self.strip_like(st, s, None, True, True).e) == 0))
                return r
            sep = pos[0]
            if len(pos) == 2:
                m = z3.simplify(pos[1].e)
                if z3.is_int_value(m) and m.as_long() == 1:
                    idx = z3.IndexOf(s.e, sep.e, 0)
                    has = z3.Contains(s.e, sep.e)
                    first = z3.If(has, z3.SubString(s.e, 0, idx), s.e)
                    second = z3.SubString(s.e, idx + z3.Length(sep.e), z3.Length(s.e))
                    arr = z3.Const(fresh_name('splarr'), z3.ArraySort(z3.IntSort(), z3.StringSort()))
                    arr = z3.Store(z3.Store(arr, 0, first), 1, second)
                    return mk_list(TList(STR), z3.If(has, 2, 1), arr)
            if len(pos) == 1:
                return self.split_value(st, s, sep)
        if name == 'join':
            lst = pos[0]
            if isinstance(lst.t, TList) and isinstance(lst.t.elem, TStr):
                return self.join_value(st, s, lst)
        if name == 'format':
            return self.format_value(st, s, pos, kw, node)
        if name == 'splitlines':
            if 'splitlines_keepends' in self.m.ufuncs and kw.get('keepends') is not None:
                r = self.call_ufunc('splitlines_keepends', [s])
                st.assume(list_len(r) >= 0)
                return r
            r = fresh(TList(STR), 'lines')
            st.assume(list_len(r) >= 0)
            return r
        raise OutOfSubset('str.%s' % name, node)

    def join_value(self, st, sep, lst):
        name = 'str_join'
        if name not in self.m.ufuncs:
            self.m.ufuncs[name] = ([STR, lst.t], STR)
        r = self.call_ufunc(name, [sep, lst])
        # facts: empty list -> ''; singleton -> the element; length lower bound
        st.assume(z3.Implies(list_len(lst) == 0, r.e == z3.StringVal('')))
        st.assume(z3.Implies(list_len(lst) == 1, r.e == z3.Select(list_arr(lst), 0)))
        st.assume(z3.Implies(list_len(lst) >= 1, z3.Length(r.e) >= z3.Length(z3.Select(list_arr(lst), 0))))
        return r

    def format_value(self, st, tmpl, pos, kw, node):
        t = z3.simplify(tmpl.e)
        tail = None
        if not z3.is_string_value(t):
            raw = tmpl.e
            if z3.is_app(raw) and raw.decl().kind() == z3.Z3_OP_SEQ_CONCAT and z3.is_string_value(z3.simplify(raw.arg(0))):
                t = raw
        if not z3.is_string_value(t) and z3.is_app(t) and t.decl().kind() == z3.Z3_OP_SEQ_CONCAT \
                and z3.is_string_value(z3.simplify(t.arg(0))):
            # literal ++ symbolic tail: format() copies the tail verbatim iff it holds no brace
            rest = [t.arg(i) for i in range(1, t.num_args())]
            tail = z3.Concat(*rest) if len(rest) > 1 else rest[0]
            self.prove(st, z3.Not(z3.Or(z3.Contains(tail, z3.StringVal('{')), z3.Contains(tail, z3.StringVal('}')))),
                       'noraise', node.lineno, 'format-template-tail-brace-free')
            t = z3.simplify(t.arg(0))
        if not z3.is_string_value(t):
            raise OutOfSubset('format on non-literal template: %s' % str(t)[:120], node)
        import string as _string
        text = z3_unescape(t.as_string())
        parts = []
        auto = 0
        for lit, field, spec, conv in _string.Formatter().parse(text):
            if lit:
                parts.append(z3.StringVal(lit))
            if field is None:
                continue
            if spec or conv:
                raise OutOfSubset('format spec', node)
            if field == '':
                v = pos[auto]
                auto += 1
            elif field.isdigit():
                v = pos[int(field)]
            else:
                v = kw[field]
            parts.append(self.to_str(st, v).e)
        if tail is not None:
            parts.append(tail)
        if not parts:
            return mk_str('')
        return mk_str(z3.Concat(*parts) if len(parts) > 1 else parts[0])

    def to_str(self, st, v):
        if isinstance(v.t, TOpt) and isinstance(v.t.elem, (TInt, TStr)):
            # formatting an Optional: only when it is known not to be None here (otherwise the text
            # would be 'None', which no contract in the subset talks about)
            self.prove(st, z3.Not(opt_is_none(v)), 'encoding', getattr(self, 'cur_line', 0), 'format-of-optional-is-some')
            v = opt_val(v)
        if isinstance(v.t, TStr):
            return v
        if isinstance(v.t, TInt):
            return mk_str(z3.If(v.e >= 0, z3.IntToStr(v.e),
                                z3.Concat(z3.StringVal('-'), z3.IntToStr(-v.e))))
        raise OutOfSubset('str() of %s' % v.t)

    def list_call(self, node, f, base, name, st):
        line = node.lineno
        for s1, a in self.ev_args(node, st):
            if isinstance(a, Exc):
                yield s1, a
                continue
            pos, kw = a
            n = list_len(base)
            arr = list_arr(base)
            i = z3.Int(fresh_name('li'))
            if name == 'append':
                x = self.coerce_elem(base, pos[0])
                base2 = base if base.t.elem == x.t else self.retag_empty(base, x.t)
                newl = mk_list(base2.t, n + 1, z3.Store(list_arr(base2), n, x.e))
                for s2 in self.assign(f.value, newl, s1, line):
                    yield s2, NONE_VAL
            elif name == 'pop':
                if pos:
                    raise OutOfSubset('pop(i)', node)
                self.prove(s1, n > 0, 'noraise', line, 'pop-empty')
                item = Val(base.t.elem, z3.Select(arr, n - 1))
                newl = mk_list(base.t, n - 1, arr)
                for s2 in self.assign(f.value, newl, s1, line):
                    yield s2, item
            elif name == 'extend':
                other = pos[0]
                newl = self.list_concat(base if not isinstance(base.t.elem, TNone) else self.retag_empty(base, other.t.elem), other, s1)
                for s2 in self.assign(f.value, newl, s1, line):
                    yield s2, NONE_VAL
            elif name == 'remove':
                x = self.coerce_elem(base, pos[0])
                k = z3.Int(fresh_name('rm'))
                j = z3.Int(fresh_name('rj'))
                present = z3.Exists([j], z3.And(0 <= j, j < n, z3.Select(arr, j) == x.e))
                self.prove(s1, present, 'noraise', line, 'remove-absent')
                s1.assume(z3.And(0 <= k, k < n, z3.Select(arr, k) == x.e,
                                 z3.ForAll([j], z3.Implies(z3.And(0 <= j, j < k), z3.Select(arr, j) != x.e))))
                s1.ghost['__last_remove_index__'] = mk_int(k)
                if self.concat_axioms:
                    newl = self.fresh_val(s1, base.t, 'rm')
                    s1.assume(list_len(newl) == n - 1)
                    s1.assume(z3.ForAll([i], z3.Implies(z3.And(0 <= i, i < k), z3.Select(list_arr(newl), i) == z3.Select(arr, i))))
                    j2 = z3.Int(fresh_name('rj2'))
                    s1.assume(z3.ForAll([j2], z3.Implies(z3.And(k <= j2, j2 < n - 1),
                                                        z3.Select(list_arr(newl), j2) == z3.Select(arr, j2 + 1))))
                else:
                    narr = z3.Lambda([i], z3.If(i < k, z3.Select(arr, i), z3.Select(arr, i + 1)))
                    newl = mk_list(base.t, n - 1, narr)
                for s2 in self.assign(f.value, newl, s1, line):
                    yield s2, NONE_VAL
            elif name == 'index':
                # xs.index(x[, start]): the first position >= start holding x; ValueError if there is none
                x = self.coerce_elem(base, pos[0])
                lo = self.clamp(n, pos[1], z3.IntVal(0)) if len(pos) > 1 else z3.IntVal(0)
                if len(pos) > 2:
                    raise OutOfSubset('list.index with stop', node)
                k = z3.Int(fresh_name('ix'))
                j = z3.Int(fresh_name('ij'))
                present = z3.Exists([j], z3.And(lo <= j, j < n, z3.Select(arr, j) == x.e))
                self.prove(s1, present, 'noraise', line, 'index-absent')
                s1.assume(z3.And(lo <= k, k < n, z3.Select(arr, k) == x.e,
                                 z3.ForAll([j], z3.Implies(z3.And(lo <= j, j < k), z3.Select(arr, j) != x.e))))
                yield s1, mk_int(k)
            elif name == 'insert':
                p = pos[0]
                x = self.coerce_elem(base, pos[1])
                pp = self.clamp(n, p, z3.IntVal(0))
                narr = z3.Lambda([i], z3.If(i < pp, z3.Select(arr, i),
                                            z3.If(i == pp, x.e, z3.Select(arr, i - 1))))
                newl = mk_list(base.t, n + 1, narr)
                for s2 in self.assign(f.value, newl, s1, line):
                    yield s2, NONE_VAL
            else:
                raise OutOfSubset('list.%s' % name, node)

    def coerce_elem(self, lst, x):
        if isinstance(lst.t.elem, TNone) or getattr(lst, 'py', None) == 'emptylit':
            return x
        return self.coerce(x, lst.t.elem)

    def retag_empty(self, lst, elem_t):
        t = TList(elem_t)
        arr = z3.Const(fresh_name('emptyarr'), z3.ArraySort(z3.IntSort(), sort_of(elem_t)))
        return mk_list(t, z3.IntVal(0), arr)

    # ------------------------------------------------------------------ builtins ----------
    def ev_builtin(self, name, node, st):
        line = node.lineno
        if name == 'next':
            for s1, a in self.ev_args(node, st):
                if isinstance(a, Exc):
                    yield s1, a
                    continue
                it = a[0][0]
                if isinstance(it.t, TList) and len(a[0]) == 2:
                    # next(xs, default) on the list view of a generator that has not been advanced:
                    # its first item, or the default when it yields nothing
                    first = Val(it.t.elem, z3.Select(list_arr(it), 0))
                    x, d = self.unify(first, a[0][1])
                    yield s1, Val(x.t, z3.If(list_len(it) > 0, x.e, d.e))
                    continue
                if isinstance(it.t, TRef) and self.method_key(it.t.cls, '__next__'):
                    c = self.m.contracts[self.method_key(it.t.cls, '__next__')]
                    yield from self.call_contract(s1, c, [it], {}, node)
                else:
                    raise OutOfSubset('next() on %s' % it.t, node)
            return
        if name == 'map' and len(node.args) == 2 and isinstance(node.args[0], ast.Lambda) \
                and len(node.args[0].args.args) == 1 and not node.keywords:
            # map(lambda x: e, xs) consumed as a sequence == [e for x in xs]
            lam = node.args[0]
            comp = ast.ListComp(elt=lam.body, generators=[ast.comprehension(
                target=ast.Name(id=lam.args.args[0].arg, ctx=ast.Store()), iter=node.args[1], ifs=[], is_async=0)])
            ast.copy_location(comp, node)
            ast.fix_missing_locations(comp)
            yield from self.ev(comp, st)
            return
        if name in ('any', 'all') and len(node.args) == 1 and isinstance(node.args[0], (ast.GeneratorExp, ast.ListComp)):
            yield from self.ev_anyall(name, node.args[0], node, st)
            return
        if name == 'hasattr':
            for s1, v in self.ev(node.args[0], st):
                if isinstance(v, Exc):
                    yield s1, v
                    continue
                attr = node.args[1].value
                if isinstance(v.t, TRef):
                    owner = self.field_owner(v.t.cls, attr)
                    if owner is not None and (owner, attr) in self.m.optional_fields:
                        yield s1, self.read_field(s1, v, '__has_' + attr)
                        continue
                    if owner is not None or self.method_key(v.t.cls, attr):
                        yield s1, mk_bool(True)
                        continue
                    fn = 'hasattr_' + attr
                    if fn not in self.m.ufuncs:
                        self.m.ufuncs[fn] = ([INT], BOOL)
                    yield s1, mk_bool(self.ufunc(fn)(v.e))
                    continue
                raise OutOfSubset('hasattr on %s' % v.t, node)
            return
        if name == 'isinstance':
            for s1, v in self.ev(node.args[0], st):
                yield s1, (v if isinstance(v, Exc) else self.isinstance_(s1, v, node.args[1], node))
            return
        if name == 'super':
            if node.args:
                raise OutOfSubset('super(args)', node)
            yield st, mk_obj('super', (self.cur_class, st.env.get('self') or st.env.get('cls')))
            return
        for s1, a in self.ev_args(node, st):
            if isinstance(a, Exc):
                yield s1, a
                continue
            pos, kw = a
            if name == 'len':
                v = pos[0]
                if isinstance(v.t, TOpt):
                    self.prove(s1, z3.Not(opt_is_none(v)), 'noraise', line, 'len-None')
                    v = opt_val(v)
                if isinstance(v.t, TRef) and v.t.cls in self.m.listlike:
                    v = self.read_field(s1, v, self.m.listlike[v.t.cls])
                yield s1, self.length(v)
            elif name in ('min', 'max') and len(pos) == 2:
                x, y = pos
                yield s1, mk_int(z3.If((x.e <= y.e) if name == 'min' else (x.e >= y.e), x.e, y.e))
            elif name == 'int':
                v = pos[0]
                if isinstance(v.t, TStr):
                    ok = self.call_ufunc_auto('str_isasciidigits', [v], BOOL)
                    self.prove(s1, ok.e, 'noraise', line, 'int-of-nondigits')
                    yield s1, mk_int(z3.StrToInt(v.e))
                else:
                    yield s1, self.coerce(v, INT)
            elif name == 'ord':
                yield s1, mk_int(z3.StrToCode(pos[0].e))
            elif name == 'set':
                if not isinstance(pos[0].t, TStr):
                    raise OutOfSubset('set() of %s' % pos[0].t, node)
                yield s1, mk_obj('symset', pos[0])     # the set of characters of a string (kept symbolic)
            elif name == 'list':
                yield s1, pos[0]
            elif name == 'bool':
                yield s1, mk_bool(self.truthy(pos[0]))
            elif name == 'sorted':
                yield from self.ev_sorted(s1, pos[0], node)
            elif name == 'getattr' and len(pos) == 3:
                # getattr(obj, 'attr', default) on an optional (hasattr-tested) field of a model class
                an = node.args[1]
                v = pos[0]
                if not (isinstance(an, ast.Constant) and isinstance(an.value, str) and isinstance(v.t, TRef)):
                    raise OutOfSubset('getattr', node)
                owner = self.field_owner(v.t.cls, an.value)
                if owner is None:
                    raise OutOfSubset('getattr of an undeclared field %s' % an.value, node)
                fv = self.read_field(s1, v, an.value)
                if (owner, an.value) in self.m.optional_fields:
                    has = self.read_field(s1, v, '__has_' + an.value)
                    a, b = self.unify(fv, pos[2])
                    yield s1, Val(a.t, z3.If(has.e, a.e, b.e))
                else:
                    yield s1, fv
            else:
                raise OutOfSubset('builtin %s' % name, node)

    def ev_sorted(self, st, lst, node):
        key = None
        if isinstance(lst.t, TList) and isinstance(lst.t.elem, TRef):
            key = 'builtin:sorted#' + lst.t.elem.cls
        if key is None or key not in self.m.contracts:
            raise OutOfSubset('sorted() without a contract for this element type', node)
        yield from self.call_contract(st, self.m.contracts[key], [lst], {}, node)

    def ev_anyall(self, name, gen, node, st):
        """any/all over a generator.  The element expression is evaluated once at a symbolic
        element (its effects, if contracted calls, are applied through their `stable` clauses);
        the result is exact when the element expression is pure:
        any == exists i. elt(xs[i]) ."""
        line = node.lineno
        if len(gen.generators) != 1 or gen.generators[0].ifs or not isinstance(gen.generators[0].target, ast.Name):
            raise OutOfSubset('any/all generator form', node)
        g = gen.generators[0]
        for s1, src in self.ev(g.iter, st):
            if isinstance(src, Exc):
                yield s1, src
                continue
            if isinstance(src.t, TOpt):
                self.prove(s1, z3.Not(opt_is_none(src)), 'noraise', line, 'None-iteration')
                src = opt_val(src)
            if isinstance(src.t, TStr):
                n = z3.Length(src.e)
                item = lambda i: mk_str(z3.SubString(src.e, i, 1))
            elif isinstance(src.t, TList):
                n = list_len(src)
                item = lambda i: Val(src.t.elem, z3.Select(list_arr(src), i))
            else:
                raise OutOfSubset('any/all over %s' % src.t, node)
            i = z3.Int(fresh_name('any'))
            probe = s1.fork()
            probe.assume(z3.And(0 <= i, i < n))
            probe.env[g.target.id] = item(i)
            pure_results = []
            impure = False
            self.in_anyall = getattr(self, 'in_anyall', 0) + 1
            self.probe_calls = []
            try:
                for s2, v in self.ev(gen.elt, probe):
                    if isinstance(v, Exc):
                        # element may raise: propagate on a path of its own
                        yield s2, v
                        impure = True
                        continue
                    pure_results.append((s2, v))
            finally:
                self.in_anyall -= 1
            effectful = any(s2.heap != s1.heap or
                            any(s2.glob.get(k) is not s1.glob.get(k) for k in s2.glob if k in s1.glob)
                            for s2, _ in pure_results)
            if not effectful and len(pure_results) == 1 and len(pure_results[0][0].pc) == len(s1.pc) + 1:
                body = self.truthy(pure_results[0][1])
                if name == 'any':
                    r = z3.Exists([i], z3.And(0 <= i, i < n, body))
                else:
                    r = z3.ForAll([i], z3.Implies(z3.And(0 <= i, i < n), body))
                yield s1, mk_bool(r)
                continue
            if effectful and not all(getattr(pc_, 'repeatable', False) for pc_ in self.probe_calls):
                raise OutOfSubset('any/all over an effectful call whose contract is not repeatable', node)
            # effectful or multi-path element: opaque boolean; effects = the element's effects
            # applied zero or more times.  We continue from each resulting state of one symbolic
            # application (whose contracts' `stable` clauses describe any number of applications)
            # and also from the unchanged state (zero applications).
            r0 = fresh(BOOL, name)
            z = s1.fork()
            z.assume(n == 0)
            z.assume(r0.e == z3.BoolVal(name == 'all'))
            if solve.feasible(z.pc):
                yield z, r0
            for s2, v in pure_results:
                s2.env.pop(g.target.id, None)
                if g.target.id in s1.env:
                    s2.env[g.target.id] = s1.env[g.target.id]
                s2.ghost['__anyall_multi__'] = True
                yield s2, fresh(BOOL, name)

    # ------------------------------------------------------------------ contracts at calls -
    def bind_args(self, c, pos, kw, node, st=None):
        vals = {}
        params = c.params
        if len(pos) > len(params):
            raise OutOfSubset('too many arguments for %s' % c.key, node)
        for (pn, pt, *rest), a in zip(params, pos):
            vals[pn] = a
        for k, v in kw.items():
            if k not in [p[0] for p in params]:
                raise OutOfSubset('unknown keyword %s for %s' % (k, c.key), node)
            vals[k] = v
        for (pn, pt, *rest) in params:
            if pn not in vals:
                if not rest:
                    raise OutOfSubset('missing argument %s for %s' % (pn, c.key), node)
                vals[pn] = rest[0]
        out = {}
        for (pn, pt, *rest) in params:
            v = vals[pn]
            if isinstance(pt, TObj) or pt is None:
                out[pn] = v
                continue
            if isinstance(v.t, TOpt) and not isinstance(pt, TOpt) and st is not None:
                self.prove(st, z3.Not(opt_is_none(v)), 'noraise', getattr(node, 'lineno', 0),
                           'None-argument:%s.%s' % (c.key.split(':')[1], pn))
                v = opt_val(v)
            elif isinstance(v.t, TNone) and not isinstance(pt, (TOpt, TNone)) and st is not None:
                self.prove(st, z3.BoolVal(False), 'noraise', getattr(node, 'lineno', 0),
                           'None-argument:%s.%s' % (c.key.split(':')[1], pn))
                raise OutOfSubset('None passed for %s' % pn, node)
            out[pn] = self.coerce(v, pt)
        return out

    def call_contract(self, st, c, pos, kw, node, catch=()):
        line = getattr(node, 'lineno', 0)
        if c.inline:
            yield from self.inline_call(st, c, pos, kw, node)
            return
        if len(pos) > len(c.params) or any(k not in [p[0] for p in c.params] for k in kw):
            # the call passes arguments the contract does not know (the signature was extended): the contract
            # says nothing about such a call, so the working tree's body is executed in place instead
            stale = self.stale_contract_inline(c)
            if stale is not None:
                yield from self.inline_call(st, stale, pos, kw, node)
                return
        args = self.bind_args(c, pos, kw, node, st)
        cname = c.key.split(':')[1]
        if getattr(self, 'in_anyall', 0):
            self.probe_calls.append(c)
        top = self.m.contracts.get(self.cur_fn_stack[0]) if self.cur_fn_stack else None
        if top is not None and c.key in top.call_asserts and len(self.cur_fn_stack) == 1:
            held = []
            for j, e in enumerate(top.call_asserts[c.key]):
                e, props = clause(e)
                self.clause_props = props
                scope = {'arg_' + k: v for k, v in args.items()}
                self.prove(st, self.spec(e, st, scope, self.fn_old), 'call-assert', line, '%s.%d' % (cname, j), text=e,
                           stable_name='%s:call-assert:%s.%d' % (self.cur_fn_stack[0].split(':')[1], cname, j), defer=held)
                self.clause_props = None
            for g in held:
                st.assume(g)
            self.call_assert_hits = getattr(self, 'call_assert_hits', set()) | {c.key}
        # 1. precondition
        held = []
        for j, r in enumerate(c.requires):
            r, rprops = clause(r)
            g = self.spec(r, st, args, st)
            if getattr(self.m.contracts[self.cur_fn_stack[0]], 'assume_callee_pre', False):
                held.append(g)      # this view leaves callee preconditions to the main view
            else:
                # a tagged precondition is a property-level clause of the CALLER's obligation
                self.clause_props = (sorted(set(rprops) | set(self.m.contracts[self.cur_fn_stack[0]].prop))
                                     if rprops else None)
                self.prove(st, g, 'pre', line, '%s.%d' % (cname, j), text=r, defer=held)
                self.clause_props = None
        for g in held:
            st.assume(g)
        # a pure contract whose only postcondition defines the result as a term: use the term
        if c.pure and not c.raises and not c.may_raise and not c.modifies and len(c.ensures) == 1 \
                and isinstance(c.ensures[0], str) and c.ensures[0].startswith('result == '):
            try:
                val = self.spec_val(c.ensures[0][len('result == '):], st, args, st)
                if not isinstance(c.returns, TNone) and c.returns is not None:
                    val = self.coerce(val if not isinstance(val.t, TBool) or isinstance(c.returns, TBool) else val, c.returns) \
                        if val.t != c.returns else val
                yield st, val
                return
            except OutOfSubset:
                pass
        old = st.fork()
        # 2. exceptional edges
        normal_guard = []
        for exc, cond in c.raises.items():
            cz = self.spec(cond, old, args, old) if cond is not None else None
            s_exc = st.fork()
            if cz is not None:
                s_exc.assume(cz)
                normal_guard.append(z3.Not(cz))
            if solve.feasible(s_exc.pc):
                self.apply_exc_post(s_exc, c, args, old)
                yield from self.exceptional(s_exc, Exc(exc, line, cname), catch)
        # exceptions a function lets through (allow_exc) can reach its callers as well
        for exc in list(c.may_raise) + [e for e in c.allow_exc if e not in c.may_raise]:
            s_exc = st.fork()
            self.havoc_modifies(s_exc, c, args, node)
            self.apply_exc_post(s_exc, c, args, old)
            yield from self.exceptional(s_exc, Exc(exc, line, cname), catch)
        for g in normal_guard:
            st.assume(g)
        if not solve.feasible(st.pc):
            return
        # 3. havoc + postcondition
        rebinds = self.havoc_modifies(st, c, args, node)
        res = self.fresh_val(st, c.returns, 'r_' + cname.replace('.', '_')) if not isinstance(c.returns, TNone) else NONE_VAL
        # a returned reference denotes an existing object (allocated before or by the callee)
        if isinstance(c.returns, TRef):
            st.assume(z3.And(res.e >= 0, res.e < st.alloc))
        elif isinstance(c.returns, TOpt) and isinstance(c.returns.elem, TRef):
            rv = opt_val(res)
            st.assume(z3.Or(opt_is_none(res), z3.And(rv.e >= 0, rv.e < st.alloc)))
        extra = dict(args)
        extra['result'] = res
        for pn, nv in rebinds.items():
            extra['new_' + pn] = nv
        for j, e in enumerate(c.ensures):
            if '%s:post:%d' % (c.key.split(':')[1], j) in self.m.unassumed:
                continue    # recorded as refuted on the callee (known finding): callers must not rely on it
            if c.ghost_init and self.mentions_ghost(clause(e)[0], c):
                continue    # a clause over the callee's ghost state says nothing a caller can use
            st.assume(self.spec(clause(e)[0], st, extra, old))
        # write back rebinding of list parameters
        states = [st]
        for pn, nv in rebinds.items():
            target = self.arg_node(c, pn, node)
            if target is None:
                continue
            states = [s2 for s in states for s2 in self.assign(target, nv, s, line)]
        for s in states:
            yield s, res

    def mentions_ghost(self, text, c):
        try:
            names = {n.id for n in ast.walk(ast.parse(text, mode='eval')) if isinstance(n, ast.Name)}
        except SyntaxError:
            return False
        return bool(names & set(c.ghost_init))

    def arg_node(self, c, pn, node):
        if not isinstance(node, ast.Call):
            return None
        names = [p[0] for p in c.params]
        offset = 0
        # receiver / cls occupy the first parameter for bound calls
        if isinstance(node.func, ast.Attribute) and names and names[0] in ('self', 'cls'):
            offset = 1
        idx = names.index(pn) - offset
        if idx == -1:
            return node.func.value
        if 0 <= idx < len(node.args):
            return node.args[idx]
        for k in node.keywords:
            if k.arg == pn:
                return k.value
        return None

    def exceptional(self, st, exc, catch):
        if exc.name in catch:
            yield st, exc
            return
        yield st, exc

    def apply_exc_post(self, st, c, args, old):
        for j, e in enumerate(c.ensures_exc):
            if '%s:post-exc:%d' % (c.key.split(':')[1], j) in self.m.unassumed:
                continue
            st.assume(self.spec(clause(e)[0], st, args, old))

    def havoc_modifies(self, st, c, args, node):
        rebinds = {}
        bump = False
        if c.options.get('restores'):
            # net effect nil: the callee is PROVED (on its own body) to leave every location of its
            # modifies list with the value it had on entry and it cannot raise, so a caller sees no
            # change at all (used for balanced push/pop on context stacks)
            return rebinds
        for mfy in c.modifies:
            if mfy.startswith('G:'):
                key = mfy[2:]
                self.check_callee_global(st, key)
                st.glob[key] = self.fresh_val(st, self.m.globals[key], 'G_' + key.replace('.', '_'))
            elif mfy.startswith('F:'):
                cls, f = mfy[2:].split('.')
                k, arr, t = self.heap_arr(st, cls, f)
                self.check_callee_field(st, k, None)
                st.heap[k] = z3.Const(fresh_name('H_%s_%s' % k), arr.sort())
            elif mfy.startswith('N:'):
                # the callee writes this field only on objects it allocates itself
                cls, f = mfy[2:].split('.')
                k, arr, t = self.heap_arr(st, cls, f)
                fr = z3.Const(fresh_name('H_%s_%s' % k), arr.sort())
                r = z3.Int(fresh_name('r'))
                st.heap[k] = z3.Lambda([r], z3.If(r < st.alloc, z3.Select(arr, r), z3.Select(fr, r)))
                bump = True
            elif mfy.startswith('P:'):
                pn = mfy[2:]
                rebinds[pn] = self.fresh_val(st, args[pn].t, pn)
            else:
                p, f = mfy.split('.')
                ref = args[p]
                if isinstance(ref.t, TOpt):
                    ref = opt_val(ref)
                k, arr, t = self.heap_arr(st, ref.t.cls, f)
                self.check_callee_field(st, k, ref)
                st.heap[k] = z3.Store(arr, ref.e, fresh(t, f).e)
        if bump:
            na = z3.Int(fresh_name('alloc'))
            st.assume(na >= st.alloc)
            st.ghost['__alloc_before_call__'] = st.alloc
            st.alloc = na
        return rebinds

    def check_callee_global(self, st, key):
        if not self.cur_fn_stack:
            return
        c = self.m.contracts[self.cur_fn_stack[0]]
        if key not in self.contract_globals(c):
            self.prove(st, z3.BoolVal(False), 'frame', self.cur_line, 'callee-modifies-global:' + key)

    def check_callee_field(self, st, k, ref):
        if not self.cur_fn_stack:
            return
        owner, field = k
        if ref is None:
            c = self.m.contracts[self.cur_fn_stack[0]]
            if (owner, field) not in self.contract_fields(c):
                self.prove(st, z3.BoolVal(False), 'frame', self.cur_line, 'callee-modifies:%s.%s' % k)
            elif not any(m == 'F:%s.%s' % (owner, field) or
                         (m.startswith('F:') and self.field_owner(*m[2:].split('.')) == owner and m.endswith('.' + field))
                         for m in c.modifies):
                self.prove(st, z3.BoolVal(False), 'frame', self.cur_line, 'callee-modifies-all:%s.%s' % k)
        else:
            self.check_field_write_allowed(st, Val(TRef(owner), ref.e), field, self.cur_line)

    # ------------------------------------------------------------------ inlining ----------
    def inline_call(self, st, c, pos, kw, node):
        if self.inline_depth > 6:
            raise OutOfSubset('inline depth', node)
        fdef, seg = self.find_def(c.key)
        self.fn_hashes[c.key] = hashlib.sha256(seg.encode()).hexdigest()
        args = self.bind_args(c, pos, kw, node, st)
        saved_env = st.env
        st.env = dict(args)
        self.index_loops(c.key, fdef)
        saved = (self.cur_module, self.cur_class, self.local_types)
        self.cur_module = c.key.split(':')[0]
        qual = c.key.split(':')[1].split('.')
        self.cur_class = qual[0] if len(qual) > 1 else None
        self.local_types = c.body_types
        self.cur_fn_stack.append(c.key)
        self.inline_depth += 1
        saved_mut = getattr(self, 'mutated_globals', frozenset())
        self.mutated_globals = mutated_global_names(fdef)
        try:
            results = list(self.exec_block(fdef.body, st))
        finally:
            self.inline_depth -= 1
            self.cur_fn_stack.pop()
            self.mutated_globals = saved_mut
            self.cur_module, self.cur_class, self.local_types = saved
        for s1, out in results:
            if s1.dead:
                continue
            inner_env = s1.env
            s1.env = dict(saved_env)
            if out.kind == 'raise':
                yield s1, out.value
            elif out.kind == 'return':
                yield s1, out.value
            elif out.kind == 'normal':
                yield s1, NONE_VAL
            else:
                raise OutOfSubset('break/continue escaped function', node)

    # ------------------------------------------------------------------ with ----------------
    def find_class_method(self, pycls, name):
        """(module, class, FunctionDef, source segment) of the method `name` of `pycls` (or of the nearest
        base class that defines it) as the working tree has it - contract or not."""
        c = pycls
        while c is not None:
            for module in sorted(self.m.namespaces):
                try:
                    src, tree = self.module_ast(module)
                except (OSError, KeyError, SyntaxError):
                    continue
                for n in tree.body:
                    if isinstance(n, ast.ClassDef) and n.name == c:
                        for f in n.body:
                            if isinstance(f, ast.FunctionDef) and f.name == name:
                                return module, c, f, ast.get_source_segment(src, f)
            c = self.m.subclass_of.get(c)
        return None

    def auto_inline_contract(self, pycls, name, node):
        """A method of the working tree that has no contract (a helper split off by a refactoring, say) is
        executed in place: its body is part of the caller's proof, exactly as written. Plain functions only
        (no generator, no decorator other than classmethod / staticmethod, constant defaults); the synthetic
        contract lives for this proof only and is reported in the evidence as inlined."""
        found = self.find_class_method(pycls, name)
        if found is None:
            return None
        module, owner, fdef, seg = found
        key = '%s:%s.%s' % (module, owner, fdef.name)
        if key in self.m.contracts:
            # defined on a base class under another receiver type: use that contract
            return key
        key = self.synth_inline_contract(key, fdef)
        if key is not None:
            self.m.methods[(owner, fdef.name)] = key
        return key

    def stale_contract_inline(self, c):
        if c.trusted or '#' in c.key or ':' not in c.key or c.key.startswith(('re:', 'protocol:')):
            return None
        ikey = c.key + '#inlined'
        if ikey in self.m.contracts:
            return self.m.contracts[ikey]
        try:
            fdef, _seg = self.find_def(c.key)
        except KeyError:
            return None
        if self.synth_inline_contract(ikey, fdef) is None:
            return None
        return self.m.contracts[ikey]

    def synth_inline_contract(self, key, fdef):
        decos = [d.id if isinstance(d, ast.Name) else getattr(d, 'attr', None) for d in fdef.decorator_list]
        if any(d not in ('classmethod', 'staticmethod') for d in decos):
            return None
        if any(isinstance(x, (ast.Yield, ast.YieldFrom, ast.Await)) for x in ast.walk(fdef)):
            return None
        a = fdef.args
        if a.vararg or a.kwarg or a.kwonlyargs or a.posonlyargs:
            return None
        params = []
        defaults = [None] * (len(a.args) - len(a.defaults)) + list(a.defaults)
        for arg, d in zip(a.args, defaults):
            if d is None:
                params.append((arg.arg, None))
            elif isinstance(d, ast.Constant) and d.value is None:
                params.append((arg.arg, None, NONE_VAL))
            elif isinstance(d, ast.Constant) and isinstance(d.value, bool):
                params.append((arg.arg, None, mk_bool(d.value)))
            elif isinstance(d, ast.Constant) and isinstance(d.value, int):
                params.append((arg.arg, None, mk_int(d.value)))
            elif isinstance(d, ast.Constant) and isinstance(d.value, str):
                params.append((arg.arg, None, mk_str(d.value)))
            else:
                return None
        c = Contract(key, params, returns=None, inline=True,
                     note='no contract: body executed in place at each call (auto-inlined)')
        c.is_static = 'staticmethod' in decos
        c.is_classmethod = 'classmethod' in decos
        c.auto_inlined = True
        self.m.contracts[key] = c
        self.auto_inlined = getattr(self, 'auto_inlined', set()) | {key}
        return key

    def lookup_name(self, st, name, node=None):
        v = super().lookup_name(st, name, node)
        if v is not None or name in st.env or not self.cur_module:
            return v
        # a module-level function of the working tree that has no contract: executed in place
        key = self.auto_inline_module_function(self.cur_module, name)
        return mk_obj('func', key) if key is not None else None

    def auto_inline_module_function(self, module, name):
        try:
            _src, tree = self.module_ast(module)
        except (OSError, KeyError, SyntaxError):
            return None
        for n in tree.body:
            if isinstance(n, ast.FunctionDef) and n.name == name:
                key = '%s:%s' % (module, name)
                if key not in self.m.contracts and self.synth_inline_contract(key, n) is None:
                    return None
                return key
        return None

    def exec_with(self, node, st):
        """`with C.m(args):` where `m` is a generator function of the working tree decorated with
        @contextmanager, of the shape  pre; yield; post   or   pre; try: yield finally: fin; post.
        The statement is executed as contextlib does it: `pre` runs, then the block; a block that ends
        without an exception (falls through, returns, breaks, continues) resumes the generator, which runs
        `fin` and `post`; an exception of the block is thrown at the `yield`, so only `fin` runs and the
        exception propagates. The generator's statements run in its own scope (parameters bound), its
        writes are checked against the frame of the function under proof."""
        if len(node.items) != 1 or node.items[0].optional_vars is not None:
            raise OutOfSubset('with statement with several items or a target', node)
        ce = node.items[0].context_expr
        if not (isinstance(ce, ast.Call) and isinstance(ce.func, (ast.Attribute, ast.Name)) and not ce.keywords):
            raise OutOfSubset('with statement on something other than a function or method call', node)
        if isinstance(ce.func, ast.Name):
            # a module-level generator function of the module under proof
            if ce.func.id in st.env:
                raise OutOfSubset('with statement on a local callable', node)
            receivers = [(st, None)]
        else:
            receivers = self.ev(ce.func.value, st)
        for s0, base in receivers:
            if isinstance(base, Exc):
                yield s0, self.raise_out(base)
                continue
            if base is None:
                fdef = None
                try:
                    src, tree = self.module_ast(self.cur_module)
                except (OSError, KeyError, SyntaxError):
                    tree = None
                for n in (tree.body if tree is not None else []):
                    if isinstance(n, ast.FunctionDef) and n.name == ce.func.id:
                        fdef = n
                        seg = ast.get_source_segment(src, n)
                if fdef is None:
                    raise OutOfSubset('context manager %s not found in the module' % ce.func.id, node)
                module, owner = self.cur_module, None
                key = '%s:%s' % (module, fdef.name)
            else:
                if not (isinstance(base.t, TObj) and base.t.kind == 'class'):
                    raise OutOfSubset('with statement on a method of a non-class receiver', node)
                found = self.find_class_method(base.py, ce.func.attr)
                if found is None:
                    raise OutOfSubset('context manager %s.%s not found in the working tree' % (base.py, ce.func.attr), node)
                module, owner, fdef, seg = found
                key = '%s:%s.%s' % (module, owner, fdef.name)
            decos = [d.id if isinstance(d, ast.Name) else getattr(d, 'attr', None) for d in fdef.decorator_list]
            if 'contextmanager' not in decos:
                raise OutOfSubset('with statement on a class-based context manager', node)
            self.fn_hashes[key] = hashlib.sha256(seg.encode()).hexdigest()
            body = list(fdef.body)
            if body and isinstance(body[0], ast.Expr) and isinstance(body[0].value, ast.Constant) \
                    and isinstance(body[0].value.value, str):
                body = body[1:]

            def is_yield(n):
                return isinstance(n, ast.Expr) and isinstance(n.value, ast.Yield) and n.value.value is None
            k = None
            fin = []
            for i, n in enumerate(body):
                if is_yield(n):
                    k = i
                    break
                if isinstance(n, ast.Try) and len(n.body) == 1 and is_yield(n.body[0]) and not n.handlers and not n.orelse:
                    k = i
                    fin = list(n.finalbody)
                    break
            if k is None or any(isinstance(x, (ast.Yield, ast.YieldFrom)) for n in body[:k] + fin + body[k + 1:]
                                for x in ast.walk(n)):
                raise OutOfSubset('context manager generator of an unsupported shape', node)
            pre, post = body[:k], body[k + 1:]
            names = [a.arg for a in fdef.args.args]
            for s1, a in self.ev_args(ce, s0):
                if isinstance(a, Exc):
                    yield s1, self.raise_out(a)
                    continue
                pos = list(a[0])
                if base is None:
                    pass
                elif 'classmethod' in decos:
                    pos = [base] + pos
                elif 'staticmethod' not in decos:
                    raise OutOfSubset('context manager that is an instance method called on the class', node)
                if len(pos) != len(names) or fdef.args.vararg or fdef.args.kwarg or fdef.args.kwonlyargs:
                    raise OutOfSubset('context manager arity', node)
                genv = dict(zip(names, pos))

                def in_gen(stmts, state, env, _module=module, _owner=owner, _key=key, _fdef=fdef):
                    """Runs statements of the generator in its scope; yields (state, outcome, generator env)."""
                    caller_env = state.env
                    state.env = dict(env)
                    saved = (self.cur_module, self.cur_class, self.local_types)
                    self.cur_module, self.cur_class, self.local_types = _module, _owner, {}
                    self.cur_fn_stack.append(_key)
                    self.inline_depth += 1
                    saved_mut = getattr(self, 'mutated_globals', frozenset())
                    self.mutated_globals = mutated_global_names(_fdef)
                    try:
                        results = list(self.exec_block(stmts, state))
                    finally:
                        self.inline_depth -= 1
                        self.cur_fn_stack.pop()
                        self.mutated_globals = saved_mut
                        self.cur_module, self.cur_class, self.local_types = saved
                    for s2, out in results:
                        if s2.dead:
                            continue
                        e2 = s2.env
                        s2.env = dict(caller_env)
                        yield s2, out, e2

                if self.inline_depth > 6:
                    raise OutOfSubset('inline depth', node)
                for s2, out, genv2 in in_gen(pre, s1, genv):
                    if out.kind == 'raise':
                        yield s2, out
                        continue
                    if out.kind != 'normal':
                        raise OutOfSubset('context manager generator that ends before its yield', node)
                    for s3, bout in self.exec_block(node.body, s2):
                        if s3.dead:
                            continue
                        # __exit__: an exception of the block is re-raised at the yield (only a `finally` there
                        # runs); any other way out resumes the generator after it
                        rest = fin if bout.kind == 'raise' else fin + post
                        for s4, gout, _e in in_gen(rest, s3, genv2):
                            if gout.kind == 'raise':
                                yield s4, gout
                            elif gout.kind in ('normal', 'return'):
                                yield s4, bout
                            else:
                                raise OutOfSubset('break/continue escaped a context manager generator', node)

    def inline_local(self, st, fdef, pos, kw, node):
        """Call of a function defined inside the function under proof: its body is executed in
        place with the caller's variables visible (closure), parameters bound positionally."""
        if kw or fdef.args.vararg or fdef.args.kwarg or fdef.args.defaults:
            raise OutOfSubset('local function call with keywords/defaults', node)
        names = [a.arg for a in fdef.args.args]
        if len(names) != len(pos):
            raise OutOfSubset('local function arity', node)
        if self.inline_depth > 6:
            raise OutOfSubset('inline depth', node)
        saved_env = st.env
        st.env = dict(saved_env)
        for n, v in zip(names, pos):
            st.env[n] = v
        self.inline_depth += 1
        self.cur_fn_stack.append(self.cur_fn_stack[-1])
        try:
            results = list(self.exec_block(fdef.body, st))
        finally:
            self.cur_fn_stack.pop()
            self.inline_depth -= 1
        for s1, out in results:
            if s1.dead:
                continue
            s1.env = dict(saved_env)
            if out.kind == 'raise':
                yield s1, out.value
            elif out.kind == 'return':
                yield s1, out.value
            elif out.kind == 'normal':
                yield s1, NONE_VAL
            else:
                raise OutOfSubset('break/continue escaped local function', node)

    def construct(self, st, clsname, pos, kw, node):
        key = self.class_method_key(clsname, '__init__')
        if key is None:
            raise OutOfSubset('no constructor contract for %s' % clsname, node)
        c = self.m.contracts[key]
        mcls = c.params[0][1].cls
        ref = Val(TRef(mcls), st.alloc)
        st.alloc = st.alloc + 1
        for (owner, f) in self.m.optional_fields:
            if self.is_sub(mcls, owner):
                super().write_field(st, ref, '__has_' + f, mk_bool(False))
        for s1, r in self.call_contract(st, c, [ref] + pos, kw, node):
            if isinstance(r, Exc):
                yield s1, r
            else:
                yield s1, ref

    # ------------------------------------------------------------------ function driver ---
    def index_loops(self, key, fdef):
        if key in self.loop_index:
            return
        idx = {}
        n = 0
        for nd in ast.walk(fdef):
            pass
        # ordinal = order of appearance in source (pre-order)
        def visit(node):
            nonlocal n
            for child in ast.iter_child_nodes(node):
                if isinstance(child, (ast.While, ast.For)):
                    idx[id(child)] = n
                    n += 1
                if isinstance(child, (ast.FunctionDef, ast.Lambda)) and child is not fdef:
                    continue
                visit(child)
        visit(fdef)
        self.loop_index[key] = idx

    def verify(self, key):
        """Verify the body of function `key` against its contract; returns list of ObResult."""
        c = self.m.contracts[key]
        self.results = []
        self.ob_seq = {}
        self.paths = 0
        self.cur_fn = key
        self.cur_contract = c
        t0 = time.time()
        try:
            fdef, seg = self.find_def(key)
        except KeyError as e:
            self.results.append(ObResult(key.split(':')[1] + ':resolve', 'resolve', key, 0, 'undecided',
                                         'none', 0, 'contract key not found: %s' % e, prop=c.prop))
            return self.results
        self.fn_hashes[key] = hashlib.sha256(seg.encode()).hexdigest()
        try:
            self._verify(key, c, fdef)
        except OutOfSubset as e:
            self.results.append(ObResult(key.split(':')[1] + ':out-of-subset', 'subset', key, e.line,
                                         'undecided', 'none', 0, 'out-of-subset:%s' % e, prop=c.prop))
        except z3.Z3Exception as e:
            self.results.append(ObResult(key.split(':')[1] + ':encoding-error', 'subset', key, 0,
                                         'undecided', 'none', 0, 'z3 error: %s' % e, prop=c.prop))
        return self.results

    def initial_state(self, c):
        st = State()
        st.alloc = z3.Int(fresh_name('alloc0'))
        st.assume(st.alloc >= 0)
        # every heap field array and global exists from the start, so that old() and the
        # current state share them until written
        for cls, fields in self.m.classes.items():
            for f, ft in fields.items():
                if not isinstance(ft, TObj):
                    self.heap_arr(st, cls, f)
        for g in self.m.globals:
            self.read_global(st, g)
        for (pn, pt, *rest) in c.params:
            if isinstance(pt, TObj):
                st.env[pn] = Val(pt, None, getattr(pt, 'py', None))
                continue
            v = self.fresh_val(st, pt, pn)
            st.env[pn] = v
            if isinstance(pt, TRef):
                st.assume(z3.And(v.e >= 0, v.e < st.alloc))
        return st

    def _verify(self, key, c, fdef):
        self.index_loops(key, fdef)
        self.cur_module = key.split(':')[0]
        qual = key.split('#')[0].split(':')[1].split('.')
        self.cur_class = qual[0] if len(qual) > 1 else None
        self.local_types = c.body_types
        # names the function assigns somewhere: reading one of them on a path where it has not been
        # assigned yet is an UnboundLocalError (a refutable obligation), not an unknown construct
        from .execstmt import assigned_names as _an
        self.fn_locals = set(_an(fdef.body)[0]) - set(self.mutated_globals if hasattr(self, 'mutated_globals') else ())
        self.cur_fn_stack = [key]
        self.mutated_globals = mutated_global_names(fdef)
        self.concat_axioms = bool(getattr(c, 'options', {}).get('concat_axioms'))
        self.slice_axioms = bool(getattr(c, 'options', {}).get('slice_axioms'))
        self.blank_axiom = bool(getattr(c, 'options', {}).get('blank_axiom'))
        self.timeout_ms = getattr(c, 'options', {}).get('timeout_ms')
        st = self.initial_state(c)
        # parameters the contract does not know: bound to their literal defaults (the contract describes the
        # calls that omit them)
        known = {p[0] for p in c.params}
        fa = fdef.args
        fdefaults = [None] * (len(fa.args) - len(fa.defaults)) + list(fa.defaults)
        for arg, d in list(zip(fa.args, fdefaults)) + list(zip(fa.kwonlyargs, fa.kw_defaults)):
            if arg.arg in known:
                continue
            if isinstance(d, ast.Constant) and (d.value is None or isinstance(d.value, (bool, int, str))):
                v = d.value
                st.env[arg.arg] = NONE_VAL if v is None else mk_bool(v) if isinstance(v, bool) else \
                    mk_int(v) if isinstance(v, int) else mk_str(v)
            # (any other new parameter stays unbound: reading it leaves the subset)
        # class-typed first parameter of classmethods
        for (pn, pt, *rest) in c.params:
            if isinstance(pt, TObj) and pt.kind == 'class':
                st.env[pn] = mk_obj('class', pt.py)
        for r in c.requires:
            st.assume(self.spec(clause(r)[0], st, {}, st))
        v = solve.satisfiable(st.pc)
        if v == 'unsat':
            self.results.append(ObResult(key.split(':')[1] + ':vacuous-precondition', 'cover', key, 0,
                                         'refuted', 'z3', 0, 'requires is unsatisfiable', prop=c.prop))
            return
        self.covers.append((key, 'requires', v))
        st.ghost['__entry__'] = dict(st.env)
        st.ghost['__entry_alloc__'] = st.alloc
        for gname, (gt, gexpr) in c.ghost_init.items():
            st.env[gname] = self.coerce(self.spec_val(gexpr, st, {}, st), gt)
            self.local_types = dict(self.local_types)
            self.local_types[gname] = gt
        self.ghost_hits = set()
        self.call_assert_hits = set()
        if c.yield_asserts and getattr(c, 'yield_type', None) is not None:
            # ghost('__last_yield__'): the value yielded before the current one (unknown before the first yield)
            st.ghost['__last_yield__'] = self.fresh_val(st, c.yield_type, 'lasty')
        old = st.fork()
        st.ghost['__entry_heap__'] = dict(old.heap)
        self.fn_old = old
        n_exits = 0
        for s1, out in self.exec_block(fdef.body, st):
            if s1.dead:
                continue
            n_exits += 1
            line = fdef.end_lineno
            if out.kind == 'raise':
                exc = out.value
                allowed = exc.name in c.raises or exc.name in c.may_raise or exc.name in c.allow_exc
                if not allowed:
                    self.prove(s1, z3.BoolVal(False), 'noraise', exc.line, 'propagates:%s:%s' % (exc.name, exc.origin))
                    continue
                cond = c.raises.get(exc.name)
                if cond is not None:
                    self.prove(s1, self.spec(cond, old, {}, old), 'raises-only-if', exc.line, exc.name, text=cond)
                held_exc = []
                for j, e in enumerate(c.ensures_exc):
                    e, props = clause(e)
                    self.clause_props = props
                    self.prove(s1, self.spec(e, s1, self.entry_extra(s1), old), 'post-exc', exc.line,
                               '%d:%s' % (j, exc.name), text=e,
                               stable_name='%s:post-exc:%d' % (key.split(':')[1], j), defer=held_exc)
                    self.clause_props = None
                continue
            if out.kind in ('break', 'continue'):
                raise OutOfSubset('break/continue outside loop')
            res = out.value if out.kind == 'return' else NONE_VAL
            try:
                resv = res if isinstance(c.returns, TObj) or c.returns is None else self.coerce(res, c.returns)
            except OutOfSubset as e:
                self.prove(s1, z3.BoolVal(False), 'post', line, 'return-type', text=str(e))
                continue
            extra = self.entry_extra(s1)
            extra['result'] = resv
            for pn in [m[2:] for m in c.modifies if m.startswith('P:')]:
                extra['new_' + pn] = s1.env[pn]
            for exc, cond in c.raises.items():
                if cond is not None:
                    # "iff": a normal exit is only allowed when the raise condition was false
                    self.prove(s1, z3.Not(self.spec(cond, old, {}, old)), 'raises-iff', line, exc, text=cond)
            held = []
            for j, e in enumerate(c.ensures):
                e, props = clause(e)
                self.clause_props = props
                self.prove(s1, self.spec(e, s1, extra, old), 'post', line, str(j), text=e,
                           stable_name='%s:post:%d' % (key.split(':')[1], j), defer=held)
                self.clause_props = None
            if c.options.get('restores'):
                # net-effect-nil contract: every location of the modifies list holds its entry value again
                # (callers rely on this instead of a havoc), and no exceptional exit is declared
                if c.raises or c.may_raise or c.allow_exc or any(not ('.' in mm and ':' not in mm) for mm in c.modifies):
                    raise OutOfSubset('restores: only parameter fields, no declared exceptions')
                for mm in c.modifies:
                    now = self.spec_val(mm, s1, extra, old)
                    was = self.spec_val('old(%s)' % mm, s1, extra, old)
                    if isinstance(now.t, TList):
                        j = z3.Int(fresh_name('rs'))
                        goal = z3.And(list_len(now) == list_len(was),
                                      z3.ForAll([j], z3.Implies(z3.And(0 <= j, j < list_len(now)),
                                                                z3.Select(list_arr(now), j) == z3.Select(list_arr(was), j))))
                    else:
                        goal = now.e == was.e
                    self.prove(s1, goal, 'post', line, 'restores:' + mm, text='%s == old(%s)' % (mm, mm),
                               stable_name='%s:restores:%s' % (key.split(':')[1], mm))
            # frame for globals not in modifies: proved at each write; nothing to do here
        for pat in getattr(c, 'ghost_before', None) or {}:
            if 'before:' + pat not in self.ghost_hits:
                self.results.append(ObResult(key.split(':')[1] + ':ghost-anchor', 'resolve', key, 0, 'undecided', 'none', 0,
                                             'ghost anchor statement not found / not reached: %s' % pat, prop=c.prop))
        for pat in c.ghost_after:
            if pat not in self.ghost_hits:
                self.results.append(ObResult(key.split(':')[1] + ':ghost-anchor', 'resolve', key, 0, 'undecided', 'none', 0,
                                             'ghost anchor statement not found / not reached: %s' % pat, prop=c.prop))
        for ck in c.call_asserts:
            if ck not in self.call_assert_hits:
                self.results.append(ObResult(key.split(':')[1] + ':call-assert-anchor', 'resolve', key, 0, 'undecided', 'none', 0,
                                             'asserted call not found / not reached: %s' % ck, prop=c.prop))
        if n_exits == 0:
            self.results.append(ObResult(key.split(':')[1] + ':no-exit-path', 'cover', key, 0, 'undecided',
                                         'none', 0, 'no feasible path reaches an exit', prop=c.prop))

    def entry_extra(self, st):
        """Parameter names in postconditions denote the *entry* values of the parameters
        (parameters are mutable locals in Python), except list parameters declared P: (new_x)."""
        return dict(st.ghost['__entry__'])
