"""Python `re` pattern -> SMT-LIB regular language (z3 RegLan), continuation-passing so that
zero-width assertions are exact (DESIGN.md 2.4, assumption A6).

tr(items, rest) is the language of `items` followed by `rest`.  `.match` is tr(p, Sigma*),
`.fullmatch` is tr(p, {eps}).  Lazy and greedy repeats denote the same language.
"""
import ast
import re
import sys
import z3

try:
    import re._parser as sre_parse
    import re._constants as sre_c
except ImportError:  # pragma: no cover
    import sre_parse
    import sre_constants as sre_c

STR = z3.StringSort()
RE = z3.ReSort(STR)


class Unsupported(Exception):
    pass


def full():
    return z3.Full(RE)


def eps():
    return z3.Re(z3.StringVal(''))


def allchar():
    return z3.AllChar(RE)


def lit(c):
    return z3.Re(z3.StringVal(c))


def char_range(a, b):
    if a == b:
        return lit(chr(a))
    return z3.Range(z3.StringVal(chr(a)), z3.StringVal(chr(b)))


def union(rs):
    rs = list(rs)
    if not rs:
        return z3.Empty(RE)
    if len(rs) == 1:
        return rs[0]
    return z3.Union(*rs)


def _ranges(pred):
    out = []
    start = None
    for i in range(sys.maxunicode + 1):
        if 0xD800 <= i <= 0xDFFF:
            ok = False
        else:
            ok = pred(chr(i))
        if ok and start is None:
            start = i
        elif not ok and start is not None:
            out.append((start, i - 1))
            start = None
    if start is not None:
        out.append((start, sys.maxunicode))
    return out


_cat_cache = {}


def category(cat, ascii_only=False):
    key = (str(cat), ascii_only)
    if key in _cat_cache:
        return _cat_cache[key]
    name = str(cat)
    neg = 'NOT_' in name
    if 'SPACE' in name:
        pred = (lambda c: c in ' \t\n\r\f\v') if ascii_only else (lambda c: c.isspace())
    elif 'DIGIT' in name:
        pred = (lambda c: c in '0123456789') if ascii_only else (lambda c: c.isdecimal())
    elif 'WORD' in name:
        pred = (lambda c: c.isascii() and (c.isalnum() or c == '_')) if ascii_only else (lambda c: c.isalnum() or c == '_')
    else:
        raise Unsupported('category %s' % name)
    rs = _ranges(pred)
    r = union(char_range(a, b) for a, b in rs)
    if neg:
        r = z3.Intersect(allchar(), z3.Complement(r))
    _cat_cache[key] = r
    return r


def char_class(items, flags):
    ascii_only = bool(flags & re.ASCII)
    neg = False
    parts = []
    for op, av in items:
        if op is sre_c.NEGATE:
            neg = True
        elif op is sre_c.LITERAL:
            parts.append(lit(chr(av)))
        elif op is sre_c.RANGE:
            parts.append(char_range(av[0], av[1]))
        elif op is sre_c.CATEGORY:
            parts.append(category(av, ascii_only))
        else:
            raise Unsupported('class item %s' % op)
    r = union(parts)
    if neg:
        r = z3.Intersect(allchar(), z3.Complement(r))
    return r


def has_assertion(items):
    for op, av in items:
        if op in (sre_c.AT, sre_c.ASSERT, sre_c.ASSERT_NOT, sre_c.GROUPREF):
            return True
        if op in (sre_c.MAX_REPEAT, sre_c.MIN_REPEAT):
            if has_assertion(av[2]):
                return True
        elif op is sre_c.SUBPATTERN:
            if has_assertion(av[3]):
                return True
        elif op is sre_c.BRANCH:
            if any(has_assertion(a) for a in av[1]):
                return True
    return False


class Translator:
    def __init__(self, flags=0, at_start=True, group_subst=None, over_approx=False):
        self.flags = flags
        self.at_start = at_start
        self.over_approx = over_approx      # drop look-behinds: a superset of the language (sound on the left of a subset claim)
        self.group_subst = group_subst or {}

    def tr(self, items, rest, first=True):
        items = list(items)
        if not items:
            return rest
        op, av = items[0]
        tail = lambda: self.tr(items[1:], rest, False)
        if op is sre_c.LITERAL:
            return z3.Concat(lit(chr(av)), tail())
        if op is sre_c.NOT_LITERAL:
            return z3.Concat(z3.Intersect(allchar(), z3.Complement(lit(chr(av)))), tail())
        if op is sre_c.ANY:
            if self.flags & re.DOTALL:
                return z3.Concat(allchar(), tail())
            return z3.Concat(z3.Intersect(allchar(), z3.Complement(lit('\n'))), tail())
        if op is sre_c.IN:
            return z3.Concat(char_class(av, self.flags), tail())
        if op is sre_c.BRANCH:
            t = tail()
            return union(self.tr(alt, t, first) for alt in av[1])
        if op is sre_c.SUBPATTERN:
            g = av[0]
            if g in self.group_subst:
                return z3.Concat(lit(self.group_subst[g]), tail())
            return self.tr(list(av[3]) + items[1:], rest, first)
        if op in (sre_c.MAX_REPEAT, sre_c.MIN_REPEAT):
            lo, hi, body = av
            t = tail()
            if has_assertion(body):
                if hi is not sre_c.MAXREPEAT and hi <= 12:
                    # unroll: union over counts
                    def rep(k):
                        r = t
                        for _ in range(k):
                            r = self.tr(body, r, False)
                        return r
                    return union(rep(k) for k in range(lo, hi + 1))
                if all(o is sre_c.GROUPREF or not has_assertion([(o, a)]) for o, a in body):
                    b = self.tr(body, eps(), False)   # group refs substituted -> context free
                else:
                    raise Unsupported('assertion inside unbounded repeat')
            else:
                b = self.tr(body, eps(), False)
            if hi is sre_c.MAXREPEAT:
                r = z3.Star(b) if lo == 0 else (z3.Plus(b) if lo == 1 else z3.Concat(z3.Loop(b, lo, lo), z3.Star(b)))
            else:
                r = z3.Loop(b, lo, hi)
            return z3.Concat(r, t)
        if op is sre_c.AT:
            name = str(av)
            if name in ('AT_END',):
                return z3.Intersect(tail(), z3.Union(eps(), lit('\n'))) if not (self.flags & re.MULTILINE) else \
                    z3.Intersect(tail(), z3.Union(eps(), z3.Concat(lit('\n'), full())))
            if name == 'AT_END_STRING':
                return z3.Intersect(tail(), eps())
            if name in ('AT_BEGINNING', 'AT_BEGINNING_STRING'):
                if first and self.at_start:
                    return tail()
                raise Unsupported('^ not at the start')
            raise Unsupported('AT %s' % name)
        if op in (sre_c.ASSERT, sre_c.ASSERT_NOT):
            direction, body = av
            if direction < 0:
                if first and self.at_start:
                    # nothing precedes position 0: (?<!..) holds, (?<=..) fails
                    return tail() if op is sre_c.ASSERT_NOT else z3.Empty(RE)
                if self.over_approx:
                    return tail()
                raise Unsupported('look-behind not at the start')
            look = self.tr(body, full(), False)
            t = tail()
            return z3.Intersect(t, look if op is sre_c.ASSERT else z3.Complement(look))
        if op is sre_c.GROUPREF:
            if av in self.group_subst:
                return z3.Concat(lit(self.group_subst[av]), tail())
            raise Unsupported('back-reference to an unexpanded group')
        raise Unsupported('regex op %s' % op)


def finite_group_chars(parsed, g):
    """If group g is a single character class of finitely many literal characters, return them."""
    def find(items):
        for op, av in items:
            if op is sre_c.SUBPATTERN:
                if av[0] == g:
                    return av[3]
                r = find(av[3])
                if r is not None:
                    return r
            elif op in (sre_c.MAX_REPEAT, sre_c.MIN_REPEAT):
                r = find(av[2])
                if r is not None:
                    return r
            elif op is sre_c.BRANCH:
                for a in av[1]:
                    r = find(a)
                    if r is not None:
                        return r
        return None
    body = find(parsed)
    if body is None:
        return None
    return finite_strings(list(body))


def finite_strings(items, cap=64):
    """The finite set of strings a (sub)pattern denotes, or None if not finite/small."""
    out = ['']
    for op, av in items:
        if op is sre_c.LITERAL:
            alts = [chr(av)]
        elif op is sre_c.IN and all(o is sre_c.LITERAL for o, _ in av):
            alts = [chr(a) for _, a in av]
        elif op in (sre_c.MAX_REPEAT, sre_c.MIN_REPEAT) and av[1] is not sre_c.MAXREPEAT and av[1] <= 4:
            inner = finite_strings(list(av[2]), cap)
            if inner is None:
                return None
            alts = []
            for k in range(av[0], av[1] + 1):
                cur = ['']
                for _ in range(k):
                    cur = [a + b for a in cur for b in inner]
                alts.extend(cur)
        elif op is sre_c.SUBPATTERN:
            alts = finite_strings(list(av[3]), cap)
            if alts is None:
                return None
        else:
            return None
        out = [a + b for a in out for b in alts]
        if len(out) > cap:
            return None
    return sorted(set(out))


def groupref_ids(items):
    out = set()
    for op, av in items:
        if op is sre_c.GROUPREF:
            out.add(av)
        elif op in (sre_c.MAX_REPEAT, sre_c.MIN_REPEAT):
            out |= groupref_ids(av[2])
        elif op is sre_c.SUBPATTERN:
            out |= groupref_ids(av[3])
        elif op is sre_c.BRANCH:
            for a in av[1]:
                out |= groupref_ids(a)
        elif op in (sre_c.ASSERT, sre_c.ASSERT_NOT):
            out |= groupref_ids(av[1])
    return out


def language(pattern, flags=0, mode='match', at_start=True, over_approx=False):
    """RegLan of strings s such that re.compile(pattern, flags).<mode>(s) succeeds
    (mode 'match' | 'fullmatch')."""
    parsed = sre_parse.parse(pattern, flags)
    pflags = parsed.state.flags | flags
    rest = full() if mode == 'match' else eps()
    refs = groupref_ids(parsed)
    if not refs:
        return Translator(pflags, at_start, over_approx=over_approx).tr(list(parsed), rest)
    if len(refs) > 1:
        raise Unsupported('several back-referenced groups')
    g = refs.pop()
    chars = finite_group_chars(parsed, g)
    if chars is None:
        raise Unsupported('back-reference to a group that is not a finite character class')
    return union(Translator(pflags, at_start, {g: c}, over_approx=over_approx).tr(list(parsed), rest) for c in chars)


def group_width(pattern, g, flags=0):
    parsed = sre_parse.parse(pattern, flags)

    def find(items):
        for op, av in items:
            if op is sre_c.SUBPATTERN:
                if av[0] == g:
                    return av[3]
                r = find(av[3])
                if r is not None:
                    return r
            elif op in (sre_c.MAX_REPEAT, sre_c.MIN_REPEAT):
                r = find(av[2])
                if r is not None:
                    return r
            elif op is sre_c.BRANCH:
                for a in av[1]:
                    r = find(a)
                    if r is not None:
                        return r
        return None
    body = find(parsed)
    if body is None:
        raise Unsupported('group %d not found' % g)
    lo, hi = body.getwidth()
    return lo, hi


def check_subset(a, b, timeout_ms=20000):
    """L(a) subset of L(b)?  returns ('proved', None) | ('refuted', witness) | ('undecided', why)."""
    x = z3.String('w')
    s = z3.Solver()
    s.set('timeout', timeout_ms)
    s.add(z3.InRe(x, a), z3.Not(z3.InRe(x, b)))
    r = s.check()
    if r == z3.unsat:
        return 'proved', None
    if r == z3.sat:
        w = s.model().eval(x, model_completion=True)
        from .types import z3_unescape
        return 'refuted', z3_unescape(w.as_string()) if z3.is_string_value(w) else str(w)
    return 'undecided', s.reason_unknown()


def extract_patterns(repo, module):
    """Pattern strings assigned as `name = re.compile(<constant expr>[, flags])` in a module of the
    working tree, read with ast (no import): {'Class.attr' | 'name': (pattern, flags)}."""
    import os
    path = os.path.join(repo, module.replace('.', '/') + '.py')
    tree = ast.parse(open(path, encoding='utf-8').read())
    out = {}

    def const_str(node, env):
        if isinstance(node, ast.Constant) and isinstance(node.value, str):
            return node.value
        if isinstance(node, ast.BinOp) and isinstance(node.op, ast.Add):
            a, b = const_str(node.left, env), const_str(node.right, env)
            return None if a is None or b is None else a + b
        if isinstance(node, ast.Name) and node.id in env:
            return env[node.id]
        if isinstance(node, ast.JoinedStr):
            return None
        return None

    def flags_of(node):
        if node is None:
            return 0
        if isinstance(node, ast.Attribute) and isinstance(node.value, ast.Name) and node.value.id == 're':
            return int(getattr(re, node.attr))
        if isinstance(node, ast.BinOp) and isinstance(node.op, ast.BitOr):
            return flags_of(node.left) | flags_of(node.right)
        return 0

    def scan(body, prefix, env):
        for n in body:
            if isinstance(n, ast.ClassDef):
                scan(n.body, prefix + n.name + '.', dict(env))
            elif isinstance(n, ast.Assign) and len(n.targets) == 1 and isinstance(n.targets[0], ast.Name):
                name = n.targets[0].id
                v = n.value
                s = const_str(v, env)
                if s is not None:
                    env[name] = s
                if isinstance(v, ast.Call) and isinstance(v.func, ast.Attribute) and v.func.attr == 'compile' \
                        and isinstance(v.func.value, ast.Name) and v.func.value.id == 're' and v.args:
                    p = const_str(v.args[0], env)
                    if p is not None:
                        fl = flags_of(v.args[1]) if len(v.args) > 1 else 0
                        out[prefix + name] = (p, fl)
    scan(tree.body, '', {})
    return out
