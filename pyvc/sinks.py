"""Sink typing of string-building render methods (DESIGN.md 2.4, C08 / C17).

`template_paths(fdef, typer)` abstractly executes the real FunctionDef of a render_* method and
returns, per control-flow path, the returned string as a list of segments
    ('lit', text) | ('hole', type, source_expression)
Holes get their language type from `typer(call_or_attribute_node, env)`: the proved or assumed
contract of the callee (escape_html_text -> TEXT, html.escape -> ATTR, render_inner -> WF, raw
token attributes -> ANY ...).  A construct outside the small subset raises Unsupported, which the
caller reports as undecided (never as passed).

`homomorphism_cases(expr_chain)` handles the escapers: a chain of str.replace with literal
one-character needles is executed on a symbolic single character; the result is a case table
(condition on the character -> concrete image | the character itself).
"""
import ast
import itertools
import string as _string


class Unsupported(Exception):
    def __init__(self, what, node=None):
        super().__init__('%s@%s' % (what, getattr(node, 'lineno', '?')))


class Infeasible(Exception):
    """Raised by a typer when the current path contradicts a stated shape invariant."""


def lit(s):
    return ('lit', s)


def hole(t, src=''):
    return ('hole', t, src)


class PathState:
    def __init__(self):
        self.env = {}        # name -> list of segments | ('list', elemtype, ) | ('const', value)
        self.effects = []    # (kind, detail) e.g. stack push/pop
        self.conds = []

    def fork(self):
        p = PathState()
        p.env = dict(self.env)
        p.effects = list(self.effects)
        p.conds = list(self.conds)
        return p


class TemplateInterp:
    def __init__(self, typer, self_name='self', effect_hook=None):
        self.typer = typer
        self.effect_hook = effect_hook
        self.format_on_holes = []      # (hole type, source expression, line) of holes found inside a format template

    # value representation: ('str', [segments]) | ('strlist', elemtype, sep-less) | ('other', node)
    def ev(self, node, st):
        if isinstance(node, ast.Constant) and isinstance(node.value, str):
            return ('str', [lit(node.value)])
        if isinstance(node, ast.Constant):
            return ('const', node.value)
        if isinstance(node, ast.Name):
            if node.id in st.env:
                v = st.env[node.id]
                if v[0] == 'elem':
                    t = self.typer(node, st)
                    if t is not None:
                        return t
                return v
            t = self.typer(node, st)
            if t is not None:
                return t
            raise Unsupported('unknown name %s' % node.id, node)
        if isinstance(node, ast.BinOp) and isinstance(node.op, ast.Add):
            a = self.ev(node.left, st)
            b = self.ev(node.right, st)
            if a[0] == 'str' and b[0] == 'str':
                return ('str', a[1] + b[1])
            raise Unsupported('+ on non-strings', node)
        if isinstance(node, ast.BoolOp) and isinstance(node.op, ast.Or) and len(node.values) == 2:
            a = self.ev(node.values[0], st)
            b = self.ev(node.values[1], st)
            if a[0] == 'str' and b[0] == 'str':
                return ('str', [('alt', [a[1], b[1]])])
            raise Unsupported('or on non-strings', node)
        if isinstance(node, ast.JoinedStr):
            raise Unsupported('f-string', node)
        if isinstance(node, ast.Subscript):
            base = self.ev(node.value, st)
            if base[0] == 'str' and isinstance(node.slice, ast.Slice):
                # slicing a literal-only string by constant bounds (inner_template[1:])
                if all(s[0] == 'lit' for s in base[1]):
                    text = ''.join(s[1] for s in base[1])
                    lo = node.slice.lower.value if isinstance(node.slice.lower, ast.Constant) else None
                    hi = None
                    if node.slice.upper is not None:
                        if isinstance(node.slice.upper, ast.Constant):
                            hi = node.slice.upper.value
                        elif isinstance(node.slice.upper, ast.UnaryOp) and isinstance(node.slice.upper.op, ast.USub):
                            hi = -node.slice.upper.operand.value
                        else:
                            raise Unsupported('slice bound', node)
                    if node.slice.lower is not None and lo is None:
                        raise Unsupported('slice bound', node)
                    return ('str', [lit(text[lo:hi])])
                # slicing a string with holes at its ends: only literal prefix/suffix trimming
                raise Unsupported('slice of a string with holes', node)
            t = self.typer(node, st)
            if t is not None:
                return t
            raise Unsupported('subscript', node)
        if isinstance(node, ast.IfExp):
            raise Unsupported('conditional expression (use statement form)', node)
        if isinstance(node, ast.Call):
            return self.ev_call(node, st)
        if isinstance(node, ast.Attribute):
            t = self.typer(node, st)
            if t is not None:
                return t
            raise Unsupported('attribute %s' % ast.unparse(node), node)
        if isinstance(node, (ast.ListComp, ast.GeneratorExp)):
            if len(node.generators) == 1 and not node.generators[0].ifs:
                st2 = st.fork()
                tgt = node.generators[0].target
                if isinstance(tgt, ast.Name):
                    st2.env[tgt.id] = ('elem', ast.unparse(node.generators[0].iter))
                elif isinstance(tgt, ast.Tuple) and all(isinstance(e, ast.Name) for e in tgt.elts):
                    for k, e in enumerate(tgt.elts):
                        st2.env[e.id] = ('elem', ast.unparse(node.generators[0].iter), k)
                v = self.ev(node.elt, st2)
                if v[0] == 'str':
                    return ('strlist', v[1])
            raise Unsupported('list comprehension', node)
        if isinstance(node, ast.List):
            vals = [self.ev(e, st) for e in node.elts]
            if all(v[0] == 'str' for v in vals):
                return ('strseq', [v[1] for v in vals])
            raise Unsupported('list literal', node)
        raise Unsupported('expression %s' % type(node).__name__, node)

    def ev_call(self, node, st):
        f = node.func
        if isinstance(f, ast.Name) and f.id == 'map' and len(node.args) == 2 and not node.keywords and 'map' not in st.env:
            # map(g, xs) consumed as a sequence == [g(x) for x in xs]
            fn = node.args[0]
            if isinstance(fn, ast.Lambda) and len(fn.args.args) == 1:
                elt, var = fn.body, fn.args.args[0].arg
            else:
                var = '_map_item'
                elt = ast.Call(func=fn, args=[ast.Name(id=var, ctx=ast.Load())], keywords=[])
            comp = ast.ListComp(elt=elt, generators=[ast.comprehension(target=ast.Name(id=var, ctx=ast.Store()),
                                                                       iter=node.args[1], ifs=[], is_async=0)])
            ast.copy_location(comp, node)
            ast.fix_missing_locations(comp)
            return self.ev(comp, st)
        if isinstance(f, ast.Attribute) and f.attr == 'format':
            tmpl = self.ev(f.value, st)
            if tmpl[0] != 'str':
                raise Unsupported('format on non-string', node)
            pos = [self.ev(a, st) for a in node.args]
            kw = {k.arg: self.ev(k.value, st) for k in node.keywords}
            out = []
            auto = 0
            for seg in merge_lits(tmpl[1]):
                if seg[0] != 'lit':
                    # a hole INSIDE the string that .format() is called on: Python parses that text as format
                    # syntax, so a brace in it raises (KeyError / IndexError / ValueError) or splices another
                    # argument in.  Recorded for the lemma drivers, which report it as a refuted obligation.
                    for h in ([seg] if seg[0] == 'hole' else [x for x in _holes_of(seg)]):
                        self.format_on_holes.append((h[1], h[2], getattr(node, 'lineno', 0)))
                    out.append(seg)
                    continue
                try:
                    fields = list(_string.Formatter().parse(seg[1]))
                except ValueError as e:
                    raise Unsupported('format template %r: %s' % (seg[1][:40], e), node)
                for text, field, spec, conv in fields:
                    if text:
                        out.append(lit(text))
                    if field is None:
                        continue
                    if spec or conv:
                        raise Unsupported('format spec', node)
                    if field == '':
                        v = pos[auto]
                        auto += 1
                    elif field.isdigit():
                        v = pos[int(field)]
                    else:
                        if field not in kw:
                            raise Unsupported('format field %s' % field, node)
                        v = kw[field]
                    out.extend(self.as_segments(v, node))
            return ('str', out)
        if isinstance(f, ast.Attribute) and f.attr == 'join':
            sep = self.ev(f.value, st)
            arg = self.ev(node.args[0], st)
            if sep[0] != 'str' or not all(s[0] == 'lit' for s in sep[1]):
                raise Unsupported('join separator', node)
            septext = ''.join(s[1] for s in sep[1])
            if arg[0] == 'strlist':
                return ('str', [('rep', arg[1], septext)])
            if arg[0] == 'strseq':
                out = []
                for i, segs in enumerate(arg[1]):
                    if i:
                        out.append(lit(septext))
                    out.extend(segs)
                return ('str', out)
            if arg[0] == 'str' and len(arg[1]) == 1 and arg[1][0][0] == 'hole' and arg[1][0][1].startswith('LIST:'):
                return ('str', [('rep', [hole(arg[1][0][1][5:], arg[1][0][2])], septext)])
            raise Unsupported('join argument', node)
        if isinstance(f, ast.Name) and st.env.get(f.id, (None,))[0] == 'localfunc' and not node.keywords:
            # a function defined inside the method: every path of its body, parameters bound to the arguments
            fdef = st.env[f.id][1]
            params = [a.arg for a in fdef.args.args]
            if len(params) == len(node.args):
                st2 = st.fork()
                for pn, an in zip(params, node.args):
                    try:
                        st2.env[pn] = self.ev(an, st)
                    except Unsupported:
                        st2.env[pn] = ('opaque', ast.unparse(an)[:60])
                outs = []
                for _st3, v in self.run(list(fdef.body), st2):
                    if v is None or v[0] not in ('str', 'const'):
                        raise Unsupported('local function %s returns a value of kind %s' % (f.id, v[0] if v else None), node)
                    outs.append(self.as_segments(v, node))
                if not outs:
                    raise Infeasible()
                return ('str', outs[0] if len(outs) == 1 else [('alt', outs)])
        t = self.typer(node, st)
        if t is not None:
            return t
        # a value we cannot type: fine as long as it never reaches the returned string
        return ('opaque', ast.unparse(node)[:60])

    def as_segments(self, v, node):
        if v[0] == 'str':
            return v[1]
        if v[0] == 'const':
            return [lit(str(v[1]))]
        raise Unsupported('format argument of kind %s' % v[0], node)

    # ---- statements: enumerate paths ---------------------------------------------------------
    def run(self, body, st):
        """yields (state, returned value or None)."""
        if not body:
            yield st, None
            return
        node = body[0]
        rest = body[1:]
        if isinstance(node, ast.Expr) and isinstance(node.value, ast.Constant):
            yield from self.run(rest, st)
            return
        if isinstance(node, ast.Return):
            if node.value is None:
                yield st, ('const', None)
                return
            for st2, v in self.ev_assign_value(node.value, st):
                yield st2, v
            return
        if isinstance(node, ast.Assign) and len(node.targets) == 1 and isinstance(node.targets[0], ast.Name):
            v = self.ev_assign_value(node.value, st)
            for st2, val in v:
                st2.env[node.targets[0].id] = val
                yield from self.run(rest, st2)
            return
        if isinstance(node, ast.AugAssign) and isinstance(node.target, ast.Name) and isinstance(node.op, ast.Add):
            cur = st.env.get(node.target.id)
            v = self.ev(node.value, st)
            if cur and cur[0] == 'str' and v[0] == 'str':
                st.env[node.target.id] = ('str', cur[1] + v[1])
                yield from self.run(rest, st)
                return
            raise Unsupported('augmented assignment', node)
        if isinstance(node, ast.If):
            for branch, tag in ((node.body, True), (node.orelse, False)):
                st2 = st.fork()
                st2.conds.append((ast.unparse(node.test), tag))
                self.refine(node.test, tag, st2)
                try:
                    yield from self.run(list(branch) + list(rest), st2)
                except Infeasible:
                    continue
            return
        if isinstance(node, ast.Expr) and isinstance(node.value, ast.Call):
            if self.effect_hook and self.effect_hook(node.value, st):
                yield from self.run(rest, st)
                return
            raise Unsupported('expression statement %s' % ast.unparse(node)[:60], node)
        if isinstance(node, ast.Assign) and self.effect_hook and self.effect_hook(node, st):
            yield from self.run(rest, st)
            return
        if isinstance(node, ast.FunctionDef):
            st.env[node.name] = ('localfunc', node)
            yield from self.run(rest, st)
            return
        if isinstance(node, ast.Raise):
            return
        if isinstance(node, ast.For) and self.effect_hook and self.effect_hook(node, st):
            yield from self.run(rest, st)
            return
        raise Unsupported('statement %s' % type(node).__name__, node)

    def ev_assign_value(self, node, st):
        if isinstance(node, ast.IfExp):
            for branch, tag in ((node.body, True), (node.orelse, False)):
                st2 = st.fork()
                st2.conds.append((ast.unparse(node.test), tag))
                self.refine(node.test, tag, st2)
                yield st2, self.ev(branch, st2)
            return
        yield st, self.ev(node, st)

    def refine(self, test, truth, st):
        """Record facts learnt from a branch condition (used by typers, e.g. token.align cases)."""
        st.env.setdefault('__facts__', ())
        st.env['__facts__'] = st.env['__facts__'] + ((ast.unparse(test), truth),)


def _holes_of(seg):
    if seg[0] == 'hole':
        yield seg
    elif seg[0] == 'rep':
        for x in seg[1]:
            yield from _holes_of(x)
    elif seg[0] == 'alt':
        for alt in seg[1]:
            for x in alt:
                yield from _holes_of(x)


def flatten(segs, choice=None):
    """Expand ('rep', segs, sep) as zero, one and two repetitions (enough to see every adjacency)."""
    variants = [[]]
    for s in segs:
        if s[0] == 'rep':
            inner = flatten(s[1])
            new = []
            for v in variants:
                for k in (0, 1, 2):
                    for combo in itertools.product(inner, repeat=k):
                        part = []
                        for i, c in enumerate(combo):
                            if i:
                                part.append(lit(s[2]))
                            part.extend(c)
                        new.append(v + part)
            variants = new
        elif s[0] == 'alt':
            choices = [c for alt in s[1] for c in flatten(alt)]
            variants = [v + c for v in variants for c in choices]
        else:
            variants = [v + [s] for v in variants]
        if len(variants) > 4000:
            raise Unsupported('too many template variants')
    return [merge_lits(v) for v in variants]


def merge_lits(segs):
    out = []
    for s in segs:
        if s[0] == 'lit' and out and out[-1][0] == 'lit':
            out[-1] = ('lit', out[-1][1] + s[1])
        else:
            out.append(s)
    return out


# ------------------------------------------------------------------------- homomorphisms --------
def replace_chain(expr):
    """Decompose  base.replace(a,b).replace(c,d)...  into (base node, [(needle, repl), ...])."""
    chain = []
    node = expr
    while isinstance(node, ast.Call) and isinstance(node.func, ast.Attribute) and node.func.attr == 'replace':
        if len(node.args) != 2 or not all(isinstance(a, ast.Constant) and isinstance(a.value, str) for a in node.args):
            raise Unsupported('replace with non-literal arguments', node)
        chain.append((node.args[0].value, node.args[1].value))
        node = node.func.value
    chain.reverse()
    return node, chain


def apply_chain_symbolic(chain, cases=None):
    """Case table of the image of a single symbolic character c under a replace chain.
    cases: list of (frozenset excluded chars | None, kind, value):
       ('eq', ch, text)  : c == ch  -> image is the concrete `text`
       ('other', excl, None): c not in excl -> image is c itself
    Needles must be single characters (assumption A2: str.replace with a one-character needle is
    the character-wise substitution)."""
    if cases is None:
        cases = [('other', frozenset(), None)]
    for needle, repl in chain:
        if len(needle) != 1:
            raise Unsupported('needle %r is not a single character' % needle)
        new = []
        for kind, a, b in cases:
            if kind == 'eq':
                new.append(('eq', a, b.replace(needle, repl)))
            else:
                excl = a
                if needle not in excl:
                    new.append(('eq', needle, repl))
                    new.append(('other', excl | {needle}, None))
                else:
                    new.append(('other', excl, None))
        cases = new
    return cases
