"""Type descriptors and symbolic values for pyvc.

Every Python value the symbolic executor handles is a `Val(t, e)`: a type descriptor `t`
and a z3 expression `e` of the sort `sort_of(t)` (or a concrete Python payload for TObj).

Encoding (DESIGN.md 2.2):
  int   -> Int (mathematical; exact for Python)        bool -> Bool
  str   -> String (sequence of code points)            None -> unit (no expression)
  list  -> datatype (len: Int, arr: Array(Int -> T))   (NOT an SMT sequence)
  tuple -> datatype with one field per position         Optional[T] -> datatype none | some(T)
  object reference -> Int id; fields live in per-field heap arrays (Burstall-Bornat heap)
"""
import z3

_sort_cache = {}


class T:
    def key(self):
        raise NotImplementedError

    def __eq__(self, other):
        return isinstance(other, T) and self.key() == other.key()

    def __hash__(self):
        return hash(self.key())

    def __repr__(self):
        return self.key()


class TInt(T):
    def key(self):
        return 'Int'


class TBool(T):
    def key(self):
        return 'Bool'


class TStr(T):
    def key(self):
        return 'Str'


class TNone(T):
    def key(self):
        return 'None'


class TList(T):
    def __init__(self, elem):
        self.elem = elem

    def key(self):
        return 'List[%s]' % self.elem.key()


class TOpt(T):
    def __init__(self, elem):
        assert not isinstance(elem, (TOpt, TNone)), elem
        self.elem = elem

    def key(self):
        return 'Opt[%s]' % self.elem.key()


class TTuple(T):
    def __init__(self, elems):
        self.elems = list(elems)

    def key(self):
        return 'Tuple[%s]' % ','.join(e.key() for e in self.elems)


class TDict(T):
    """dict as a total map key -> Optional[value] (absent = none)."""

    def __init__(self, key, val):
        self.k = key
        self.v = val

    def key(self):
        return 'Dict[%s,%s]' % (self.k.key(), self.v.key())


class TRef(T):
    """Reference to a heap object of (model) class `cls`."""

    def __init__(self, cls):
        self.cls = cls

    def key(self):
        return 'Ref[%s]' % self.cls


class TObj(T):
    """A concrete Python-level entity that is not encoded in SMT (a class, a module, a
    function name, a literal set of characters).  `py` is the payload."""

    def __init__(self, kind):
        self.kind = kind

    def key(self):
        return 'Obj[%s]' % self.kind


INT, BOOL, STR, NONE = TInt(), TBool(), TStr(), TNone()


def sort_of(t):
    k = t.key()
    if k in _sort_cache:
        return _sort_cache[k]
    if isinstance(t, TInt):
        s = z3.IntSort()
    elif isinstance(t, TBool):
        s = z3.BoolSort()
    elif isinstance(t, TStr):
        s = z3.StringSort()
    elif isinstance(t, TRef):
        s = z3.IntSort()
    elif isinstance(t, TNone):
        s = z3.BoolSort()  # placeholder (value irrelevant)
    elif isinstance(t, TList):
        nm = 'L_' + _mangle(t.elem.key())
        d = z3.Datatype(nm)
        d.declare('mk_' + nm, ('len_' + nm, z3.IntSort()), ('arr_' + nm, z3.ArraySort(z3.IntSort(), sort_of(t.elem))))
        s = d.create()
    elif isinstance(t, TOpt):
        nm = 'O_' + _mangle(t.elem.key())
        d = z3.Datatype(nm)
        d.declare('none_' + nm)
        d.declare('some_' + nm, ('val_' + nm, sort_of(t.elem)))
        s = d.create()
    elif isinstance(t, TDict):
        s = z3.ArraySort(sort_of(t.k), sort_of(TOpt(t.v)))
    elif isinstance(t, TTuple):
        nm = 'T_' + _mangle(k)
        d = z3.Datatype(nm)
        d.declare('mk_' + nm, *[('f%d_%s' % (i, nm), sort_of(e)) for i, e in enumerate(t.elems)])
        s = d.create()
    else:
        raise TypeError('no sort for %r' % (t,))
    _sort_cache[k] = s
    return s


def _mangle(k):
    return k.replace('[', '_').replace(']', '_').replace(',', '_')


class Val:
    __slots__ = ('t', 'e', 'py')

    def __init__(self, t, e=None, py=None):
        self.t = t
        self.e = e
        self.py = py

    def __repr__(self):
        if isinstance(self.t, TObj):
            return '<%s %r>' % (self.t.key(), self.py)
        return '<%s %s>' % (self.t.key(), self.e)


_fresh_n = [0]


def fresh_name(base):
    _fresh_n[0] += 1
    return '%s!%d' % (base, _fresh_n[0])


def fresh(t, base='v'):
    if isinstance(t, TNone):
        return NONE_VAL
    if isinstance(t, TObj):
        raise TypeError('cannot make fresh TObj')
    return Val(t, z3.Const(fresh_name(base), sort_of(t)))


NONE_VAL = Val(NONE, None)


def mk_int(n):
    return Val(INT, z3.IntVal(n) if isinstance(n, int) else n)


def mk_bool(b):
    return Val(BOOL, z3.BoolVal(b) if isinstance(b, bool) else b)


def mk_str(s):
    return Val(STR, z3.StringVal(s) if isinstance(s, str) else s)


def mk_obj(kind, py):
    return Val(TObj(kind), None, py)


# ---- list helpers -------------------------------------------------------------------------

def list_len(v):
    return sort_of(v.t).accessor(0, 0)(v.e)


def list_arr(v):
    return sort_of(v.t).accessor(0, 1)(v.e)


def mk_list(t, length, arr):
    return Val(t, sort_of(t).constructor(0)(length, arr))


def empty_list(t):
    s = sort_of(t)
    arr = z3.Const(fresh_name('emptyarr'), z3.ArraySort(z3.IntSort(), sort_of(t.elem)))
    return Val(t, s.constructor(0)(z3.IntVal(0), arr))


def list_from(t, elems):
    arr = z3.Const(fresh_name('litarr'), z3.ArraySort(z3.IntSort(), sort_of(t.elem)))
    for i, x in enumerate(elems):
        arr = z3.Store(arr, i, x.e if x.e is not None else z3.BoolVal(False))
    return Val(t, sort_of(t).constructor(0)(z3.IntVal(len(elems)), arr))


# ---- option helpers -----------------------------------------------------------------------

def opt_none(t):
    return Val(t, sort_of(t).constructor(0)())


def opt_some(t, v):
    return Val(t, sort_of(t).constructor(1)(v.e))


def opt_is_none(v):
    return sort_of(v.t).recognizer(0)(v.e)


def opt_val(v):
    return Val(v.t.elem, sort_of(v.t).accessor(1, 0)(v.e))


# ---- tuple helpers ------------------------------------------------------------------------

def mk_tuple(vals):
    t = TTuple([v.t for v in vals])
    return Val(t, sort_of(t).constructor(0)(*[(v.e if v.e is not None else z3.BoolVal(False)) for v in vals]))


def tuple_get(v, i):
    s = sort_of(v.t)
    return Val(v.t.elems[i], s.accessor(0, i)(v.e))


def z3_unescape(text):
    """z3 prints the characters outside printable ASCII of a string value as \\u{hex}: back to the characters
    (needed before a counter-model or a language witness is replayed on the real code)."""
    import re as _re
    return _re.sub(r'\\u\{([0-9a-fA-F]{1,6})\}', lambda m: chr(int(m.group(1), 16)), text)
