"""Run the deductive tier for a list of function keys; print a table.  (developer tool)"""
import sys, time, importlib, json, os
from pyvc.model import Model
from pyvc.execcall import Executor
from pyvc import solve


def load_model(modules):
    m = Model()
    kf = '/verif/known_findings.json'
    if os.path.exists(kf):
        for f in json.load(open(kf)).get('findings', []):
            if f.get('kind') == 'obligation':
                m.unassumed.add(f['obligation'])
    for name in modules:
        mod = importlib.import_module('contracts.' + name)
        for fn in ['build'] + ['build%d' % i for i in range(2, 20)]:
            if hasattr(mod, fn):
                getattr(mod, fn)(m)
    return m


def main():
    mods = sys.argv[1].split(',')
    keys = sys.argv[2:]
    m = load_model(mods)
    if not keys:
        keys = [k for k, c in m.contracts.items() if not c.trusted and not k.startswith(('protocol:', 're:'))]
    for k in keys:
        ex = Executor(m, os.environ.get('PYVC_REPO', '/repo'))
        t0 = time.time()
        res = ex.verify(k)
        dt = time.time() - t0
        print('== %s  (%d obligations, %.2fs, %d paths)' % (k, len(res), dt, ex.paths))
        for r in res:
            flag = {'proved': 'ok ', 'refuted': 'REF', 'undecided': '???'}[r.verdict]
            print('   %s %-60s %-6s %6.0fms %s' % (flag, r.name, r.backend, r.ms, (r.detail or r.model or '') if r.verdict != 'proved' else ''))


if __name__ == '__main__':
    main()
