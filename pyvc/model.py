"""Verification model: what the sidecar contracts declare about the program under proof.

A Model holds
  * classes: model class name -> {field: type}; optional fields (hasattr-tested) are listed in
    `optional_fields`;
  * globals: global state variables (module globals and class attributes used as scratch);
  * contracts: dotted function key -> Contract;
  * predicates: named pure spec functions (Python expressions over their parameters);
  * ufuncs: uninterpreted functions (name -> (arg types, result type));
  * namespaces: per module, what a bare name inside a function of that module denotes.
"""
import ast
from .types import *  # noqa


class Loop:
    def __init__(self, invariant=(), decreases=None, types=None, label=None, unroll=None,
                 ghost_init=None, ghost_step=None):
        self.invariant = list(invariant)
        self.decreases = decreases          # expression string or list of them (lexicographic)
        self.types = types or {}
        self.label = label
        self.unroll = unroll


class Contract:
    def __init__(self, key, params, returns=NONE, requires=(), ensures=(), ensures_exc=(),
                 raises=None, may_raise=(), modifies=(), loops=None, inline=False,
                 trusted=False, pure=False, stable=(), ghost=None, prop=(), note='',
                 body_types=None, allow_exc=(), allocates=(), is_property=False,
                 is_static=False, is_classmethod=False, repeatable=False, assume_callee_pre=False,
                 ghost_init=None, ghost_after=None, call_asserts=None, yield_asserts=None, yield_type=None, options=None, ghost_before=None):
        self.key = key
        self.params = list(params)              # [(name, type, default-or-None)]
        self.returns = returns
        self.requires = list(requires)
        self.ensures = list(ensures)
        self.ensures_exc = list(ensures_exc)    # must hold whenever an exception leaves
        self.raises = dict(raises or {})        # exc name -> condition (in pre-state) "iff"
        self.may_raise = list(may_raise)        # exc names that may leave at any time
        self.allow_exc = list(allow_exc)        # exceptions allowed to propagate through
        self.modifies = list(modifies)          # 'self._index', 'G:Paragraph.parse_setext', 'P:delimiters', 'F:Delimiter.number'
        self.loops = loops or {}
        self.inline = inline
        self.trusted = trusted                  # contract is assumed, body not verified
        self.pure = pure
        self.stable = list(stable)              # ensures clauses that survive repeated calls
        self.ghost = ghost or {}
        self.prop = list(prop)                  # property ids this contract serves
        self.note = note
        self.body_types = body_types or {}      # local variable -> declared type
        self.allocates = list(allocates)
        self.is_property = is_property
        self.is_static = is_static
        self.is_classmethod = is_classmethod
        self.ghost_init = ghost_init or {}        # ghost name -> (type, init expression)
        self.ghost_after = ghost_after or {}      # unparsed statement text -> [(ghost name, expression)]
        self.ghost_before = ghost_before or {}    # unparsed statement text -> [('__assert__', clause)] proved BEFORE it runs
        self.options = options or {}
        self.yield_type = yield_type
        self.yield_asserts = list(yield_asserts or [])   # clauses over `yielded`, checked at every yield
        self.call_asserts = call_asserts or {}    # callee key -> [clause] checked at each call, callee params in scope
        self.assume_callee_pre = assume_callee_pre   # secondary view: callee pre proved in the main view
        self.repeatable = repeatable           # every ensures clause is stable under repeated calls

    def param_names(self):
        return [p[0] for p in self.params]


class Model:
    def __init__(self):
        self.classes = {}
        self.optional_fields = set()     # (cls, field)
        self.subclass_of = {}            # model class -> parent model class
        self.globals = {}                # key -> type
        self.contracts = {}
        self.predicates = {}             # name -> (param names, expression string)
        self.ufuncs = {}                 # name -> ([arg types], ret type)
        self.namespaces = {}             # module -> {name: binding}
        self.methods = {}                # (model class, method) -> contract key
        self.charsets = {}               # name -> python set of characters
        self.class_attrs = {}            # (python class name, attr) -> ('global', key) | ('const', Val)
        self.trusted_notes = []
        self.unassumed = set()           # obligation names recorded as refuted (known findings)
        self.listlike = {}               # model class that subclasses list -> its items field
        self.elem_inv = {}               # (class, list field) -> predicate over element x (assumed data invariant)

    def add(self, c):
        self.contracts[c.key] = c
        return c

    def predicate(self, name, params, expr):
        self.predicates[name] = (list(params), expr)

    def ufunc(self, name, args, ret):
        self.ufuncs[name] = (list(args), ret)


def parse_expr(s):
    return ast.parse(s.strip(), mode='eval').body
