"""Statement execution, loops with invariants, function verification.  Mixed into Executor."""
import ast
import z3
from .types import *  # noqa
from .engine import Engine, OutOfSubset, Exc, Outcome, NORMAL, UNBOUND, State, ObResult, dotted_name
from .model import Loop
from . import solve


def assigned_names(nodes):
    """Local names (and attribute/global targets) syntactically assigned in a statement list."""
    names = set()
    attrs = set()
    receivers = set()

    class V(ast.NodeVisitor):
        def target(self, t):
            if isinstance(t, ast.Name):
                names.add(t.id)
            elif isinstance(t, (ast.Tuple, ast.List)):
                for e in t.elts:
                    self.target(e)
            elif isinstance(t, ast.Starred):
                self.target(t.value)
            elif isinstance(t, ast.Attribute):
                attrs.add(ast.unparse(t))
            elif isinstance(t, ast.Subscript):
                self.target(t.value)

        def visit_Assign(self, n):
            for t in n.targets:
                self.target(t)
            self.generic_visit(n)

        def visit_AugAssign(self, n):
            self.target(n.target)
            self.generic_visit(n)

        def visit_For(self, n):
            self.target(n.target)
            self.generic_visit(n)

        def visit_Delete(self, n):
            for t in n.targets:
                self.target(t)

        def visit_Call(self, n):
            # mutating list methods rebind the receiver variable
            if isinstance(n.func, ast.Attribute) and n.func.attr in (
                    'append', 'pop', 'remove', 'extend', 'insert', 'clear', 'update'):
                if isinstance(n.func.value, ast.Name):
                    receivers.add(n.func.value.id)
                else:
                    self.target(n.func.value)
            self.generic_visit(n)

        def visit_ListComp(self, n):
            self.generic_visit(n)

    v = V()
    for n in nodes:
        v.visit(n)
    assigned_names.last_receivers = receivers - names
    return names | receivers, attrs


class StmtMixin:

    def exec_block(self, stmts, st):
        """Yields (state, Outcome)."""
        if not stmts:
            yield st, NORMAL
            return
        for s1, out in self.exec_stmt(stmts[0], st):
            if s1.dead:
                continue
            if out.kind != 'normal':
                yield s1, out
            else:
                yield from self.exec_block(stmts[1:], s1)

    def raise_out(self, exc):
        return Outcome('raise', exc)

    def exec_stmt(self, node, st):
        self.paths += 1
        if self.paths > self.MAX_PATHS:
            raise OutOfSubset('path budget exceeded', node)
        line = getattr(node, 'lineno', 0)
        if isinstance(node, ast.Expr) and isinstance(node.value, ast.Yield):
            # generator: the function's result is the sequence of yielded values; each yield is
            # checked against the contract's yield_asserts (with `yielded` bound)
            c = self.m.contracts[self.cur_fn_stack[0]]
            if node.value.value is None:
                yield st, NORMAL
                return
            for s1, v in self.ev(node.value.value, st):
                if isinstance(v, Exc):
                    yield s1, self.raise_out(v)
                    continue
                if getattr(c, 'yield_type', None) is not None:
                    v = self.coerce(v, c.yield_type)
                held = []
                for j, e in enumerate(c.yield_asserts):
                    from .execcall import clause
                    e2, props = clause(e)
                    self.clause_props = props
                    self.prove(s1, self.spec(e2, s1, {'yielded': v}, self.fn_old), 'yield', line, str(j), text=e2,
                               stable_name='%s:yield:%d' % (self.cur_fn_stack[0].split(':')[1], j), defer=held)
                    self.clause_props = None
                for g in held:
                    s1.assume(g)
                s1.ghost['__yields__'] = s1.ghost.get('__yields__', 0) + 1
                s1.ghost['__last_yield__'] = v      # ghost('__last_yield__') in a yield assert: the value yielded before this one
                yield s1, NORMAL
            return
        if isinstance(node, ast.Expr) and isinstance(node.value, ast.YieldFrom):
            # `yield from X`: X is evaluated (its call obligations apply).  Without yield asserts the
            # delegated items are not inspected; with them every delegated item is checked: the members
            # of a tuple one by one, the elements of a list under a quantifier.  Anything else is
            # outside the subset (never passed silently).
            c = self.m.contracts[self.cur_fn_stack[0]]
            for s1, v in self.ev(node.value.value, st):
                if isinstance(v, Exc):
                    yield s1, self.raise_out(v)
                    continue
                if c.yield_asserts:
                    from .execcall import clause
                    if isinstance(v.t, TTuple):
                        items = [tuple_get(v, i) for i in range(len(v.t.elems))]
                        for it in items:
                            if getattr(c, 'yield_type', None) is not None:
                                it = self.coerce(it, c.yield_type)
                            held = []
                            for j, e in enumerate(c.yield_asserts):
                                e2, props = clause(e)
                                self.clause_props = props
                                self.prove(s1, self.spec(e2, s1, {'yielded': it}, self.fn_old), 'yield', line, str(j), text=e2,
                                           stable_name='%s:yield:%d' % (self.cur_fn_stack[0].split(':')[1], j), defer=held)
                                self.clause_props = None
                            for g in held:
                                s1.assume(g)
                            s1.ghost['__yields__'] = s1.ghost.get('__yields__', 0) + 1
                            s1.ghost['__last_yield__'] = it
                    elif isinstance(v.t, TList):
                        qi = z3.Int(fresh_name('yf'))
                        it = Val(v.t.elem, z3.Select(list_arr(v), qi))
                        if getattr(c, 'yield_type', None) is not None:
                            it = self.coerce(it, c.yield_type)
                        held = []
                        for j, e in enumerate(c.yield_asserts):
                            e2, props = clause(e)
                            self.clause_props = props
                            body = self.spec(e2, s1, {'yielded': it}, self.fn_old)
                            goal = z3.ForAll([qi], z3.Implies(z3.And(0 <= qi, qi < list_len(v)), body))
                            self.prove(s1, goal, 'yield', line, str(j), text=e2,
                                       stable_name='%s:yield:%d' % (self.cur_fn_stack[0].split(':')[1], j), defer=held)
                            self.clause_props = None
                        for g in held:
                            s1.assume(g)
                        s1.ghost['__yields__'] = s1.ghost.get('__yields__', 0) + 1
                        # after a delegated list the previous value is its last element, or unchanged when it is empty
                        prev = s1.ghost.get('__last_yield__')
                        lastv = Val(v.t.elem, z3.Select(list_arr(v), list_len(v) - 1))
                        if getattr(c, 'yield_type', None) is not None:
                            lastv = self.coerce(lastv, c.yield_type)
                        if prev is not None and prev.t == lastv.t:
                            s1.ghost['__last_yield__'] = Val(lastv.t, z3.If(list_len(v) > 0, lastv.e, prev.e))
                        else:
                            s1.ghost['__last_yield__'] = self.fresh_val(s1, lastv.t, 'lasty')
                    else:
                        raise OutOfSubset('yield from %s in a generator with yield asserts' % v.t, node)
                yield s1, NORMAL
            return
        if isinstance(node, ast.Expr):
            if isinstance(node.value, ast.Constant):
                yield st, NORMAL
                return
            for s1, v in self.ev(node.value, st):
                yield s1, (self.raise_out(v) if isinstance(v, Exc) else NORMAL)
            return
        if isinstance(node, ast.Pass) or isinstance(node, ast.Global):
            yield st, NORMAL
            return
        if isinstance(node, ast.Assign):
            for s1, v in self.ev(node.value, st):
                if isinstance(v, Exc):
                    yield s1, self.raise_out(v)
                    continue
                states = [s1]
                for t in node.targets:
                    nxt = []
                    for s in states:
                        nxt.extend(self.assign(t, v, s, line))
                    states = nxt
                for s in states:
                    yield s, NORMAL
            return
        if isinstance(node, ast.AugAssign):
            load = ast.copy_location(_as_load(node.target), node)
            binop = ast.copy_location(ast.BinOp(left=load, op=node.op, right=node.value), node)
            ast.fix_missing_locations(binop)
            for s1, v in self.ev(binop, st):
                if isinstance(v, Exc):
                    yield s1, self.raise_out(v)
                    continue
                for s in self.assign(node.target, v, s1, line):
                    yield s, NORMAL
            return
        if isinstance(node, ast.If):
            for s1, c in self.ev_cond(node.test, st):
                if isinstance(c, Exc):
                    yield s1, self.raise_out(c)
                    continue
                for s2, truth in self.split(s1, c, node.test):
                    yield from self.exec_block(node.body if truth else node.orelse, s2)
            return
        if isinstance(node, ast.Return):
            if node.value is None:
                yield st, Outcome('return', NONE_VAL)
                return
            for s1, v in self.ev(node.value, st):
                yield s1, (self.raise_out(v) if isinstance(v, Exc) else Outcome('return', v))
            return
        if isinstance(node, ast.Break):
            yield st, Outcome('break')
            return
        if isinstance(node, ast.Continue):
            yield st, Outcome('continue')
            return
        if isinstance(node, ast.Raise):
            name = 'Exception'
            if node.exc is not None:
                e = node.exc
                if isinstance(e, ast.Call):
                    e = e.func
                if isinstance(e, ast.Name):
                    name = e.id if e.id in ('StopIteration', 'RuntimeError', 'NotImplementedError') else 'reraise:' + e.id
                else:
                    name = dotted_name(e) or 'Exception'
            yield st, self.raise_out(Exc(name, line, 'raise'))
            return
        if isinstance(node, ast.While):
            yield from self.exec_while(node, st)
            return
        if isinstance(node, ast.For):
            yield from self.exec_for(node, st)
            return
        if isinstance(node, ast.Try):
            yield from self.exec_try(node, st)
            return
        if isinstance(node, ast.Delete):
            yield from self.exec_delete(node, st)
            return
        if isinstance(node, ast.Assert):
            for s1, c in self.ev_cond(node.test, st):
                if isinstance(c, Exc):
                    yield s1, self.raise_out(c)
                    continue
                self.prove(s1, c, 'assert', line)
                yield s1, NORMAL
            return
        if isinstance(node, ast.With):
            yield from self.exec_with(node, st)
            return
        if isinstance(node, ast.FunctionDef):
            st.env[node.name] = mk_obj('localfunc', node)
            yield st, NORMAL
            return
        raise OutOfSubset('statement %s' % type(node).__name__, node)

    # ---- assignment -----------------------------------------------------------------------
    def assign(self, target, v, st, line):
        """Returns list of states."""
        if isinstance(target, ast.Name):
            gk = self.module_global_key(st, target.id)
            if gk is not None:
                # a module global that the function never binds locally (it is only mutated in
                # place, e.g. `_code_matches.append(m)`): the write-back goes to the global
                self.write_global(st, gk, self.coerce(v, self.m.globals[gk]))
                return [st]
            declared = self.local_types.get(target.id)
            if declared is not None:
                v = self.coerce(v, declared)
            st.env[target.id] = v
            return [st]
        if isinstance(target, (ast.Tuple, ast.List)):
            return self.assign_unpack(target, v, st, line)
        if isinstance(target, ast.Attribute):
            dotted = dotted_name(target)
            if dotted and dotted in self.m.globals and dotted.split('.')[0] not in st.env:
                self.write_global(st, dotted, v)
                return [st]
            out = []
            for s1, base in self.ev(target.value, st):
                if isinstance(base, Exc):
                    raise OutOfSubset('exception in assignment target', target)
                if isinstance(base.t, TObj) and base.t.kind == 'class':
                    ca = self.m.class_attrs.get((base.py, target.attr))
                    if ca and ca[0] == 'global':
                        self.write_global(s1, ca[1], v)
                        out.append(s1)
                        continue
                    raise OutOfSubset('write to class attribute %s.%s' % (base.py, target.attr), target)
                if isinstance(base.t, TOpt):
                    self.prove(s1, z3.Not(opt_is_none(base)), 'noraise', line, 'None-attribute-write')
                    base = opt_val(base)
                if not isinstance(base.t, TRef):
                    raise OutOfSubset('attribute write on %s' % base.t, target)
                self.write_field(s1, base, target.attr, v)
                if (self.field_owner(base.t.cls, target.attr), target.attr) in self.m.optional_fields:
                    self.write_field(s1, base, '__has_' + target.attr, mk_bool(True))
                s1.ghost['__fwritten__'] = set(s1.ghost.get('__fwritten__', ())) | {
                    (self.field_owner(base.t.cls, target.attr), target.attr)}
                out.append(s1)
            return out
        if isinstance(target, ast.Subscript):
            out = []
            for s1, base in self.ev(target.value, st):
                if isinstance(base, Exc):
                    raise OutOfSubset('exception in assignment target', target)
                if isinstance(target.slice, ast.Slice):
                    raise OutOfSubset('slice assignment', target)
                for s2, idx in self.ev(target.slice, s1):
                    if isinstance(idx, Exc):
                        raise OutOfSubset('exception in assignment target', target)
                    if isinstance(base.t, TDict):
                        k = self.coerce(idx, base.t.k)
                        nv = opt_some(TOpt(base.t.v), self.coerce(v, base.t.v))
                        newd = Val(base.t, z3.Store(base.e, k.e, nv.e))
                        out.extend(self.assign(target.value, newd, s2, line))
                    elif isinstance(base.t, TList):
                        n = list_len(base)
                        self.prove(s2, z3.And(-n <= idx.e, idx.e < n), 'noraise', line, 'list-index-store')
                        nv = self.coerce(v, base.t.elem)
                        newl = mk_list(base.t, n, z3.Store(list_arr(base), self.norm_index(n, idx.e), nv.e))
                        out.extend(self.assign(target.value, newl, s2, line))
                    elif isinstance(base.t, TRef) and self.field_owner(base.t.cls, '__dict__') is not None:
                        hook = self.dict_store(s2, base, idx, v, line)
                        out.append(s2)
                    else:
                        raise OutOfSubset('subscript store on %s' % base.t, target)
            return out
        raise OutOfSubset('assignment target %s' % type(target).__name__, target)

    def assign_unpack(self, target, v, st, line):
        elts = target.elts
        star = [i for i, e in enumerate(elts) if isinstance(e, ast.Starred)]
        if isinstance(v.t, TOpt):
            self.prove(st, z3.Not(opt_is_none(v)), 'noraise', line, 'unpack-None')
            v = opt_val(v)
        if isinstance(v.t, TNone):
            self.prove(st, z3.BoolVal(False), 'noraise', line, 'unpack-None')
            st.dead = True
            return []
        if isinstance(v.t, TTuple):
            n = len(v.t.elems)
            if star:
                k = star[0]
                after = len(elts) - k - 1
                if n < len(elts) - 1:
                    self.prove(st, z3.BoolVal(False), 'noraise', line, 'unpack-arity')
                    st.dead = True
                    return []
                states = [st]
                for i in range(k):
                    states = [s2 for s in states for s2 in self.assign(elts[i], tuple_get(v, i), s, line)]
                mid = [tuple_get(v, i) for i in range(k, n - after)]
                midv = self.list_literal(mid) if mid else self.list_literal([])
                states = [s2 for s in states for s2 in self.assign(elts[k].value, midv, s, line)]
                for j in range(after):
                    states = [s2 for s in states for s2 in self.assign(elts[k + 1 + j], tuple_get(v, n - after + j), s, line)]
                return states
            if n != len(elts):
                self.prove(st, z3.BoolVal(False), 'noraise', line, 'unpack-arity')
                st.dead = True
                return []
            states = [st]
            for i, e in enumerate(elts):
                states = [s2 for s in states for s2 in self.assign(e, tuple_get(v, i), s, line)]
            return states
        if isinstance(v.t, TList):
            n = list_len(v)
            if star:
                k = star[0]
                after = len(elts) - k - 1
                self.prove(st, n >= len(elts) - 1, 'noraise', line, 'unpack-arity')
                states = [st]
                for i in range(k):
                    states = [s2 for s in states for s2 in
                              self.assign(elts[i], Val(v.t.elem, z3.Select(list_arr(v), i)), s, line)]
                mid = self.slice(v, mk_int(k), mk_int(n - after), None)
                states = [s2 for s in states for s2 in self.assign(elts[k].value, mid, s, line)]
                for j in range(after):
                    states = [s2 for s in states for s2 in
                              self.assign(elts[k + 1 + j], Val(v.t.elem, z3.Select(list_arr(v), n - after + j)), s, line)]
                return states
            self.prove(st, n == len(elts), 'noraise', line, 'unpack-arity')
            states = [st]
            for i, e in enumerate(elts):
                states = [s2 for s in states for s2 in
                          self.assign(e, Val(v.t.elem, z3.Select(list_arr(v), i)), s, line)]
            return states
        raise OutOfSubset('unpack %s' % v.t, target)

    # ---- delete ---------------------------------------------------------------------------
    def exec_delete(self, node, st):
        line = node.lineno
        if len(node.targets) != 1 or not isinstance(node.targets[0], ast.Subscript):
            raise OutOfSubset('del form', node)
        t = node.targets[0]
        for s1, base in self.ev(t.value, st):
            if isinstance(base, Exc):
                yield s1, self.raise_out(base)
                continue
            if not isinstance(base.t, TList):
                raise OutOfSubset('del on %s' % base.t, node)
            n = list_len(base)
            i = z3.Int(fresh_name('di'))
            if isinstance(t.slice, ast.Slice):
                if t.slice.step is not None:
                    raise OutOfSubset('del with step', node)
                parts = [p for p in (t.slice.lower, t.slice.upper) if p is not None]
                for s2, vals in self.ev_list(parts, s1):
                    if isinstance(vals, Exc):
                        yield s2, self.raise_out(vals)
                        continue
                    it = iter(vals)
                    lo = next(it) if t.slice.lower is not None else None
                    hi = next(it) if t.slice.upper is not None else None
                    a = self.clamp(n, lo, z3.IntVal(0))
                    b = self.clamp(n, hi, n)
                    b = z3.If(b < a, a, b)
                    if self.concat_axioms:
                        newl = self.fresh_val(s2, base.t, 'del')
                        s2.assume(list_len(newl) == n - (b - a))
                        s2.assume(z3.ForAll([i], z3.Implies(z3.And(0 <= i, i < a),
                                                           z3.Select(list_arr(newl), i) == z3.Select(list_arr(base), i))))
                        j = z3.Int(fresh_name('dj'))
                        s2.assume(z3.ForAll([j], z3.Implies(z3.And(a <= j, j < n - (b - a)),
                                                           z3.Select(list_arr(newl), j) == z3.Select(list_arr(base), j + (b - a)))))
                    else:
                        arr = z3.Lambda([i], z3.If(i < a, z3.Select(list_arr(base), i),
                                                   z3.Select(list_arr(base), i + (b - a))))
                        newl = mk_list(base.t, n - (b - a), arr)
                    for s3 in self.assign(t.value, newl, s2, line):
                        yield s3, NORMAL
            else:
                for s2, idx in self.ev(t.slice, s1):
                    if isinstance(idx, Exc):
                        yield s2, self.raise_out(idx)
                        continue
                    self.prove(s2, z3.And(-n <= idx.e, idx.e < n), 'noraise', line, 'list-index-del')
                    k = self.norm_index(n, idx.e)
                    arr = z3.Lambda([i], z3.If(i < k, z3.Select(list_arr(base), i),
                                               z3.Select(list_arr(base), i + 1)))
                    newl = mk_list(base.t, n - 1, arr)
                    for s3 in self.assign(t.value, newl, s2, line):
                        yield s3, NORMAL

    # ---- try / with -----------------------------------------------------------------------
    def exec_try(self, node, st):
        if node.handlers:
            # try/except: handlers catch the named exceptions raised in the body
            for s1, out in self.exec_block(node.body, st):
                if out.kind == 'raise' and any(self.handler_matches(h, out.value) for h in node.handlers):
                    h = [h for h in node.handlers if self.handler_matches(h, out.value)][0]
                    if h.name:
                        s1.env[h.name] = mk_obj('exception', out.value)
                    for s2, out2 in self.exec_block(h.body, s1):
                        yield from self.run_finally(node, s2, out2)
                elif out.kind == 'normal' and node.orelse:
                    for s2, out2 in self.exec_block(node.orelse, s1):
                        yield from self.run_finally(node, s2, out2)
                else:
                    yield from self.run_finally(node, s1, out)
            return
        for s1, out in self.exec_block(node.body, st):
            yield from self.run_finally(node, s1, out)

    def handler_matches(self, h, exc):
        if h.type is None:
            return True
        names = [dotted_name(e) for e in (h.type.elts if isinstance(h.type, ast.Tuple) else [h.type])]
        return exc.name in names or 'Exception' in names or 'BaseException' in names

    def run_finally(self, node, st, out):
        if not node.finalbody:
            yield st, out
            return
        for s2, out2 in self.exec_block(node.finalbody, st):
            if out2.kind == 'normal':
                yield s2, out
            else:
                yield s2, out2

    def exec_with(self, node, st):
        raise OutOfSubset('with statement', node)

    # ---- loops ----------------------------------------------------------------------------
    def next_loop_contract(self, node):
        fn = self.cur_fn_stack[-1]
        k = self.loop_index[fn].get(id(node))
        if k is None:
            raise OutOfSubset('loop not indexed', node)
        c = self.m.contracts[fn]
        return k, c.loops.get(k)

    def module_global_key(self, st, name):
        if name in st.env:
            return None
        b = self.m.namespaces.get(self.cur_module, {}).get(name)
        if b and b[0] == 'global' and name in getattr(self, 'mutated_globals', ()):
            return b[1]
        return None

    def havoc_loop(self, st, body_nodes, lc, line, extra_names=()):
        names, attrs = assigned_names(body_nodes)
        implicit = {n: self.module_global_key(st, n) for n in names}
        implicit = {n: k for n, k in implicit.items() if k is not None}
        names -= set(implicit)
        # a name that is only the receiver of a mutating method call is rebound only if it holds
        # a list value (objects are mutated through the heap, the reference stays the same)
        for r in set(assigned_names.last_receivers):
            cur = st.env.get(r)
            if cur is not None and cur is not UNBOUND and isinstance(cur.t, TRef):
                names.discard(r)
        names |= set(extra_names)
        topc = self.m.contracts.get(self.cur_fn_stack[0])
        if topc is not None and len(self.cur_fn_stack) == 1 and topc.ghost_init:
            # ghost variables are havoced only when an anchor statement that updates them lies in the body
            # (a regular-expression anchor may match anything: then all of them are)
            import re as _re
            texts = set()
            for b in body_nodes:
                for sub in ast.walk(b):
                    if isinstance(sub, ast.stmt) and not isinstance(sub, (ast.If, ast.While, ast.For, ast.Try)):
                        texts.add(ast.unparse(sub))
            for pat, upd in topc.ghost_after.items():
                hit = any(_re.fullmatch(pat[3:], t) for t in texts) if pat.startswith('re:') else pat in texts
                if hit:
                    names |= {g for g, _e in upd if g in topc.ghost_init}
        for n in sorted(names):
            declared = (lc.types.get(n) if lc else None) or self.local_types.get(n)
            cur = st.env.get(n)
            if declared is not None:
                if cur is not None and cur is not UNBOUND:
                    self.coerce(cur, declared)   # type check of the entry value
                st.env[n] = self.fresh_val(st, declared, n)
            elif cur is None or cur is UNBOUND:
                st.env[n] = UNBOUND   # first assigned inside the loop: unbound at the head
            elif isinstance(cur.t, (TObj,)):
                pass
            else:
                st.env[n] = self.fresh_val(st, cur.t, n)
        # heap fields / globals written anywhere in the body (incl. callees' modifies)
        fields, globs = self.written_in(body_nodes)
        fresh_only = self.fresh_only_fields()
        for (cls, f) in sorted(fields):
            k, arr, t = self.heap_arr(st, cls, f)
            fr = z3.Const(fresh_name('H_%s_%s' % k), arr.sort())
            if k in fresh_only:
                # objects that existed at function entry keep their entry value of this field
                ea = st.ghost['__entry_heap__'].get(k, arr)
                r = z3.Int(fresh_name('r'))
                st.heap[k] = z3.Lambda([r], z3.If(r < st.ghost['__entry_alloc__'], z3.Select(ea, r), z3.Select(fr, r)))
            else:
                st.heap[k] = fr
        if fields:
            na = z3.Int(fresh_name('alloc'))
            st.assume(na >= st.alloc)
            st.alloc = na
        for g in sorted(set(globs) | set(implicit.values())):
            st.glob[g] = self.fresh_val(st, self.m.globals[g], 'G_' + g.replace('.', '_'))
        # the previously yielded value is unknown at the head of a loop whose body yields
        if '__last_yield__' in st.ghost and any(isinstance(x, (ast.Yield, ast.YieldFrom)) for b in body_nodes for x in ast.walk(b)):
            st.ghost['__last_yield__'] = self.fresh_val(st, st.ghost['__last_yield__'].t, 'lasty')
        return names

    def check_inv(self, st, lc, k, line, when, old):
        if not lc:
            return
        for j, inv in enumerate(lc.invariant):
            g = self.spec(inv, st, {}, old)
            self.prove(st, g, 'inv-' + when, line, 'loop#%d.%d' % (k, j), text=inv)

    def assume_inv(self, st, lc, old):
        if not lc:
            return
        for inv in lc.invariant:
            st.assume(self.spec(inv, st, {}, old))

    def variant(self, st, lc, old):
        if not lc or lc.decreases is None:
            return None
        ds = lc.decreases if isinstance(lc.decreases, (list, tuple)) else [lc.decreases]
        return [self.spec_val(d, st, {}, old).e for d in ds]

    def check_variant(self, st, before, lc, k, line, old):
        after = self.variant(st, lc, old)
        if before is None:
            return
        # lexicographic decrease, every component bounded below by 0 at the loop head
        dec = z3.BoolVal(False)
        eq_prefix = z3.BoolVal(True)
        for b, a in zip(before, after):
            dec = z3.Or(dec, z3.And(eq_prefix, a < b))
            eq_prefix = z3.And(eq_prefix, a == b)
        self.prove(st, dec, 'variant-decreases', line, 'loop#%d' % k,
                   text=str(lc.decreases))

    def exec_while(self, node, st):
        line = node.lineno
        k, lc = self.next_loop_contract(node)
        if lc is None:
            raise OutOfSubset('loop#%d has no contract' % k, node)
        entry_old = self.fn_old
        if lc.unroll:
            yield from self.exec_while_unrolled(node, st, lc.unroll, k)
            return
        st.ghost['__loop_entry__%d' % k] = st.fork()
        self.check_inv(st, lc, k, line, 'entry', entry_old)
        head = st.fork()
        self.havoc_loop(head, node.body + [ast.Expr(node.test)], lc, line)
        self.assume_inv(head, lc, entry_old)
        if not solve.feasible(head.pc):
            self.covers.append(('loop#%d head unreachable' % k, self.cur_fn))
        before = self.variant(head, lc, entry_old)
        if before is not None:
            for b in before:
                pass
        for s1, c in self.ev_cond(node.test, head):
            if isinstance(c, Exc):
                yield s1, self.raise_out(c)
                continue
            for s2, truth in self.split(s1, c, node.test):
                if not truth:
                    if node.orelse:
                        yield from self.exec_block(node.orelse, s2)
                    else:
                        yield s2, NORMAL
                    continue
                if before is not None:
                    self.prove(s2, z3.And(*[b >= 0 for b in before]), 'variant-bounded', line,
                               'loop#%d' % k, text=str(lc.decreases))
                for s3, out in self.exec_block(node.body, s2):
                    if out.kind in ('normal', 'continue'):
                        self.check_inv(s3, lc, k, line, 'preserved', entry_old)
                        self.check_variant(s3, before, lc, k, line, entry_old)
                    elif out.kind == 'break':
                        yield s3, NORMAL
                    else:
                        yield s3, out

    def exec_while_unrolled(self, node, st, bound, k):
        line = node.lineno

        def go(s, depth):
            for s1, c in self.ev_cond(node.test, s):
                if isinstance(c, Exc):
                    yield s1, self.raise_out(c)
                    continue
                for s2, truth in self.split(s1, c, node.test):
                    if not truth:
                        yield s2, NORMAL
                        continue
                    if depth == bound:
                        self.prove(s2, z3.BoolVal(False), 'unwinding', line, 'loop#%d' % k)
                        continue
                    for s3, out in self.exec_block(node.body, s2):
                        if out.kind in ('normal', 'continue'):
                            yield from go(s3, depth + 1)
                        elif out.kind == 'break':
                            yield s3, NORMAL
                        else:
                            yield s3, out
        yield from go(st, 0)

    def exec_for(self, node, st):
        line = node.lineno
        k, lc = self.next_loop_contract(node)
        for s0, it in self.ev_iter(node.iter, st):
            if isinstance(it, Exc):
                yield s0, self.raise_out(it)
                continue
            yield from self.exec_for_over(node, s0, it, k, lc)

    def ev_iter(self, iter_node, st):
        """Evaluate the iterable of a for loop into an iteration descriptor."""
        if isinstance(iter_node, ast.Call) and isinstance(iter_node.func, ast.Name) \
                and iter_node.func.id in ('enumerate', 'range', 'reversed') and iter_node.func.id not in st.env:
            fname = iter_node.func.id
            if fname == 'enumerate':
                start_node = None
                for kw in iter_node.keywords:
                    if kw.arg == 'start':
                        start_node = kw.value
                if len(iter_node.args) == 2:
                    start_node = iter_node.args[1]
                nodes = [iter_node.args[0]] + ([start_node] if start_node is not None else [])
                for s1, vals in self.ev_list(nodes, st):
                    if isinstance(vals, Exc):
                        yield s1, vals
                        continue
                    start = vals[1] if len(vals) > 1 else mk_int(0)
                    yield s1, ('enumerate', vals[0], start)
                return
            if fname == 'range':
                for s1, vals in self.ev_list(iter_node.args, st):
                    if isinstance(vals, Exc):
                        yield s1, vals
                        continue
                    if len(vals) == 1:
                        yield s1, ('range', mk_int(0), vals[0])
                    elif len(vals) == 2:
                        yield s1, ('range', vals[0], vals[1])
                    else:
                        raise OutOfSubset('range with step', iter_node)
                return
            if fname == 'reversed':
                for s1, v in self.ev(iter_node.args[0], st):
                    if isinstance(v, Exc):
                        yield s1, v
                        continue
                    if isinstance(v.t, TStr):
                        yield s1, ('revstr', v)
                    else:
                        yield s1, ('seq', self.slice(v, None, None, mk_int(-1), iter_node))
                return
        for s1, v in self.ev(iter_node, st):
            if isinstance(v, Exc):
                yield s1, v
            elif isinstance(v.t, TRef) and self.method_key(v.t.cls, '__next__'):
                yield s1, ('iterator', v)
            elif isinstance(v.t, TRef) and v.t.cls in self.m.listlike:
                # a list subclass modelled as an object holding its items
                yield s1, ('seq', self.read_field(s1, v, self.m.listlike[v.t.cls]))
            else:
                yield s1, ('seq', v)

    def seq_len_item(self, desc):
        kind = desc[0]
        if kind == 'range':
            lo, hi = desc[1], desc[2]
            n = z3.If(hi.e - lo.e > 0, hi.e - lo.e, 0)
            return n, lambda i: mk_int(lo.e + i)
        if kind == 'revstr':
            s = desc[1]
            n = z3.Length(s.e)
            return n, lambda i: mk_str(z3.SubString(s.e, n - 1 - i, 1))
        seq = desc[1]
        if isinstance(seq.t, TOpt):
            seq = opt_val(seq)
        if isinstance(seq.t, TStr):
            n = z3.Length(seq.e)
            item = lambda i: mk_str(z3.SubString(seq.e, i, 1))
        elif isinstance(seq.t, TList):
            n = list_len(seq)
            item = lambda i: Val(seq.t.elem, z3.Select(list_arr(seq), i))
        elif isinstance(seq.t, TTuple):
            raise OutOfSubset('for over tuple (unroll not implemented)')
        else:
            raise OutOfSubset('for over %s' % seq.t)
        if kind == 'enumerate':
            start = desc[2]
            return n, lambda i: mk_tuple([mk_int(start.e + i), item(i)])
        return n, item

    def exec_for_over(self, node, st, desc, k, lc):
        line = node.lineno
        entry_old = self.fn_old
        if desc[0] == 'iterator':
            yield from self.exec_for_iterator(node, st, desc[1], k, lc)
            return
        if desc[0] == 'seq' and isinstance(desc[1].t, TTuple):
            yield from self.exec_for_tuple(node, st, desc[1])
            return
        if desc[0] == 'seq' and isinstance(desc[1].t, TOpt):
            self.prove(st, z3.Not(opt_is_none(desc[1])), 'noraise', line, 'None-iteration')
        n, item = self.seq_len_item(desc)
        kname = '_k%d' % k
        # entry: k = 0
        st.env[kname] = mk_int(0)
        st.env['_n%d' % k] = mk_int(n)
        if lc is None:
            if getattr(self.m.contracts.get(self.cur_fn_stack[-1]), 'auto_inlined', False):
                # a helper executed in place because it has no contract: nothing to abstract its loop by
                raise OutOfSubset('loop#%d in a function without contract' % k, node)
            lc = Loop()
        st.ghost['__loop_entry__%d' % k] = st.fork()
        self.check_inv(st, lc, k, line, 'entry', entry_old)
        head = st.fork()
        tnames, _ = assigned_names([ast.Assign(targets=[node.target], value=ast.Constant(0))])
        # loop targets: bound iff at least one iteration has completed
        saved_targets = {t: head.env.get(t) for t in tnames}
        self.havoc_loop(head, node.body, lc, line)
        kk = z3.Int(fresh_name(kname))
        head.env[kname] = mk_int(kk)
        head.assume(z3.And(0 <= kk, kk <= n))
        self.assume_inv(head, lc, entry_old)
        # (a) exhausted
        ex = head.fork()
        ex.assume(kk == n)
        if solve.feasible(ex.pc):
            # targets hold the last item if n >= 1, otherwise their value from before the loop
            for s2, nonempty in self.split(ex, n >= 1):
                if nonempty:
                    for s3 in self.assign(node.target, item(n - 1), s2, line):
                        self._after_for(s3, kname)
                        if node.orelse:
                            yield from self.exec_block(node.orelse, s3)
                        else:
                            yield s3, NORMAL
                else:
                    for t, v in saved_targets.items():
                        if v is None:
                            s2.env[t] = UNBOUND
                        else:
                            s2.env[t] = v
                    self._after_for(s2, kname)
                    if node.orelse:
                        yield from self.exec_block(node.orelse, s2)
                    else:
                        yield s2, NORMAL
        # (b) one more iteration
        it = head.fork()
        it.assume(kk < n)
        if solve.feasible(it.pc):
            for s2 in self.assign(node.target, item(kk), it, line):
                for s3, out in self.exec_block(node.body, s2):
                    if out.kind in ('normal', 'continue'):
                        s3.env[kname] = mk_int(kk + 1)
                        self.check_inv(s3, lc, k, line, 'preserved', entry_old)
                    elif out.kind == 'break':
                        self._after_for(s3, kname, keep=True)
                        yield s3, NORMAL
                    else:
                        yield s3, out

    def _after_for(self, st, kname, keep=False):
        pass

    def exec_for_tuple(self, node, st, tup):
        def go(i, s):
            if i == len(tup.t.elems):
                if node.orelse:
                    yield from self.exec_block(node.orelse, s)
                else:
                    yield s, NORMAL
                return
            for s2 in self.assign(node.target, tuple_get(tup, i), s, node.lineno):
                for s3, out in self.exec_block(node.body, s2):
                    if out.kind in ('normal', 'continue'):
                        yield from go(i + 1, s3)
                    elif out.kind == 'break':
                        yield s3, NORMAL
                    else:
                        yield s3, out
        yield from go(0, st)

    def exec_for_iterator(self, node, st, itv, k, lc):
        """for x in <object with __next__>: each iteration calls __next__; StopIteration ends."""
        line = node.lineno
        entry_old = self.fn_old
        if lc is None:
            raise OutOfSubset('iterator loop#%d needs a contract' % k, node)
        kname = '_k%d' % k
        st.env[kname] = mk_int(0)
        st.ghost['__loop_entry__%d' % k] = st.fork()
        self.check_inv(st, lc, k, line, 'entry', entry_old)
        head = st.fork()
        nextc = self.m.contracts[self.method_key(itv.t.cls, '__next__')]
        tnames, _ = assigned_names([ast.Assign(targets=[node.target], value=ast.Constant(0))])
        saved_targets = {t: head.env.get(t) for t in tnames}
        self.havoc_loop(head, node.body, lc, line, extra_names=tnames)
        for (cls, f) in self.contract_fields(nextc):
            kk_, arr, t = self.heap_arr(head, cls, f)
            head.heap[kk_] = z3.Const(fresh_name('H_%s_%s' % kk_), arr.sort())
        kk = z3.Int(fresh_name(kname))
        head.env[kname] = mk_int(kk)
        head.assume(kk >= 0)
        for t, v in saved_targets.items():
            # bound to some earlier item when kk >= 1; we keep it havoced (typed) if it was typed
            pass
        self.assume_inv(head, lc, entry_old)
        before = self.variant(head, lc, entry_old)
        for s1, r in self.call_contract(head, nextc, [itv], {}, node, catch=('StopIteration',)):
            if isinstance(r, Exc):
                if r.name == 'StopIteration':
                    if node.orelse:
                        yield from self.exec_block(node.orelse, s1)
                    else:
                        yield s1, NORMAL
                else:
                    yield s1, self.raise_out(r)
                continue
            if before is not None:
                self.prove(s1, z3.And(*[b >= 0 for b in before]), 'variant-bounded', line,
                           'loop#%d' % k, text=str(lc.decreases))
            for s2 in self.assign(node.target, r, s1, line):
                for s3, out in self.exec_block(node.body, s2):
                    if out.kind in ('normal', 'continue'):
                        s3.env[kname] = mk_int(kk + 1)
                        self.check_inv(s3, lc, k, line, 'preserved', entry_old)
                        self.check_variant(s3, before, lc, k, line, entry_old)
                    elif out.kind == 'break':
                        yield s3, NORMAL
                    else:
                        yield s3, out


def _as_load(t):
    t2 = ast.parse(ast.unparse(t), mode='eval').body
    return t2
