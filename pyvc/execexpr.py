"""Code-mode (forking) expression evaluation.  Mixed into Executor."""
import os
import ast
import z3
from .types import *  # noqa
from .engine import Engine, OutOfSubset, Exc, UNBOUND, dotted_name
from . import solve


class ExprMixin:
    # ev(node, st) yields (state, Val | Exc); it may fork the state.

    def ev(self, node, st):
        line = getattr(node, 'lineno', 0)
        if isinstance(node, ast.Constant):
            yield st, self.const(node.value, node)
            return
        if isinstance(node, ast.Name):
            v = self.lookup_name(st, node.id, node)
            if v is None:
                if (node.id in st.env and st.env[node.id] is UNBOUND) or \
                        (node.id not in st.env and node.id in getattr(self, 'fn_locals', ()) and len(self.cur_fn_stack) == 1):
                    self.prove(st, z3.BoolVal(False), 'noraise', line, 'unbound-local:' + node.id)
                    st.dead = True
                    return
                raise OutOfSubset('unknown name %s' % node.id, node)
            yield st, v
            return
        if isinstance(node, ast.BoolOp):
            yield from self.ev_boolop(node, st)
            return
        if isinstance(node, ast.UnaryOp):
            if isinstance(node.op, ast.Not):
                for s1, c in self.ev_cond(node.operand, st):
                    if isinstance(c, Exc):
                        yield s1, c
                    else:
                        yield s1, mk_bool(z3.Not(c))
                return
            if isinstance(node.op, ast.USub):
                for s1, v in self.ev(node.operand, st):
                    yield s1, (v if isinstance(v, Exc) else mk_int(-v.e))
                return
        if isinstance(node, ast.IfExp):
            for s1, c in self.ev_cond(node.test, st):
                if isinstance(c, Exc):
                    yield s1, c
                    continue
                for s2, truth in self.split(s1, c, node.test):
                    yield from self.ev(node.body if truth else node.orelse, s2)
            return
        if isinstance(node, ast.Compare):
            yield from self.ev_compare(node, st)
            return
        if isinstance(node, ast.BinOp):
            for s1, a in self.ev(node.left, st):
                if isinstance(a, Exc):
                    yield s1, a
                    continue
                for s2, b in self.ev(node.right, s1):
                    if isinstance(b, Exc):
                        yield s2, b
                        continue
                    a2, b2 = self.unwrap_for_arith(s2, a, line), self.unwrap_for_arith(s2, b, line)
                    yield s2, self.binop(node.op, a2, b2, s2, line, node)
            return
        if isinstance(node, ast.Attribute):
            dotted = dotted_name(node)
            if dotted and dotted in self.m.globals and dotted.split('.')[0] not in st.env:
                yield st, self.read_global(st, dotted)
                return
            for s1, base in self.ev(node.value, st):
                if isinstance(base, Exc):
                    yield s1, base
                    continue
                if isinstance(base.t, TRef):
                    key = self.method_key(base.t.cls, node.attr)
                    if key and self.field_owner(base.t.cls, node.attr) is None \
                            and getattr(self.m.contracts[key], 'is_property', False):
                        yield from self.call_contract(s1, self.m.contracts[key], [base], {}, node)
                        continue
                yield s1, self.attr_read(s1, base, node.attr, line, node)
            return
        if isinstance(node, ast.Subscript):
            for s1, base in self.ev(node.value, st):
                if isinstance(base, Exc):
                    yield s1, base
                    continue
                if isinstance(node.slice, ast.Slice):
                    parts = [node.slice.lower, node.slice.upper, node.slice.step]
                    for s2, vals in self.ev_list([p for p in parts if p is not None], s1):
                        if isinstance(vals, Exc):
                            yield s2, vals
                            continue
                        it = iter(vals)
                        lo = next(it) if parts[0] is not None else None
                        hi = next(it) if parts[1] is not None else None
                        step = next(it) if parts[2] is not None else None
                        if isinstance(base.t, TStr) and step is None:
                            # ghost: bounds of the most recent string slice (for tiling assertions)
                            s2.env['_slice_lo'] = lo if (lo is not None and isinstance(lo.t, TInt)) else mk_int(0)
                            s2.env['_slice_hi'] = hi if (hi is not None and isinstance(hi.t, TInt)) else mk_int(z3.Length(base.e))
                        res = self.slice(base, lo, hi, step, node)
                        if isinstance(base.t, TStr) and step is None and getattr(self, 'slice_axioms', False):
                            # valid in the theory of sequences, stated so that E-matching can use it:
                            # the characters of s[a:b] are the characters of s from a on
                            n = z3.Length(base.e)
                            a = self.clamp(n, lo, z3.IntVal(0))
                            k = z3.Int(fresh_name('sk'))
                            s2.assume(z3.ForAll([k], z3.Implies(z3.And(0 <= k, k < z3.Length(res.e)),
                                                                z3.SubString(res.e, k, 1) == z3.SubString(base.e, a + k, 1))))
                        yield s2, res
                    continue
                for s2, idx in self.ev(node.slice, s1):
                    if isinstance(idx, Exc):
                        yield s2, idx
                        continue
                    yield s2, self.index(s2, base, idx, line, node)
            return
        if isinstance(node, ast.Tuple):
            for s1, vals in self.ev_list(node.elts, st):
                yield s1, (vals if isinstance(vals, Exc) else mk_tuple(vals))
            return
        if isinstance(node, ast.List):
            for s1, vals in self.ev_list(node.elts, st):
                yield s1, (vals if isinstance(vals, Exc) else self.list_literal(vals))
            return
        if isinstance(node, ast.Set):
            vals = []
            for e in node.elts:
                if not (isinstance(e, ast.Constant) and isinstance(e.value, str)):
                    raise OutOfSubset('non-literal set', node)
                vals.append(e.value)
            yield st, mk_obj('charset', frozenset(vals))
            return
        if isinstance(node, ast.ListComp):
            yield from self.ev_listcomp(node, st)
            return
        if isinstance(node, ast.Dict) and not node.keys:
            yield st, mk_obj('dict', 'empty')
            return
        if isinstance(node, ast.Call):
            yield from self.ev_call(node, st)
            return
        if isinstance(node, ast.Starred):
            raise OutOfSubset('starred expression', node)
        raise OutOfSubset('expression %s' % type(node).__name__, node)

    def unwrap_for_arith(self, st, v, line):
        if isinstance(v.t, TOpt):
            self.prove(st, z3.Not(opt_is_none(v)), 'noraise', line, 'None-operand')
            return opt_val(v)
        return v

    def ev_list(self, nodes, st):
        """Evaluate nodes left to right; yields (state, [vals]) or (state, Exc)."""
        if not nodes:
            yield st, []
            return
        for s1, v in self.ev(nodes[0], st):
            if isinstance(v, Exc):
                yield s1, v
                continue
            for s2, rest in self.ev_list(nodes[1:], s1):
                if isinstance(rest, Exc):
                    yield s2, rest
                else:
                    yield s2, [v] + rest

    # ---- conditions with narrowing ---------------------------------------------------------
    def split(self, st, cond, node=None):
        """Fork on a z3 Bool; yields (state, truth) for feasible sides; narrows Optionals."""
        c = z3.simplify(cond)
        if z3.is_true(c):
            self.narrow(st, node, True)
            yield st, True
            return
        if z3.is_false(c):
            self.narrow(st, node, False)
            yield st, False
            return
        for truth in (True, False):
            s = st.fork()
            s.assume(cond if truth else z3.Not(cond))
            if solve.feasible(s.pc):
                self.narrow(s, node, truth)
                yield s, truth

    def narrow(self, st, node, truth):
        """After learning the truth of test `node`, unwrap Optional-typed locals."""
        if node is None:
            return
        if isinstance(node, ast.UnaryOp) and isinstance(node.op, ast.Not):
            self.narrow(st, node.operand, not truth)
            return
        name = None
        notnone = None
        if isinstance(node, ast.Name):
            name = node.id
            notnone = truth      # truthy -> not None ; falsy says nothing about None-ness
            if not truth:
                return
        elif isinstance(node, ast.Compare) and len(node.ops) == 1 and isinstance(node.left, ast.Name) \
                and isinstance(node.comparators[0], ast.Constant) and node.comparators[0].value is None:
            name = node.left.id
            if isinstance(node.ops[0], (ast.Is, ast.Eq)):
                notnone = not truth
            elif isinstance(node.ops[0], (ast.IsNot, ast.NotEq)):
                notnone = truth
            else:
                return
        else:
            return
        v = st.env.get(name)
        if v is None or v is UNBOUND or not isinstance(v.t, TOpt):
            return
        if notnone:
            st.env[name] = opt_val(v)
        else:
            st.env[name] = NONE_VAL

    def ev_cond(self, node, st):
        """Yields (state, z3 Bool | Exc) for a test expression (no narrowing yet)."""
        for s1, v in self.ev(node, st):
            if isinstance(v, Exc):
                yield s1, v
            else:
                yield s1, self.truthy(v)

    def ev_boolop(self, node, st):
        is_and = isinstance(node.op, ast.And)

        def go(i, s):
            if i == len(node.values) - 1:
                yield from self.ev(node.values[i], s)
                return
            for s1, v in self.ev(node.values[i], s):
                if isinstance(v, Exc):
                    yield s1, v
                    continue
                for s2, truth in self.split(s1, self.truthy(v), node.values[i]):
                    if truth == is_and:
                        yield from go(i + 1, s2)
                    else:
                        vv = v
                        if isinstance(node.values[i], ast.Name):
                            nv = s2.env.get(node.values[i].id)
                            if nv is not None and nv is not UNBOUND:
                                vv = nv      # narrowed (e.g. Optional unwrapped on the truthy side)
                        yield s2, vv
        yield from go(0, st)

    def ev_compare(self, node, st):
        def go(left, i, s, acc):
            if i == len(node.ops):
                yield s, mk_bool(z3.And(*acc) if len(acc) > 1 else acc[0])
                return
            for s1, right in self.ev(node.comparators[i], s):
                if isinstance(right, Exc):
                    yield s1, right
                    continue
                c = self.compare(node.ops[i], left, right, s1, getattr(node, 'lineno', 0))
                if i + 1 < len(node.ops):
                    # chained comparison short-circuits
                    for s2, truth in self.split(s1, c):
                        if truth:
                            yield from go(right, i + 1, s2, acc + [c])
                        else:
                            yield s2, mk_bool(False)
                else:
                    yield from go(right, i + 1, s1, acc + [c])
        for s0, left in self.ev(node.left, st):
            if isinstance(left, Exc):
                yield s0, left
                continue
            yield from go(left, 0, s0, [])

    # ---- list comprehensions ----------------------------------------------------------------
    def ev_listcomp(self, node, st):
        """[f(x) for x in xs (if c)] for effect-free element expressions.
        Unfiltered: result[i] == f(xs[i]) via a lambda array when f is expressible per index;
        otherwise a fresh list with only the length relation (an over-approximation that is
        sound for the safety obligations that consume it)."""
        if len(node.generators) != 1:
            raise OutOfSubset('nested comprehension', node)
        gen = node.generators[0]
        it = gen.iter
        if isinstance(it, ast.Call) and isinstance(it.func, ast.Name) and it.func.id == 'enumerate' \
                and 'enumerate' not in st.env and 1 <= len(it.args) <= 2:
            # enumerate(xs, start=k): the list of pairs (k + i, xs[i])
            start_node = it.args[1] if len(it.args) == 2 else None
            for kw in it.keywords:
                if kw.arg == 'start':
                    start_node = kw.value
                else:
                    raise OutOfSubset('enumerate keyword %s' % kw.arg, node)
            for s1, xs in self.ev(it.args[0], st):
                if isinstance(xs, Exc):
                    yield s1, xs
                    continue
                if isinstance(xs.t, TOpt):
                    self.prove(s1, z3.Not(opt_is_none(xs)), 'noraise', node.lineno, 'None-iteration')
                    xs = opt_val(xs)
                if not isinstance(xs.t, TList):
                    raise OutOfSubset('enumerate over %s' % xs.t, node)
                starts = [(s1, mk_int(0))] if start_node is None else list(self.ev(start_node, s1))
                for s2, k0 in starts:
                    if isinstance(k0, Exc):
                        yield s2, k0
                        continue
                    j = z3.Int(fresh_name('en'))
                    pt = TTuple([INT, xs.t.elem])
                    pair = mk_tuple([mk_int(k0.e + j), Val(xs.t.elem, z3.Select(list_arr(xs), j))])
                    pairs = mk_list(TList(pt), list_len(xs), z3.Lambda([j], pair.e))
                    yield from self.listcomp_over(node, gen, pairs, s2)
            return
        if isinstance(it, ast.Call) and isinstance(it.func, ast.Name) and it.func.id == 'zip_longest' \
                and 'zip_longest' not in st.env and len(it.args) == 2 and not it.keywords:
            # itertools.zip_longest(a, b): max(len a, len b) pairs, the shorter side filled with None
            # (an absent element and a None element are the same value, as in Python)
            for s1, vals in self.ev_list(list(it.args), st):
                if isinstance(vals, Exc):
                    yield s1, vals
                    continue
                a, b = vals
                if not isinstance(a.t, TList) or not isinstance(b.t, TList):
                    raise OutOfSubset('zip_longest over %s, %s' % (a.t, b.t), node)
                def opt_of(t):
                    return t if isinstance(t, TOpt) else TOpt(t)
                ta, tb = opt_of(a.t.elem), opt_of(b.t.elem)
                j = z3.Int(fresh_name('zl'))
                def side(x, tx):
                    el = Val(x.t.elem, z3.Select(list_arr(x), j))
                    some = el.e if isinstance(x.t.elem, TOpt) else opt_some(tx, el).e
                    return Val(tx, z3.If(j < list_len(x), some, opt_none(tx).e))
                pair = mk_tuple([side(a, ta), side(b, tb)])
                la, lb = list_len(a), list_len(b)
                pairs = mk_list(TList(TTuple([ta, tb])), z3.If(la >= lb, la, lb), z3.Lambda([j], pair.e))
                yield from self.listcomp_over(node, gen, pairs, s1)
            return
        for s1, src in self.ev(gen.iter, st):
            if isinstance(src, Exc):
                yield s1, src
                continue
            yield from self.listcomp_over(node, gen, src, s1)

    def listcomp_over(self, node, gen, src, st):
        line = node.lineno
        if isinstance(src.t, TOpt):
            self.prove(st, z3.Not(opt_is_none(src)), 'noraise', line, 'None-iteration')
            src = opt_val(src)
        if not isinstance(src.t, TList):
            raise OutOfSubset('comprehension over %s' % src.t, node)
        if getattr(src, 'py', None) == 'emptylit':
            yield st, self.list_literal([])
            return
        n = list_len(src)
        # evaluate the element (and filters) at a symbolic index i
        i = z3.Int(fresh_name('lc'))
        probe = st.fork()
        probe.assume(z3.And(0 <= i, i < n))
        self.bind_comp_target(gen.target, Val(src.t.elem, z3.Select(list_arr(src), i)), probe, line)
        states = [probe]
        for c in gen.ifs:
            nxt = []
            for s in states:
                for s2, v in self.ev(c, s):
                    if isinstance(v, Exc):
                        raise OutOfSubset('comprehension filter may raise', node)
                    nxt.append(s2)
            states = nxt
        results = []
        if not gen.ifs and len(states) == 1 and self.is_ctor_call(node.elt, probe):
            yield from self.listcomp_ctor(node, gen, src, st, probe, i, n)
            return
        for s in states:
            for s2, v in self.ev(node.elt, s):
                if isinstance(v, Exc):
                    raise OutOfSubset('comprehension element may raise', node)
                if s2.heap != st.heap or any(s2.glob.get(k) is not st.glob.get(k) for k in st.glob):
                    raise OutOfSubset('comprehension element has effects', node)
                results.append((s2, v))
        if not results:
            yield st, self.list_literal([])
            return
        t0 = results[0][1].t
        if any(v.t != t0 for _, v in results):
            raise OutOfSubset('comprehension element types differ', node)
        if isinstance(t0, TObj):
            raise OutOfSubset('comprehension of non-encodable elements', node)
        rt = TList(t0)
        if not gen.ifs and len(results) == 1 and results[0][0] is probe and len(probe.pc) == len(st.pc) + 1:
            yield st, mk_list(rt, n, z3.Lambda([i], results[0][1].e))
            return
        base_n = len(st.pc) + 1
        if not gen.ifs and all(s2.pc[:base_n] == probe.pc[:base_n] or True for s2, _ in results) \
                and all(not solve.has_quantifier(f) for s2, _ in results for f in s2.pc[base_n:]):
            # the element forks on conditions (e.g. a conditional expression): combine the
            # alternatives into one term guarded by their path conditions
            term = results[-1][1].e
            for s2, v in reversed(results[:-1]):
                cond = z3.And(*s2.pc[base_n:]) if len(s2.pc) > base_n else z3.BoolVal(True)
                term = z3.If(cond, v.e, term)
            yield st, mk_list(rt, n, z3.Lambda([i], term))
            return
        r = self.fresh_val(st, rt, 'comp')
        if gen.ifs:
            st.assume(list_len(r) <= n)
        else:
            st.assume(list_len(r) == n)
        yield st, r

    def is_ctor_call(self, elt, st):
        if not isinstance(elt, ast.Call) or not isinstance(elt.func, ast.Name) or elt.func.id in st.env:
            return False
        v = self.lookup_name(st, elt.func.id)
        return v is not None and isinstance(v.t, TObj) and v.t.kind == 'class' \
            and self.class_method_key(v.py, '__init__') is not None

    def listcomp_ctor(self, node, gen, src, st, probe, i, n):
        """[Cls(args(x)) for x in xs]: n objects are allocated at consecutive references a0 .. a0+n-1.
        The constructor contract is applied once at a symbolic index i (its precondition is proved
        there, for every 0 <= i < n); what it guarantees about object a0+i is then assumed for all i,
        with every value the probe invented re-expressed as a function of i (Skolem functions) and
        the written fields read from fresh per-field arrays over the new region.  Objects that existed
        before keep all their fields."""
        line = node.lineno
        a0 = st.alloc
        mark = fresh_name('mark')
        mark_n = int(mark.split('!')[1])
        # address of the i-th new object: a0 + i when the constructor allocates nothing else,
        # otherwise an unknown address newobj(i) >= a0 (the objects the constructor allocates itself
        # lie between the new objects)
        afn = z3.Function(fresh_name('newobj'), z3.IntSort(), z3.IntSort())
        ai = afn(i)
        probe.assume(ai >= a0)
        probe.alloc = ai
        pc0 = len(probe.pc)
        heap0 = dict(probe.heap)
        glob0 = dict(probe.glob)
        call = node.elt
        if any(isinstance(x, ast.Starred) for x in call.args) or any(k.arg is None for k in call.keywords):
            raise OutOfSubset('star-args constructor in a comprehension', node)
        # the arguments are evaluated first, each as one value (conditional expressions are merged
        # into an if-then-else term over their path conditions); they must be effect-free
        argvals = []
        for an in list(call.args) + [k.value for k in call.keywords]:
            alts = []
            for s2, v in self.ev(an, probe.fork()):
                if isinstance(v, Exc):
                    raise OutOfSubset('constructor argument may raise in a comprehension', node)
                if s2.heap != probe.heap and any(not s2.heap[k].eq(probe.heap[k]) for k in s2.heap if k in probe.heap):
                    raise OutOfSubset('constructor argument has effects', node)
                alts.append((s2, v))
            if not alts:
                raise OutOfSubset('constructor argument has no value', node)
            t0 = alts[0][1].t
            if any(v.t != t0 for _, v in alts):
                try:
                    uni = alts[0][1]
                    for _, v in alts[1:]:
                        uni, _ = self.unify(uni, v)
                    t0 = uni.t
                    alts = [(s2, self.coerce(v, t0)) for s2, v in alts]
                except OutOfSubset:
                    raise OutOfSubset('constructor argument types differ', node)
            term = alts[-1][1]
            if len(alts) > 1:
                if isinstance(t0, (TObj, TNone)):
                    raise OutOfSubset('conditional non-encodable constructor argument', node)
                # the quantifier-free new conjuncts of each alternative are its branch condition; they must
                # tell the alternatives apart (pairwise exclusive, jointly exhaustive) - then the remaining
                # (quantified) conjuncts of an alternative are facts that hold whenever its condition does
                base_n = len(probe.pc)
                conds, qfacts = [], []
                for s2, v in alts:
                    extra = s2.pc[base_n:]
                    conds.append(z3.And(*[f for f in extra if not solve.has_quantifier(f)]) if extra else z3.BoolVal(True))
                    qfacts.append([f for f in extra if solve.has_quantifier(f)])
                ctx = [f for f in probe.pc if not solve.has_quantifier(f)]
                if os.environ.get('PYVC_TRACE'):
                    for s2, v in alts:
                        print('TRACE   extra:', [str(f)[:150].replace(chr(10), ' ') for f in s2.pc[base_n:]], 'pc', len(s2.pc), base_n, flush=True)
                    print('TRACE ctor-arg', ast.unparse(an)[:60], 'alts', [(str(z3.simplify(c))[:200], str(v.t)) for c, (_, v) in zip(conds, alts)], flush=True)
                for a_ in range(len(conds)):
                    for b_ in range(a_ + 1, len(conds)):
                        if solve.feasible(ctx + [conds[a_], conds[b_]]):
                            if os.environ.get('PYVC_TRACE'):
                                print('TRACE ctor-arg alternatives overlap:', z3.simplify(conds[a_]), '|||', z3.simplify(conds[b_]), flush=True)
                            raise OutOfSubset('constructor argument alternatives are not told apart by quantifier-free conditions', node)
                # where no alternative's condition holds (the conditions carry callee facts the solver may
                # not be able to establish) the value is left unconstrained
                e = fresh(t0, 'ctorarg').e
                for k_ in range(len(alts) - 1, -1, -1):
                    e = z3.If(conds[k_], alts[k_][1].e, e)
                term = Val(t0, e)
                for k_ in range(len(alts)):
                    for f in qfacts[k_]:
                        probe.assume(z3.Implies(conds[k_], f))
            else:
                # single path: keep the facts it assumed (postconditions of pure callees)
                for f in alts[0][0].pc[len(probe.pc):]:
                    probe.assume(f)
            argvals.append(term)
        pos = argvals[:len(call.args)]
        kw = {k.arg: v for k, v in zip(call.keywords, argvals[len(call.args):])}
        clsv = self.lookup_name(probe, call.func.id)
        outs = list(self.construct(probe, clsv.py, pos, kw, call))
        if len(outs) != 1 or isinstance(outs[0][1], Exc) or outs[0][0] is not probe:
            raise OutOfSubset('constructor element forks or may raise', node)
        ref = outs[0][1]
        if not isinstance(ref.t, TRef):
            raise OutOfSubset('constructor element is not an object', node)
        consecutive = z3.simplify(probe.alloc - (ai + 1)).eq(z3.IntVal(0))
        alloc_after = None
        if not consecutive:
            alloc_after = z3.Int(fresh_name('alloc'))
            st.assume(alloc_after >= a0 + n)
        if any(probe.glob.get(k) is not glob0.get(k) for k in set(glob0) | set(probe.glob)):
            raise OutOfSubset('constructor in a comprehension writes global state', node)
        facts = probe.pc[pc0:]
        changed = [k for k in probe.heap if k not in heap0 or not probe.heap[k].eq(heap0[k])]
        subst = []
        regions = []
        r = z3.Int(fresh_name('r'))
        for k in changed:
            base = heap0.get(k)
            if base is None:
                base = self.heap_arr(st, k[0], k[1])[1]
            region = z3.Const(fresh_name('HC_%s_%s' % k), probe.heap[k].sort())
            regions.append(region)
            stored = z3.simplify(z3.Select(probe.heap[k], ai))
            facts = facts + [z3.Select(region, ai) == stored]
            if consecutive:
                st.heap[k] = z3.Lambda([r], z3.If(z3.And(a0 <= r, r < a0 + n), z3.Select(region, r), z3.Select(base, r)))
            else:
                st.heap[k] = z3.Lambda([r], z3.If(a0 <= r, z3.Select(region, r), z3.Select(base, r)))
        # every constant invented during the probe becomes a function of i
        stored_ids = regions
        seen = {}
        def consts(e):
            todo = [e]
            while todo:
                x = todo.pop()
                if z3.is_const(x) and x.decl().kind() == z3.Z3_OP_UNINTERPRETED:
                    nm = x.decl().name()
                    if '!' in nm:
                        try:
                            idx = int(nm.rsplit('!', 1)[1])
                        except ValueError:
                            idx = -1
                        if idx > mark_n and not x.eq(i) and not any(x.eq(a) for a in stored_ids):
                            seen[nm] = x
                elif z3.is_quantifier(x):
                    todo.append(x.body())
                else:
                    todo.extend(x.children())
        for f in facts:
            consts(f)
        for nm, x in seen.items():
            fn = z3.Function(fresh_name('sk_' + nm.split('!')[0]), z3.IntSort(), x.sort())
            subst.append((x, fn(i)))
        if not consecutive:
            facts = facts + [ai >= a0, ai < alloc_after]
        body = z3.And(*facts) if facts else z3.BoolVal(True)
        if subst:
            body = z3.substitute(body, *subst)
        if consecutive:
            body = z3.substitute(body, (ai, a0 + i))
        if os.environ.get('PYVC_TRACE'):
            print('TRACE listcomp_ctor a0=%s consecutive=%s changed=%s body=%s' % (a0, consecutive, changed, str(body).replace('\n', ' ')[:1500]), flush=True)
        st.assume(z3.ForAll([i], z3.Implies(z3.And(0 <= i, i < n), body)))
        rt = TList(ref.t)
        if consecutive:
            st.alloc = a0 + n
            yield st, mk_list(rt, n, z3.Lambda([i], a0 + i))
        else:
            st.alloc = alloc_after
            yield st, mk_list(rt, n, z3.Lambda([i], afn(i)))

    def bind_comp_target(self, target, v, st, line):
        if isinstance(target, ast.Name):
            st.env[target.id] = v
        else:
            for s in self.assign(target, v, st, line):
                pass

    def ev_pure_single(self, node, st):
        """Evaluate expecting no fork and no exception; raises OutOfSubset otherwise."""
        out = []
        before = len(self.results)
        for s1, v in self.ev(node, st):
            if isinstance(v, Exc) or s1 is not st:
                raise OutOfSubset('impure element', node)
            out.append(v)
        return out
