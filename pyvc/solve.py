"""Solver back ends: z3 (Python API, primary) and /usr/bin/cvc5 (CLI) for what z3 leaves open."""
import os
import subprocess
import tempfile
import time
import z3

Z3_TIMEOUT_MS = int(os.environ.get('PYVC_Z3_TIMEOUT_MS', '10000'))
CVC5_TIMEOUT_S = int(os.environ.get('PYVC_CVC5_TIMEOUT_S', '30'))
RETRY_SEEDS = (3, 5, 11, 17, 23)
EMATCH_FIRST_MS = int(os.environ.get('PYVC_EMATCH_FIRST_MS', '1'))   # 0 disables the E-matching-first attempt
FEAS_TIMEOUT_MS = 1000

stats = {'z3_queries': 0, 'z3_ms': 0.0, 'cvc5_queries': 0, 'cvc5_ms': 0.0, 'feas_queries': 0}


def has_quantifier(e, memo=None):
    """Does the formula contain a quantifier?  (No global cache: z3 AST ids are reused after
    garbage collection.)"""
    if memo is None:
        memo = {}
    k = e.get_id()
    if k in memo:
        return memo[k]
    r = False
    if z3.is_quantifier(e) and not e.is_lambda():
        r = True
    elif z3.is_quantifier(e):
        # a lambda (array comprehension) is not a quantifier; look inside its body
        r = has_quantifier(e.body(), memo)
    else:
        for c in e.children():
            if has_quantifier(c, memo):
                r = True
                break
    memo[k] = r
    return r


def feasible(pc):
    """True unless the path condition is certainly unsatisfiable.  Quantified conjuncts are
    left out (dropping constraints can only make more paths look feasible, which is sound)."""
    s = z3.Solver()
    s.set('timeout', FEAS_TIMEOUT_MS)
    s.add(*[f for f in pc if not has_quantifier(f)])
    stats['feas_queries'] += 1
    t0 = time.time()
    r = s.check()
    stats['z3_ms'] += (time.time() - t0) * 1000
    return r != z3.unsat


def satisfiable(pc):
    """Cover query: 'sat' / 'unsat' / 'unknown'."""
    s = z3.Solver()
    s.set('timeout', 2000)
    s.add(*pc)
    r = s.check()
    return str(r)


def prove(pc, goal, timeout_ms=None, want_model=True, quick=False, hint=None):
    """Discharge `pc ==> goal`.  Returns (verdict, backend, ms, model_or_reason)
    verdict in {'proved', 'refuted', 'undecided'}."""
    timeout_ms = timeout_ms or Z3_TIMEOUT_MS
    quantified = any(has_quantifier(f) for f in pc) or has_quantifier(goal)
    ms = 0.0
    if hint in ('cvc5', 'z3-4.8-cli', 'z3') and not quick:
        # ordering heuristic only: the back end that discharged this obligation on the last recorded
        # run is asked first; if it does not prove the goal the whole ladder below runs as usual
        sh = z3.Solver()
        sh.add(*pc)
        sh.add(z3.Not(goal))
        if hint == 'z3':
            sh.set('timeout', timeout_ms)
            t0 = time.time()
            rh = sh.check()
            ms += (time.time() - t0) * 1000
            stats['z3_ms'] += ms
            if rh == z3.unsat:
                return 'proved', 'z3', ms, None
            if rh == z3.sat:
                return 'refuted', 'z3', ms, (sh.model() if want_model else None)
        else:
            try:
                text = sh.to_smt2()
                vh, msh, _ = run_cvc5(text) if hint == 'cvc5' else run_z3cli(text)
            except Exception:
                vh, msh = 'error', 0.0
            ms += msh
            if vh == 'unsat':
                return 'proved', hint, ms, None
    if quick:
        # one short attempt with the default strategy only
        s = z3.Solver()
        s.set('timeout', timeout_ms)
        s.add(*pc)
        s.add(z3.Not(goal))
        t0 = time.time()
        r = s.check()
        ms = (time.time() - t0) * 1000
        stats['z3_ms'] += ms
        if r == z3.unsat:
            return 'proved', 'z3', ms, None
        if r == z3.sat:
            return 'refuted', 'z3', ms, (s.model() if want_model else None)
        return 'undecided', 'z3', ms, 'unknown (short attempt)'
    if quantified and EMATCH_FIRST_MS:
        # quantified goals: a short pure E-matching attempt first (it either proves the goal quickly or
        # gives up; it never answers sat), then the default strategy
        # (short budget under three random seeds first: nearly every E-matching proof takes milliseconds,
        # and whether it is found depends on the instantiation order)
        for seed in (0, 7, 13):
            s0 = z3.Solver()
            s0.set('timeout', max(EMATCH_FIRST_MS, min(5000, timeout_ms)))
            s0.set('auto_config', False)
            s0.set('smt.mbqi', False)
            if seed:
                s0.set('random_seed', seed)
                s0.set('smt.random_seed', seed)
            s0.add(*pc)
            s0.add(z3.Not(goal))
            t0 = time.time()
            r0 = s0.check()
            ms0 = (time.time() - t0) * 1000
            ms += ms0
            stats['z3_ms'] += ms0
            if r0 == z3.unsat:
                return 'proved', 'z3-ematching', ms, None
            if ms0 < 50 and seed == 0 and False:
                break
    s = z3.Solver()
    s.set('timeout', timeout_ms)
    s.add(*pc)
    s.add(z3.Not(goal))
    stats['z3_queries'] += 1
    tried_cli = False
    if quantified and EMATCH_FIRST_MS and ms > 2500:
        # the short E-matching attempts ran into their time limit: before the long default strategy,
        # ask the Debian z3 (4.8.12), which decides many quantified string queries the 5.1 wheel leaves open
        tried_cli = True
        try:
            v0, ms0, _ = run_z3cli(s.to_smt2(), timeout_s=15)
        except Exception:
            v0, ms0 = 'error', 0.0
        ms += ms0
        if v0 == 'unsat':
            return 'proved', 'z3-4.8-cli', ms, None
    t0 = time.time()
    r = s.check()
    ms1 = (time.time() - t0) * 1000
    ms += ms1
    stats['z3_ms'] += ms1
    if r == z3.unsat:
        return 'proved', 'z3', ms, None
    if r == z3.sat:
        return 'refuted', 'z3', ms, (s.model() if want_model else None)
    # unknown with quantifiers: model-based instantiation is sensitive to the search order; a few
    # short retries with other random seeds decide many of these (either way)
    if quantified:
        for seed in RETRY_SEEDS:
            sk = z3.Solver()
            sk.set('timeout', min(3000, timeout_ms))
            sk.set('random_seed', seed)
            sk.add(*pc)
            sk.add(z3.Not(goal))
            t1 = time.time()
            rk = sk.check()
            msk = (time.time() - t1) * 1000
            stats['z3_ms'] += msk
            ms += msk
            if rk == z3.unsat:
                return 'proved', 'z3', ms, None
            if rk == z3.sat:
                return 'refuted', 'z3', ms, (sk.model() if want_model else None)
    # still unknown: the E-matching attempt again under other random seeds (instantiation order is
    # seed dependent; it can only prove, never refute)
    if quantified and EMATCH_FIRST_MS and timeout_ms > 5000:
        for seed in (0, 29):
            se = z3.Solver()
            se.set('timeout', timeout_ms)
            se.set('auto_config', False)
            se.set('smt.mbqi', False)
            se.set('random_seed', seed)
            se.set('smt.random_seed', seed)
            se.add(*pc)
            se.add(z3.Not(goal))
            t1 = time.time()
            re_ = se.check()
            mse = (time.time() - t1) * 1000
            stats['z3_ms'] += mse
            ms += mse
            if re_ == z3.unsat:
                return 'proved', 'z3-ematching', ms, None
    # unknown: second z3 strategy, pure E-matching (no model-based quantifier instantiation)
    if quantified and not EMATCH_FIRST_MS:
        s2 = z3.Solver()
        s2.set('timeout', timeout_ms)
        s2.set('auto_config', False)
        s2.set('smt.mbqi', False)
        s2.add(*pc)
        s2.add(z3.Not(goal))
        t1 = time.time()
        r2 = s2.check()
        ms2 = (time.time() - t1) * 1000
        stats['z3_ms'] += ms2
        ms += ms2
        if r2 == z3.unsat:
            return 'proved', 'z3-ematching', ms, None
    # unknown: try cvc5 on the SMT-LIB rendering
    reason = s.reason_unknown()
    try:
        smt2 = s.to_smt2()
    except Exception as e:  # pragma: no cover
        return 'undecided', 'z3', ms, 'unknown(%s); no smt2: %s' % (reason, e)
    if os.environ.get('PYVC_DUMP'):
        os.makedirs(os.environ['PYVC_DUMP'], exist_ok=True)
        with open(os.path.join(os.environ['PYVC_DUMP'], 'q%d.smt2' % stats['z3_queries']), 'w') as f:
            f.write(smt2)
    # the Debian z3 (4.8.12) decides many quantified string queries that the 5.1 wheel leaves open
    if not tried_cli:
        v0, ms0, _ = run_z3cli(smt2)
        if v0 == 'unsat':
            return 'proved', 'z3-4.8-cli', ms + ms0, None
        ms += ms0
    v, ms2, out = run_cvc5(smt2)
    if v == 'unsat':
        return 'proved', 'cvc5', ms + ms2, None
    # a cvc5 'sat' without a replayable model is not trusted as a refutation
    return 'undecided', 'z3+cvc5', ms + ms2, 'z3 unknown(%s); cvc5 %s' % (reason, v)


def candidate(pc, goal, timeout_ms=3000):
    """A model of the quantifier-free conjuncts of `pc` together with the negated goal, or None.
    NOT a counterexample by itself (quantified facts were dropped); see Engine.prove."""
    s = z3.Solver()
    s.set('timeout', timeout_ms)
    s.add(*[f for f in pc if not has_quantifier(f)])
    s.add(z3.Not(goal))
    if s.check() == z3.sat:
        return s.model()
    return None


def run_z3cli(smt2_text, timeout_s=20):
    exe = '/usr/bin/z3'
    if not os.path.exists(exe):
        return 'absent', 0.0, ''
    with tempfile.NamedTemporaryFile('w', suffix='.smt2', delete=False) as f:
        f.write(smt2_text)
        path = f.name
    stats['z3cli_queries'] = stats.get('z3cli_queries', 0) + 1
    t0 = time.time()
    try:
        p = subprocess.run([exe, '-T:%d' % timeout_s, path], capture_output=True, text=True, timeout=timeout_s + 5)
        out = (p.stdout or '').strip()
    except subprocess.TimeoutExpired:
        out = 'timeout'
    finally:
        os.unlink(path)
    ms = (time.time() - t0) * 1000
    first = out.splitlines()[0] if out else ''
    return (first if first in ('sat', 'unsat', 'unknown') else 'error:' + first[:60]), ms, out


def run_cvc5(smt2_text, timeout_s=None):
    timeout_s = timeout_s or CVC5_TIMEOUT_S
    exe = '/usr/bin/cvc5'
    if not os.path.exists(exe):
        return 'absent', 0.0, ''
    # z3 prints (set-info ...) and uses a few z3-only names; keep logic generic
    text = '(set-logic ALL)\n' + '\n'.join(
        l for l in smt2_text.splitlines() if not l.startswith('(set-info'))
    with tempfile.NamedTemporaryFile('w', suffix='.smt2', delete=False) as f:
        f.write(text)
        path = f.name
    stats['cvc5_queries'] += 1
    t0 = time.time()
    try:
        p = subprocess.run([exe, '--strings-exp', '--tlimit=%d' % (timeout_s * 1000), path],
                           capture_output=True, text=True, timeout=timeout_s + 5)
        out = (p.stdout or '').strip()
    except subprocess.TimeoutExpired:
        out = 'timeout'
    finally:
        os.unlink(path)
    ms = (time.time() - t0) * 1000
    stats['cvc5_ms'] += ms
    first = out.splitlines()[0] if out else ''
    if first in ('sat', 'unsat', 'unknown'):
        return first, ms, out
    return 'error:' + first[:80], ms, out
