#!/usr/bin/env python3
"""Developer tool: verify one function / view and print every obligation that is not proved.

usage: PYTHONPATH=<repo> python3-vt tools_one.py <module:qualname[#view]> [all]
       (VERIF_REPO=<repo copy> selects the tree the source is read from; default /repo)
"""
import os
import sys
sys.path.insert(0, os.path.dirname(os.path.abspath(__file__)))
from contracts import registry          # noqa: E402
from pyvc.execcall import Executor      # noqa: E402

ex = Executor(registry.model(), os.environ.get('VERIF_REPO', '/repo'))
res = ex.verify(sys.argv[1])
for r in res:
    j = r.to_json()
    if j['verdict'] != 'proved' or len(sys.argv) > 2:
        print(j['name'], j['verdict'], j.get('ms'), str(j.get('detail'))[:300])
print(len(res), 'obligations')
