"""C17 lemmas: LaTeX text escaper as a character homomorphism, URL escaper alphabet, sink typing
and brace/environment balance of every LaTeX render template."""
import ast
import hashlib
import re
import subprocess
import json
import time
from pyvc.engine import Engine
from pyvc import sinks
from pyvc.sinks import Unsupported, TemplateInterp, PathState, lit, hole, flatten
from .l_html import mk, method_defs

SPECIALS = '$#{}&_%^\\'
ESCAPED = {'$': '\\$', '#': '\\#', '{': '\\{', '}': '\\}', '&': '\\&', '_': '\\_', '%': '\\%'}
PROPS = ['C17']
MOD = 'mistletoe.latex_renderer'


def ltext_safe(s):
    """s consists of ordinary characters and escaped forms of the LaTeX specials only."""
    i = 0
    while i < len(s):
        c = s[i]
        if c == '\\':
            for form in ('\\$', '\\#', '\\{', '\\}', '\\&', '\\_', '\\%', '\\^{}', '\\textbackslash{}', '\\textbackslash ',
                         '\\textasciicircum{}', '\\textasciitilde{}'):
                if s.startswith(form, i):
                    i += len(form)
                    break
            else:
                return False
            continue
        if c in SPECIALS:
            return False
        i += 1
    return True


def chain_of_return(fdef, flag_name):
    """render_raw_text: `return (<chain>) if escape else token.content` or a translate() form."""
    body = [s for s in fdef.body if not (isinstance(s, ast.Expr) and isinstance(s.value, ast.Constant))]
    if len(body) != 1 or not isinstance(body[0], ast.Return):
        raise Unsupported('body is not a single return', fdef)
    v = body[0].value
    if isinstance(v, ast.IfExp) and isinstance(v.test, ast.Name) and v.test.id == flag_name:
        v = v.body
    return v


def cases_of(expr, consts):
    """Case table of a replace chain or of str.translate with a literal mapping."""
    if isinstance(expr, ast.Call) and isinstance(expr.func, ast.Attribute) and expr.func.attr == 'translate':
        arg = expr.args[0]
        table = None
        if isinstance(arg, ast.Name) and arg.id in consts:
            table = consts[arg.id]
        elif isinstance(arg, ast.Attribute) and arg.attr in consts:
            table = consts[arg.attr]
        elif isinstance(arg, ast.Call) and ast.unparse(arg.func) == 'str.maketrans' and len(arg.args) == 1:
            table = ast.literal_eval(arg.args[0])
        elif isinstance(arg, ast.Dict):
            table = ast.literal_eval(arg)
        if table is None:
            raise Unsupported('translate table is not a literal mapping', expr)
        norm = {}
        for k, val in table.items():
            norm[k if isinstance(k, str) else chr(k)] = val
        cases = [('eq', k, v) for k, v in norm.items()]
        cases.append(('other', frozenset(norm), None))
        return expr.func.value, cases
    base, chain = sinks.replace_chain(expr)
    return base, sinks.apply_chain_symbolic(chain)


def module_consts(eng, module, cls):
    """Literal dict/str constants at module or class level (for translate tables)."""
    src, tree = eng.module_ast(module)
    out = {}

    def scan(body):
        for n in body:
            if isinstance(n, ast.Assign) and len(n.targets) == 1 and isinstance(n.targets[0], ast.Name):
                v = n.value
                if isinstance(v, ast.Call) and ast.unparse(v.func) == 'str.maketrans' and len(v.args) == 1:
                    v = v.args[0]
                try:
                    out[n.targets[0].id] = ast.literal_eval(v)
                except Exception:
                    pass
            elif isinstance(n, ast.ClassDef) and n.name == cls:
                scan(n.body)
    scan(tree.body)
    return out


def native_latex_text(repo, text):
    code = ('import sys, json; sys.path.insert(0, %r)\n'
            'from mistletoe.latex_renderer import LaTeXRenderer\nfrom mistletoe.span_token import RawText\n'
            'with LaTeXRenderer() as r:\n    print(json.dumps(r.render_raw_text(RawText(%r))))' % (repo, text))
    p = subprocess.run(['/venv/bin/python', '-c', code], capture_output=True, text=True)
    try:
        out = json.loads(p.stdout)
    except Exception:
        return {'reproduced': False, 'error': p.stderr[-300:]}
    return {'reproduced': not ltext_safe(out), 'input': text, 'output': out}


def homomorphism_lemma(repo):
    eng = Engine(None, repo)
    results = []
    sha = {}
    key = MOD + ':LaTeXRenderer.render_raw_text'
    try:
        fdef, seg = eng.find_def(key)
    except KeyError as e:
        return {'results': [mk('homo:LaTeXRenderer.render_raw_text:resolve', 'undecided', 0, PROPS, detail=str(e), kind='resolve')]}
    sha[key] = hashlib.sha256(seg.encode()).hexdigest()
    t0 = time.time()
    try:
        expr = chain_of_return(fdef, 'escape')
        base, cases = cases_of(expr, module_consts(eng, MOD, 'LaTeXRenderer'))
        if ast.unparse(base) != 'token.content':
            raise Unsupported('escaper is not applied to token.content', fdef)
        # one obligation per special character so that a finding can be keyed precisely
        image = {}
        other_excl = None
        for kind, a, b in cases:
            if kind == 'eq':
                image[a] = b
            else:
                other_excl = a
        for c in SPECIALS:
            name = 'homo:LaTeXRenderer.render_raw_text[%s]' % ('backslash' if c == '\\' else c)
            if c in image:
                img = image[c]
            elif other_excl is not None and c not in other_excl:
                img = c
            else:
                img = c
            ok = ltext_safe(img)
            if ok:
                results.append(mk(name, 'proved', (time.time() - t0) * 1000, PROPS, fn='LaTeXRenderer.render_raw_text',
                                  text='image of %r under the real escaper is %r, an escaped form' % (c, img)))
            else:
                native = native_latex_text(repo, c)
                results.append(mk(name, 'refuted' if native.get('reproduced') else 'undecided', (time.time() - t0) * 1000,
                                  PROPS, fn='LaTeXRenderer.render_raw_text',
                                  text='the LaTeX-special character %r from document text appears only in escaped form' % c,
                                  model={'witness_char': c, 'image': img}, native=native))
        bad_img = [(a, b) for a, b in image.items() if a not in SPECIALS and not ltext_safe(b)]
        results.append(mk('homo:LaTeXRenderer.render_raw_text[others]', 'refuted' if bad_img else 'proved', 0, PROPS,
                          fn='LaTeXRenderer.render_raw_text', text='non-special characters map to LaTeX-safe text',
                          model={'bad': bad_img} if bad_img else None,
                          native={'reproduced': bool(bad_img)} if bad_img else None))
    except Unsupported as e:
        results.append(mk('homo:LaTeXRenderer.render_raw_text', 'undecided', 0, PROPS, detail='out-of-subset:%s' % e))
    return {'results': results, 'sha': sha,
            'assumptions': ['A2: str.replace with a one-character needle / str.translate with a literal table is the character-wise substitution; lemma D(i)']}


# ------------------------------------------------------------------------------- sinks ----------
def latex_typer(node, st):
    src = ast.unparse(node)
    if isinstance(node, ast.Call):
        f = ast.unparse(node.func)
        if f in ('self.render_inner', 'self.render', 'self.render_table_row'):
            return ('str', [hole('WF', src)])
        if f == 'self.render_raw_text':
            raw = (len(node.args) == 2 and isinstance(node.args[1], ast.Constant) and node.args[1].value is False) or \
                any(k.arg == 'escape' and isinstance(k.value, ast.Constant) and k.value.value is False for k in node.keywords)
            return ('str', [hole('RAW' if raw else 'LTEXT', src)])
        if f == 'self.escape_url':
            return ('str', [hole('LURL', src)])
        if f == 'self.render_packages':
            return ('str', [hole('WF', src)])
        return None
    if isinstance(node, ast.Attribute):
        if src.startswith('token.'):
            return ('str', [hole('ANY', src)])
    if isinstance(node, ast.Name):
        v = st.env.get(node.id)
        if v and v[0] == 'elem' and v[1] == 'self.packages.items()':
            # a package name / its option list: renderer vocabulary (lemma sink:LaTeXRenderer.packages-literal)
            return ('str', [hole('PKG', src)])
    return None


def packages_literal(src_text):
    """Every write to self.packages stores a literal, brace- and backslash-free package name with a
    literal list of such option strings (or resets the dict), and nothing else mutates it."""
    tree = ast.parse(src_text)
    bad = []

    def plain(x):
        return isinstance(x, ast.Constant) and isinstance(x.value, str) and not (set(x.value) & set('{}\\$#&_%^~'))
    for n in ast.walk(tree):
        if isinstance(n, (ast.Assign, ast.AugAssign)):
            for tg in (n.targets if isinstance(n, ast.Assign) else [n.target]):
                u = ast.unparse(tg)
                if u == 'self.packages':
                    if not (isinstance(n, ast.Assign) and isinstance(n.value, ast.Dict) and not n.value.keys):
                        bad.append(ast.unparse(n))
                elif u.startswith('self.packages['):
                    ok = isinstance(n, ast.Assign) and isinstance(tg, ast.Subscript) and plain(tg.slice) and \
                        isinstance(n.value, ast.List) and all(plain(e) for e in n.value.elts)
                    if not ok:
                        bad.append(ast.unparse(n))
        if isinstance(n, ast.Call) and isinstance(n.func, ast.Attribute) and ast.unparse(n.func.value) == 'self.packages' \
                and n.func.attr not in ('items', 'keys', 'values', 'get'):
            bad.append(ast.unparse(n))
    return bad


def latex_effects(node, st):
    if isinstance(node, ast.Assign) and ast.unparse(node.targets[0]).startswith('self.packages'):
        return True
    if isinstance(node, ast.Call) and ast.unparse(node) == 'self.footnotes.update(token.footnotes)':
        return True
    return False


def scan_latex(segs, method):
    """Brace / environment balance of the literal skeleton and hole positions."""
    out = []
    depth = 0
    envs = []
    verbatim = None
    text = ''
    for seg in segs:
        if seg[0] == 'hole':
            t, src = seg[1], seg[2]
            if verbatim == 'lstlisting':
                if t not in ('RAW', 'ANY', 'LTEXT', 'WF'):
                    out.append(('hole', 'hole %s inside %s' % (t, verbatim), src))
                elif verbatim == 'lstlisting':
                    out.append(('verbatim-terminator', 'verbatim body can contain \\end{lstlisting}', src))
                continue
            if t in ('WF', 'LTEXT', 'MATH', 'PKG'):
                continue
            if t == 'LURL':
                continue
            out.append(('hole', 'hole of type %s (unescaped document text) outside a verbatim region' % t, src))
            continue
        s = seg[1]
        i = 0
        while i < len(s):
            if s.startswith('\\begin{', i) and '}' in s[i:]:
                j = s.index('}', i)
                name = s[i + 7:j]
                envs.append(name)
                if name == 'lstlisting':
                    pass
                i = j + 1
                if name == 'lstlisting':
                    # options [..] then newline: the body starts after the first newline
                    verbatim_pending = True
                    k = s.find('\n', i)
                    rest_on_line = s[i:k if k >= 0 else len(s)]
                    # scan the option part normally (holes there are NOT verbatim)
                    verbatim = 'lstlisting-options' if k < 0 else 'lstlisting'
                    if k >= 0:
                        i = k + 1
                continue
            if s.startswith('\\end{', i) and '}' in s[i:]:
                j = s.index('}', i)
                name = s[i + 5:j]
                if verbatim in ('lstlisting', 'lstlisting-options') and name == 'lstlisting':
                    verbatim = None
                if not envs or envs[-1] != name:
                    out.append(('skeleton', '\\end{%s} does not match %s' % (name, envs[-1:] or None), ''))
                else:
                    envs.pop()
                i = j + 1
                continue
            c = s[i]
            if verbatim == 'lstlisting-options' and c == '\n':
                verbatim = 'lstlisting'
            elif verbatim == 'lstlisting':
                pass
            elif c == '\\' and i + 1 < len(s) and s[i + 1] in '{}\\$#&_%':
                i += 2
                continue
            elif c == '{':
                depth += 1
            elif c == '}':
                depth -= 1
                if depth < 0:
                    out.append(('skeleton', 'unbalanced closing brace', ''))
            i += 1
    if depth != 0:
        out.append(('skeleton', 'brace depth %d at end of template' % depth, ''))
    if envs:
        out.append(('skeleton', 'unclosed environments %s' % envs, ''))
    return out


API_TEMPLATES = {
    ('render_image', 'token.src'): ('![a](x}y)', '\\includegraphics{x}y}'),
    ('render_block_code', 'token.language'): ('```a]{\nx\n```', '[language=a]{]'),
    ('render_block_code', "self.render_raw_text(token.children[0], False)"): ('```\n\\end{lstlisting}\n```', '\\end{lstlisting}\n\\end{lstlisting}'),
}


def api_replay(repo, method, src):
    key = (method, src)
    if key not in API_TEMPLATES:
        return {'reproduced': False, 'reason': 'no API input template for sink %s in %s' % (src, method)}
    md, needle = API_TEMPLATES[key]
    code = ('import sys, json; sys.path.insert(0, %r); import mistletoe\n'
            'from mistletoe.latex_renderer import LaTeXRenderer\n'
            'print(json.dumps(mistletoe.markdown(%r, LaTeXRenderer)))' % (repo, md))
    p = subprocess.run(['/venv/bin/python', '-c', code], capture_output=True, text=True)
    try:
        out = json.loads(p.stdout)
    except Exception:
        return {'reproduced': False, 'error': p.stderr[-400:]}
    return {'reproduced': needle in out, 'api_input': md, 'output': out, 'needle': needle}


def escape_url_lemma(eng, defs, src_text, results, sha):
    """escape_url: quote(raw, safe=S) then literal replaces; LURL = no { } backslash except in \\% \\#."""
    fdef = defs.get('escape_url')
    name = 'sink:LaTeXRenderer.escape_url'
    if fdef is None:
        results.append(mk(name, 'undecided', 0, PROPS, detail='escape_url not found', kind='resolve'))
        return
    sha[MOD + ':LaTeXRenderer.escape_url'] = hashlib.sha256(ast.get_source_segment(src_text, fdef).encode()).hexdigest()
    try:
        body = [s for s in fdef.body if not (isinstance(s, ast.Expr) and isinstance(s.value, ast.Constant))]
        env = {}
        for s in body[:-1]:
            if isinstance(s, ast.Assign) and isinstance(s.targets[0], ast.Name):
                env[s.targets[0].id] = s.value
            else:
                raise Unsupported('statement form', s)
        if not isinstance(body[-1], ast.Return):
            raise Unsupported('no return', fdef)
        base, chain = sinks.replace_chain(body[-1].value)
        if isinstance(base, ast.Name) and base.id in env:
            base = env[base.id]
        if not (isinstance(base, ast.Call) and ast.unparse(base.func) == 'quote'):
            raise Unsupported('base is not quote(...)', fdef)
        safe = ''
        for k in base.keywords:
            if k.arg == 'safe':
                safe = ast.literal_eval(k.value)
        alphabet = set('ABCDEFGHIJKLMNOPQRSTUVWXYZabcdefghijklmnopqrstuvwxyz0123456789_.-~') | set(safe) | {'%'}
        bad = []
        for c in sorted(alphabet):
            img = c
            for needle, repl in chain:
                img = img.replace(needle, repl)
            if c in '{}\\' or (c in '%#' and img not in ('\\%', '\\#')) or any(x in img for x in '{}') \
                    or ('\\' in img and img not in ('\\%', '\\#')):
                bad.append((c, img))
        results.append(mk(name, 'refuted' if bad else 'proved', 0, PROPS, fn='LaTeXRenderer.escape_url',
                          text='over the output alphabet of quote(safe=%r) the result contains no brace or backslash except in \\%% / \\#' % safe,
                          model={'bad': bad} if bad else None, native={'reproduced': bool(bad)} if bad else None))
    except Unsupported as e:
        results.append(mk(name, 'undecided', 0, PROPS, detail='out-of-subset:%s' % e))


def verb_lemma(repo, defs, results):
    """render_inline_code: the \\verb delimiter does not occur in the content (search loop + raise),
    and '*' is not a candidate delimiter (\\verb* is the starred form)."""
    fdef = defs.get('render_inline_code')
    name = 'sink:LaTeXRenderer.render_inline_code:verb-delimiter'
    if fdef is None:
        results.append(mk(name, 'undecided', 0, PROPS, detail='not found', kind='resolve'))
        return
    src = ast.unparse(fdef)
    ok_loop = re.search(r"for delimiter in self\.verb_delimiters:\s+if delimiter not in content:\s+break", src) is not None
    ok_raise = re.search(r"if delimiter in content:\s+raise RuntimeError", src) is not None
    ok_tmpl = "'\\\\verb{delimiter}{content}{delimiter}'" in src
    ok = ok_loop and ok_raise and ok_tmpl
    results.append(mk(name, 'proved' if ok else 'undecided', 0, PROPS, fn='LaTeXRenderer.render_inline_code',
                      text='after the search loop and the raise, `delimiter not in content` holds at the template '
                           '(structural match of the loop / raise / template)',
                      detail=None if ok else 'method no longer has the recognised search-loop form'))
    code = ('import sys, json; sys.path.insert(0, %r)\nimport mistletoe.latex_renderer as m\n'
            'print(json.dumps(m.verb_delimiters))' % repo)
    p = subprocess.run(['/venv/bin/python', '-c', code], capture_output=True, text=True)
    try:
        vd = json.loads(p.stdout)
        bad = [c for c in vd if c == '*' or c.isalpha() or c.isspace()]
        native = None
        if bad:
            nat = subprocess.run(['/venv/bin/python', '-c',
                                  'import sys; sys.path.insert(0, %r); import mistletoe\n'
                                  'from mistletoe.latex_renderer import LaTeXRenderer\n'
                                  'print(mistletoe.markdown("`" + "".join(c for c in %r if c not in "*`") + "`", LaTeXRenderer))' % (repo, vd)],
                                 capture_output=True, text=True)
            native = {'reproduced': '\\verb*' in nat.stdout, 'output': nat.stdout[-300:]}
        results.append(mk('data:latex_renderer.verb_delimiters:no-star', 'refuted' if bad else 'proved', 0, PROPS,
                          fn='latex_renderer.verb_delimiters',
                          text="'*' (and letters/spaces) are not candidate \\verb delimiters",
                          model={'bad_delimiters': bad} if bad else None, native=native))
    except Exception as e:
        results.append(mk('data:latex_renderer.verb_delimiters:no-star', 'undecided', 0, PROPS, detail=repr(e) + p.stderr[-200:]))


def sink_lemmas(repo):
    eng = Engine(None, repo)
    results = []
    sha = {}
    try:
        defs, src = method_defs(eng, MOD, 'LaTeXRenderer')
    except OSError as e:
        return {'results': [mk('sink:LaTeXRenderer:resolve', 'undecided', 0, PROPS, detail=str(e), kind='resolve')]}
    escape_url_lemma(eng, defs, src, results, sha)
    verb_lemma(repo, defs, results)
    bad = packages_literal(src)
    results.append(mk('sink:LaTeXRenderer.packages-literal', 'proved' if not bad else 'refuted', 0, PROPS, fn='LaTeXRenderer',
                      text='self.packages is only ever reset to {} or given a literal brace-free package name with a literal option list',
                      model=None if not bad else {'writes': bad[:4]}))
    for mname in sorted(n for n in defs if n.startswith('render_') and n not in ('render_raw_text', 'render_inline_code')):
        fdef = defs[mname]
        sha['%s:LaTeXRenderer.%s' % (MOD, mname)] = hashlib.sha256(ast.get_source_segment(src, fdef).encode()).hexdigest()
        base = 'sink:LaTeXRenderer.%s' % mname
        typer = latex_typer
        if mname == 'render_math':
            def typer(node, st):
                if isinstance(node, ast.Attribute) and ast.unparse(node) == 'token.content':
                    return ('str', [hole('MATH', 'token.content')])
                return latex_typer(node, st)
        interp = TemplateInterp(typer, effect_hook=latex_effects)
        t1 = time.time()
        try:
            viol = []
            npaths = 0
            for st, val in interp.run(list(fdef.body), PathState()):
                npaths += 1
                if val is None or val[0] != 'str':
                    raise Unsupported('return value of kind %s' % (val[0] if val else None), fdef)
                for variant in flatten(val[1]):
                    viol.extend(scan_latex(variant, mname))
            for htype, hsrc, hline in interp.format_on_holes:
                if htype not in ('PKG',):
                    viol.append(('format-template', 'str.format is called on a string that holds document text '
                                 '(hole %s, line %d): braces in it are parsed as format fields' % (htype, hline), hsrc))
            groups = {}
            for kind, detail, srcx in viol:
                groups.setdefault((kind, srcx), detail)
            ms = (time.time() - t1) * 1000
            if not groups:
                results.append(mk(base, 'proved', ms, PROPS, fn='LaTeXRenderer.' + mname,
                                  text='%d path(s): braces and environments of the literal skeleton balance; every hole is WF / escaped text / LURL' % npaths))
            for (kind, srcx), detail in sorted(groups.items()):
                native = api_replay(repo, mname, srcx)
                results.append(mk('%s:%s:%s' % (base, kind, srcx or '-'), 'refuted', ms, PROPS, fn='LaTeXRenderer.' + mname,
                                  text='sink typing of %s' % mname, model={'violation': detail, 'hole': srcx}, native=native))
        except Unsupported as e:
            results.append(mk(base, 'undecided', 0, PROPS, detail='out-of-subset:%s' % e, fn='LaTeXRenderer.' + mname))
    return {'results': results, 'sha': sha,
            'assumptions': ['A7: urllib.parse.quote(s, safe=S) maps into unreserved + S + %XX',
                            'hyperref reads & _ ~ verbatim in the URL arguments of \\href / \\url (DESIGN 6.E)',
                            'A8: str.format / str.join semantics; lemma D(ii) for brace groups']}


LEMMAS = {
    'homo:latex_raw_text': (homomorphism_lemma, PROPS),
    'sink:latex': (sink_lemmas, PROPS),
}
