"""Backtracking-termination lemma for the regular expressions of the working tree (C01).

Property clause: "never fails to terminate ... judged against a generous per-input wall-clock
budget".  Every `re.compile(<constant>)` of the package is read from the source with ast, parsed
with the interpreter's own `re._parser`, turned into a position automaton with counted
epsilon-paths, and checked for *exponential degree of ambiguity* (EDA, Weber & Seidl 1991; the
criterion Weideman et al. 2016 use for backtracking matchers): there is a position q and a word w
with two different runs q -w-> q.  A pattern without EDA has at most polynomially many runs on any
input, so a backtracking matcher cannot take exponential time on it.

What is abstracted (all over-approximations of the set of runs, i.e. towards reporting EDA):
look-around assertions and anchors are treated as epsilon; a back-reference \\g is treated as a copy
of group g's sub-pattern; lazy and greedy repeats are the same automaton.  Because of that, an EDA
verdict is only reported as `refuted` when the pumped witness makes the *real compiled pattern*,
called through a method the package uses on it, exceed the time budget in a child process; otherwise
the obligation is `undecided`.
Not covered: polynomial backtracking (finite degree of ambiguity) - left to the bounded tier.
"""
import ast
import hashlib
import os
import re
import subprocess
import sys
import time

try:
    import re._parser as sre_parse
    import re._constants as sre_c
except ImportError:  # pragma: no cover
    import sre_parse
    import sre_constants as sre_c

MAXREPEAT = sre_c.MAXREPEAT
MODULES = ['mistletoe.block_token', 'mistletoe.span_token', 'mistletoe.core_tokens', 'mistletoe.span_tokenizer',
           'mistletoe.latex_token', 'mistletoe.markdown_renderer', 'mistletoe.base_renderer',
           'mistletoe.contrib.github_wiki', 'mistletoe.contrib.toc_renderer', 'mistletoe.contrib.jira_renderer',
           'mistletoe.contrib.xwiki20_renderer', 'mistletoe.contrib.mathjax', 'mistletoe.contrib.pygments_renderer',
           'mistletoe.html_renderer', 'mistletoe.latex_renderer', 'mistletoe.block_tokenizer', 'mistletoe.token',
           'mistletoe.utils', 'mistletoe.ast_renderer']
RE_FUNCS = ('compile', 'match', 'search', 'fullmatch', 'sub', 'subn', 'split', 'findall', 'finditer')
RE_METHODS = ('match', 'search', 'fullmatch', 'sub', 'subn', 'split', 'findall', 'finditer')
BUDGET_S = 10.0


class Unsupported(Exception):
    pass


# ---- pattern extraction ---------------------------------------------------------------------------

def _const_str(node, env):
    if isinstance(node, ast.Constant) and isinstance(node.value, str):
        return node.value
    if isinstance(node, ast.BinOp) and isinstance(node.op, ast.Add):
        a, b = _const_str(node.left, env), _const_str(node.right, env)
        return None if a is None or b is None else a + b
    if isinstance(node, ast.Name) and node.id in env:
        return env[node.id]
    if isinstance(node, ast.Attribute) and isinstance(node.value, ast.Name):
        return env.get(node.value.id + '.' + node.attr)
    if isinstance(node, ast.Call) and isinstance(node.func, ast.Attribute) and node.func.attr == 'join' \
            and isinstance(node.func.value, ast.Constant) and isinstance(node.func.value.value, str) \
            and len(node.args) == 1 and isinstance(node.args[0], (ast.List, ast.Tuple)):
        parts = [_const_str(e, env) for e in node.args[0].elts]
        return None if any(p is None for p in parts) else node.func.value.value.join(parts)
    if isinstance(node, ast.Call) and isinstance(node.func, ast.Attribute) and node.func.attr == 'format' \
            and not node.args and all(kw.arg for kw in node.keywords):
        base = _const_str(node.func.value, env)
        kws = {kw.arg: _const_str(kw.value, env) for kw in node.keywords}
        if base is None or any(v is None for v in kws.values()):
            return None
        try:
            return base.format(**kws)
        except (KeyError, IndexError, ValueError):
            return None
    return None


def _flags_of(node):
    if node is None:
        return 0
    if isinstance(node, ast.Attribute) and isinstance(node.value, ast.Name) and node.value.id == 're':
        return int(getattr(re, node.attr))
    if isinstance(node, ast.BinOp) and isinstance(node.op, ast.BitOr):
        return _flags_of(node.left) | _flags_of(node.right)
    return 0


def module_consts(repo, module):
    """String constants of a module: {'name' | 'Class.name': str} (for cross-module references)."""
    path = os.path.join(repo, module.replace('.', '/') + '.py')
    if not os.path.exists(path):
        return {}
    tree = ast.parse(open(path, encoding='utf-8').read())
    env = {}

    def scan(body, prefix):
        for n in body:
            if isinstance(n, ast.ClassDef):
                scan(n.body, prefix + n.name + '.')
            elif isinstance(n, ast.Assign) and len(n.targets) == 1 and isinstance(n.targets[0], ast.Name):
                s = _const_str(n.value, env)
                if s is not None:
                    env[prefix + n.targets[0].id] = s
                    if prefix:
                        env.setdefault(n.targets[0].id, s)
    scan(tree.body, '')
    return env


def extract(repo):
    """Every regex of the package: list of dicts {key, module, line, pattern, flags, methods}.
    `unresolved` lists re.* calls whose pattern is not a constant expression."""
    found, unresolved = [], []
    uses = {}          # attr name -> set of (receiver class or '*', method)
    modenvs = {m.split('.')[-1]: module_consts(repo, m) for m in MODULES}
    for module in MODULES:
        path = os.path.join(repo, module.replace('.', '/') + '.py')
        if not os.path.exists(path):
            continue
        tree = ast.parse(open(path, encoding='utf-8').read())
        env = {}
        for mname, menv in modenvs.items():
            for k, v in menv.items():
                env[mname + '.' + k] = v

        def scan(body, prefix, env, cls):
            for n in body:
                if isinstance(n, ast.ClassDef):
                    scan(n.body, prefix + n.name + '.', dict(env), n.name)
                    continue
                if isinstance(n, ast.Assign) and len(n.targets) == 1 and isinstance(n.targets[0], ast.Name):
                    s = _const_str(n.value, env)
                    if s is not None:
                        env[n.targets[0].id] = s
                target = None
                if isinstance(n, ast.Assign) and len(n.targets) == 1 and isinstance(n.targets[0], ast.Name):
                    target = prefix + n.targets[0].id
                lenv = env
                if isinstance(n, (ast.FunctionDef, ast.AsyncFunctionDef)):
                    lenv = dict(env)
                    for a in sorted((x for x in ast.walk(n) if isinstance(x, ast.Assign)), key=lambda x: x.lineno):
                        if len(a.targets) == 1 and isinstance(a.targets[0], ast.Name):
                            s = _const_str(a.value, lenv)
                            if s is not None:
                                lenv[a.targets[0].id] = s
                            else:
                                lenv.pop(a.targets[0].id, None)
                for c in ast.walk(n):
                    if not isinstance(c, ast.Call) or not isinstance(c.func, ast.Attribute):
                        continue
                    f = c.func
                    if isinstance(f.value, ast.Name) and f.value.id == 're' and f.attr in RE_FUNCS and c.args:
                        p = _const_str(c.args[0], lenv)
                        fl = 0
                        if f.attr == 'compile' and len(c.args) > 1:
                            fl = _flags_of(c.args[1])
                        for kw in c.keywords:
                            if kw.arg == 'flags':
                                fl = _flags_of(kw.value)
                        key = target if (f.attr == 'compile' and target and c is getattr(n, 'value', None)) \
                            else '%s:%d' % (module.split('.')[-1], c.lineno)
                        if p is None:
                            unresolved.append({'key': key, 'module': module, 'line': c.lineno})
                        else:
                            found.append({'key': key, 'module': module, 'line': c.lineno, 'pattern': p, 'flags': fl,
                                          'methods': set() if f.attr == 'compile' else {f.attr}})
                    elif f.attr in RE_METHODS and isinstance(f.value, (ast.Attribute, ast.Name)):
                        v = f.value
                        if isinstance(v, ast.Attribute):
                            attr = v.attr
                            recv = v.value.id if isinstance(v.value, ast.Name) else '*'
                            if recv in ('cls', 'self'):
                                recv = '*'
                        else:
                            attr, recv = v.id, ''
                        uses.setdefault(attr, set()).add((recv, f.attr))
        scan(tree.body, '', env, None)
    for d in found:
        attr = d['key'].split('.')[-1]
        owner = d['key'].split('.')[0] if '.' in d['key'] else ''
        for recv, meth in uses.get(attr, ()):
            if recv in ('*', owner) or owner == '':
                d['methods'].add(meth)
        if not d['methods']:
            d['methods'] = {'match'}
        d['methods'] = sorted(d['methods'])
    return found, unresolved


# ---- character classes ----------------------------------------------------------------------------

_runs_cache = []


def cat_runs():
    """Run-length encoding of the code points by (isspace, isdecimal, word, is '\\n')."""
    if _runs_cache:
        return _runs_cache[0]
    runs = []
    cur, lo = None, 0
    for i in range(sys.maxunicode + 1):
        if 0xD800 <= i <= 0xDFFF:
            sig = None
        else:
            c = chr(i)
            sig = (c.isspace(), c.isdecimal(), c.isalnum() or c == '_')
        if sig != cur:
            if cur is not None:
                runs.append((lo, i - 1))
            cur, lo = sig, i
    if cur is not None:
        runs.append((lo, sys.maxunicode))
    _runs_cache.append(runs)
    return runs


class CharSet:
    """A set of code points given by the sre class items; membership is evaluated exactly."""
    __slots__ = ('items', 'neg', 'ascii', 'key')

    def __init__(self, items, neg=False, ascii_only=False):
        self.items = tuple(items)
        self.neg = neg
        self.ascii = ascii_only
        self.key = (self.items, neg, ascii_only)

    def has(self, ch):
        o = ord(ch)
        r = False
        for kind, a in self.items:
            if kind == 'lit':
                r = o == a
            elif kind == 'range':
                r = a[0] <= o <= a[1]
            elif kind == 'any':
                r = True
            elif kind == 'cat':
                name = a
                if 'SPACE' in name:
                    x = (ch in ' \t\n\r\f\v') if self.ascii else ch.isspace()
                elif 'DIGIT' in name:
                    x = (ch in '0123456789') if self.ascii else ch.isdecimal()
                elif 'WORD' in name:
                    x = (ch.isascii() and (ch.isalnum() or ch == '_')) if self.ascii else (ch.isalnum() or ch == '_')
                else:
                    raise Unsupported('category ' + name)
                r = (not x) if 'NOT_' in name else x
            if r:
                break
        return r != self.neg

    def boundaries(self):
        for kind, a in self.items:
            if kind == 'lit':
                yield a
                yield a + 1
            elif kind == 'range':
                yield a[0]
                yield a[1] + 1


def class_of(op, av, flags):
    ascii_only = bool(flags & re.ASCII)
    if flags & re.IGNORECASE:
        raise Unsupported('IGNORECASE')
    if op is sre_c.LITERAL:
        return CharSet([('lit', av)])
    if op is sre_c.NOT_LITERAL:
        return CharSet([('lit', av)], neg=True)
    if op is sre_c.ANY:
        if flags & re.DOTALL:
            return CharSet([('any', None)])
        return CharSet([('lit', 10)], neg=True)
    if op is sre_c.IN:
        items, neg = [], False
        for o, a in av:
            if o is sre_c.NEGATE:
                neg = True
            elif o is sre_c.LITERAL:
                items.append(('lit', a))
            elif o is sre_c.RANGE:
                items.append(('range', (a[0], a[1])))
            elif o is sre_c.CATEGORY:
                items.append(('cat', str(a)))
            else:
                raise Unsupported('class item %s' % o)
        return CharSet(items, neg, ascii_only)
    raise Unsupported(str(op))


# ---- automaton ------------------------------------------------------------------------------------

class NFA:
    def __init__(self, flags):
        self.flags = flags
        self.eps = []      # state -> [state]
        self.cls = []      # state -> CharSet or None
        self.nxt = []      # consuming state -> state after the character
        self.groups = {}

    def new(self):
        self.eps.append([])
        self.cls.append(None)
        self.nxt.append(None)
        return len(self.eps) - 1

    def build(self, items, s):
        """Append the automaton of `items` starting in state s; returns the end state."""
        for op, av in items:
            if op in (sre_c.LITERAL, sre_c.NOT_LITERAL, sre_c.ANY, sre_c.IN):
                c = self.new()
                e = self.new()
                self.eps[s].append(c)
                self.cls[c] = class_of(op, av, self.flags)
                self.nxt[c] = e
                s = e
            elif op is sre_c.BRANCH:
                e = self.new()
                for alt in av[1]:
                    a = self.new()
                    self.eps[s].append(a)
                    self.eps[self.build(alt, a)].append(e)
                s = e
            elif op is sre_c.SUBPATTERN:
                g, p = av[0], av[3]
                if g is not None:
                    self.groups[g] = p
                s = self.build(p, s)
            elif op in (sre_c.MAX_REPEAT, sre_c.MIN_REPEAT) or str(op) == 'POSSESSIVE_REPEAT':
                lo, hi, p = av
                if lo > 200 or (hi != MAXREPEAT and hi > 200):
                    raise Unsupported('repeat bound > 200')
                for _ in range(lo):
                    s = self.build(p, s)
                if hi == MAXREPEAT:
                    loop, e = self.new(), self.new()
                    self.eps[s].append(loop)
                    b = self.new()
                    self.eps[loop].append(b)
                    self.eps[loop].append(e)
                    self.eps[self.build(p, b)].append(loop)
                    s = e
                else:
                    e = self.new()
                    for _ in range(hi - lo):
                        self.eps[s].append(e)
                        b = self.new()
                        self.eps[s].append(b)
                        s = self.build(p, b)
                    self.eps[s].append(e)
                    s = e
            elif op in (sre_c.AT, sre_c.ASSERT, sre_c.ASSERT_NOT):
                pass
            elif str(op) == 'ATOMIC_GROUP':
                s = self.build(av, s)
            elif op is sre_c.GROUPREF:
                if av not in self.groups:
                    raise Unsupported('forward group reference')
                s = self.build(self.groups[av], s)
            elif op is sre_c.GROUPREF_EXISTS:
                g, yes, no = av
                e = self.new()
                a = self.new()
                self.eps[s].append(a)
                self.eps[self.build(yes, a)].append(e)
                b = self.new()
                self.eps[s].append(b)
                self.eps[self.build(no or [], b)].append(e)
                s = e
            else:
                raise Unsupported(str(op))
        return s

    def eps_paths(self, s):
        """{consuming state: number of epsilon trails (no epsilon edge used twice: a loop may be
        re-entered after a non-empty iteration, but an empty iteration is not repeated) from s, capped at 2}; also whether the
        end state `self.final` is reachable."""
        out = {}
        budget = [200000]

        def dfs(x, used):
            budget[0] -= 1
            if budget[0] < 0:
                raise Unsupported('epsilon-path budget')
            if self.cls[x] is not None:
                out[x] = min(2, out.get(x, 0) + 1)
                return
            if x == self.final:
                out['final'] = min(2, out.get('final', 0) + 1)
            for k, y in enumerate(self.eps[x]):
                if (x, k) not in used:
                    used.add((x, k))
                    dfs(y, used)
                    used.discard((x, k))
        dfs(s, set())
        return out


def atoms_for(classes):
    """Partition the code points by the given CharSets: {class key: frozenset(atom id)}, and a
    representative character per atom."""
    cuts = set()
    for c in classes:
        cuts.update(c.boundaries())
    pieces = []
    cl = sorted(x for x in cuts if 0 <= x <= sys.maxunicode)
    for lo, hi in cat_runs():
        inner = [x for x in cl if lo < x <= hi]
        a = lo
        for x in inner:
            pieces.append(a)
            a = x
        pieces.append(a)
    sig_to_atom, reps = {}, []
    member = {c.key: set() for c in classes}
    for cp in pieces:
        if 0xD800 <= cp <= 0xDFFF:
            continue
        ch = chr(cp)
        sig = tuple(c.has(ch) for c in classes)
        if not any(sig):
            continue
        if sig not in sig_to_atom:
            sig_to_atom[sig] = len(reps)
            reps.append(ch)
            for c, b in zip(classes, sig):
                if b:
                    member[c.key].add(sig_to_atom[sig])
        else:
            # prefer a printable ASCII representative
            i = sig_to_atom[sig]
            if not (32 < ord(reps[i]) < 127) and 32 < cp < 127:
                reps[i] = ch
    return {k: frozenset(v) for k, v in member.items()}, reps


def analyse(pattern, flags):
    """Returns None when the pattern has no EDA, else a witness dict {prefix, pump, states}."""
    parsed = sre_parse.parse(pattern, flags)
    fl = parsed.state.flags if hasattr(parsed, 'state') else flags
    n = NFA(fl)
    start = n.new()
    n.final = None
    end = n.build(list(parsed), start)
    n.final = end
    pos = [i for i in range(len(n.eps)) if n.cls[i] is not None]
    distinct = {}
    for p in pos:
        distinct.setdefault(n.cls[p].key, n.cls[p])
    member, reps = atoms_for(list(distinct.values()))
    atoms = {p: member[n.cls[p].key] for p in pos}
    succ = {p: n.eps_paths(n.nxt[p]) for p in pos}
    first = n.eps_paths(start)
    for d in list(succ.values()) + [first]:
        d.pop('final', None)
    # reachable positions with a shortest word
    word = {}
    frontier = []
    for q in first:
        word[q] = ''
        frontier.append(q)
    while frontier:
        nf = []
        for p in frontier:
            if not atoms[p]:
                continue
            ch = reps[min(atoms[p])]
            for q in succ[p]:
                if q not in word:
                    word[q] = word[p] + ch
                    nf.append(q)
        frontier = nf
    reach = [p for p in pos if p in word and atoms[p]]
    # product graph
    idx = {}
    nodes = []
    edges = []
    for p in reach:
        for q in reach:
            if atoms[p] & atoms[q]:
                idx[(p, q)] = len(nodes)
                nodes.append((p, q))
    for (p, q) in nodes:
        out = []
        for p2 in succ[p]:
            if p2 not in word or not atoms[p2]:
                continue
            for q2 in succ[q]:
                j = idx.get((p2, q2))
                if j is not None:
                    out.append(j)
        edges.append(out)
    comp = tarjan(len(nodes), edges)
    by_comp = {}
    for i, c in enumerate(comp):
        by_comp.setdefault(c, []).append(i)
    for c, members in by_comp.items():
        mset = set(members)
        diag = [i for i in members if nodes[i][0] == nodes[i][1]]
        if not diag:
            continue
        cyclic = len(members) > 1 or any(i in edges[i] for i in members)
        if not cyclic:
            continue
        off = [i for i in members if nodes[i][0] != nodes[i][1]]
        target = None
        if off:
            target = ('off', off[0])
        else:
            for i in diag:
                p = nodes[i][0]
                for p2, k in succ[p].items():
                    if k >= 2 and idx.get((p2, p2)) in mset:
                        target = ('double', i, idx[(p2, p2)])
                        break
                if target:
                    break
        if not target:
            continue
        # witness: q0 -> ... -> target -> ... -> q0 within the component
        q0 = diag[0] if target[0] == 'off' else target[1]
        if target[0] == 'off':
            a = path(q0, target[1], edges, mset)
            b = path(target[1], q0, edges, mset)
            cyc = a + b[1:]
        else:
            b = path(target[2], q0, edges, mset)
            cyc = [q0] + b
        pump = ''.join(reps[min(atoms[nodes[i][0]] & atoms[nodes[i][1]])] for i in cyc[:-1])
        return {'prefix': word[nodes[q0][0]], 'pump': pump,
                'kind': 'two runs through different positions' if target[0] == 'off' else 'two epsilon paths between the same positions',
                'positions': len(pos), 'product_nodes': len(nodes)}
    return None


def path(a, b, edges, within):
    """Shortest path a -> b (at least one edge when a == b) inside `within`."""
    prev = {}
    frontier = [a]
    seen = set()
    while frontier:
        nf = []
        for x in frontier:
            for y in edges[x]:
                if y in within and y not in seen:
                    seen.add(y)
                    prev[y] = x
                    if y == b:
                        out = [b]
                        while True:
                            x2 = prev[out[-1]]
                            out.append(x2)
                            if x2 == a:
                                break
                        return out[::-1]
                    nf.append(y)
        frontier = nf
    raise Unsupported('no path inside the component')


def tarjan(n, edges):
    index = [None] * n
    low = [0] * n
    on = [False] * n
    comp = [None] * n
    st = []
    counter = [0]
    ncomp = [0]
    for root in range(n):
        if index[root] is not None:
            continue
        work = [(root, 0)]
        while work:
            v, i = work.pop()
            if i == 0:
                index[v] = low[v] = counter[0]
                counter[0] += 1
                st.append(v)
                on[v] = True
            recurse = False
            es = edges[v]
            while i < len(es):
                w = es[i]
                i += 1
                if index[w] is None:
                    work.append((v, i))
                    work.append((w, 0))
                    recurse = True
                    break
                elif on[w]:
                    low[v] = min(low[v], index[w])
            if recurse:
                continue
            if low[v] == index[v]:
                while True:
                    w = st.pop()
                    on[w] = False
                    comp[w] = ncomp[0]
                    if w == v:
                        break
                ncomp[0] += 1
            if work:
                u = work[-1][0]
                low[u] = min(low[u], low[v])
    return comp


# ---- replay ---------------------------------------------------------------------------------------

_CHILD = r'''
import re, sys, time, json
pattern, flags, meth, text = json.loads(sys.stdin.read())
cre = re.compile(pattern, flags)
t = time.time()
f = getattr(cre, meth)
if meth in ('sub', 'subn'):
    f('', text)
elif meth == 'finditer':
    list(f(text))
else:
    f(text)
print(time.time() - t)
'''


def time_match(pattern, flags, meth, text, limit):
    import json
    try:
        p = subprocess.run([sys.executable, '-c', _CHILD], input=json.dumps([pattern, flags, meth, text]),
                           capture_output=True, text=True, timeout=limit)
        return float(p.stdout.strip() or 'nan')
    except subprocess.TimeoutExpired:
        return float('inf')


def replay(pattern, flags, methods, w, budget=BUDGET_S):
    """Pump the witness up to 4 KB and run the real pattern; reproduced when one call exceeds the
    budget."""
    tails = ['', '\x00', '!', '\n', '\x00\n', 'z', '|']
    best = None
    for meth in methods:
        for tail in tails:
            for k in (24, 32, 48, 4000 // max(1, len(w['pump']))):
                k = min(k, 4000 // max(1, len(w['pump'])))
                text = w['prefix'] + w['pump'] * k + tail
                t = time_match(pattern, flags, meth, text, budget)
                if best is None or t > best['seconds']:
                    best = {'method': meth, 'text': text, 'seconds': t}
                if t == float('inf'):
                    best['seconds'] = 'exceeded %ss' % budget
                    best['reproduced'] = True
                    return best
                if t < 0.05 and k < 48:
                    continue
    best['reproduced'] = False
    return best


def make(repo_key):
    pass


def lemma(repo):
    found, unresolved = extract(repo)
    results, sha = [], {}
    cat_runs()
    for d in found:
        name = 'redos:%s' % d['key']
        t0 = time.time()
        sha[d['key']] = hashlib.sha256(d['pattern'].encode()).hexdigest()
        r = {'name': name, 'kind': 'lemma', 'function': d['key'], 'line': d['line'], 'backend': 'eda-product',
             'props': ['C01'],
             'text': 'no exponential degree of ambiguity (no position with two runs on the same word) '
                     '[real pattern %r, used via %s]' % (d['pattern'][:200], ','.join(d['methods']))}
        try:
            w = analyse(d['pattern'], d['flags'])
            if w is None:
                r['verdict'] = 'proved'
            else:
                rp = replay(d['pattern'], d['flags'], d['methods'], w)
                r['model'] = {'prefix': w['prefix'], 'pump': w['pump'], 'kind': w['kind']}
                r['native_replay'] = {'reproduced': rp['reproduced'], 'method': rp['method'],
                                      'seconds': rp['seconds'], 'text': rp['text'],
                                      'pattern': d['pattern'], 'flags': d['flags']}
                if rp['reproduced']:
                    r['verdict'] = 'refuted'
                else:
                    r['verdict'] = 'undecided'
                    r['detail'] = ('automaton has EDA (prefix %r, pump %r) but the real pattern stays within the '
                                   'budget on the pumped inputs tried (slowest %s s)' % (w['prefix'], w['pump'], rp['seconds']))
        except (Unsupported, RecursionError, re.error) as e:
            r['verdict'] = 'undecided'
            r['detail'] = 'out of subset: %s' % e
        r['ms'] = (time.time() - t0) * 1000
        results.append(r)
    for u in unresolved:
        results.append({'name': 'redos:%s' % u['key'], 'kind': 'resolve', 'function': u['key'], 'line': u['line'],
                        'verdict': 'undecided', 'backend': 'none', 'ms': 0, 'props': ['C01'],
                        'detail': 'pattern argument is not a constant expression'})
    return {'results': results, 'sha': sha,
            'assumptions': ['A6b: position automaton of re._parser output; look-arounds/anchors as epsilon, back-reference '
                            'as a copy of its group (both enlarge the set of runs); EDA-free => polynomially many runs; '
                            'polynomial backtracking is not bounded by this lemma']}


LEMMAS = {'redos:patterns': (lemma, ['C01'])}

if __name__ == '__main__':
    repo = sys.argv[1] if len(sys.argv) > 1 else '/repo'
    out = lemma(repo)
    for r in out['results']:
        print(r['verdict'], r['name'], round(r['ms']), r.get('detail', ''), r.get('model', ''))
