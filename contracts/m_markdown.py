"""Contracts for mistletoe/markdown_renderer.py helpers (C10, C09) and token.py (C12)."""
from pyvc.types import *  # noqa
from pyvc.model import Contract, Loop
from .m_block_token import cls_t

MOD = 'mistletoe.markdown_renderer'


def build(m):
    m.namespaces[MOD] = {}
    m.classes.setdefault('Fragment', {})
    FR = TRef('Fragment')
    # make_words yields the words of the fragments (hard line breaks as the word "\n")
    m.methods[('MarkdownRenderer', 'make_words')] = MOD + ':MarkdownRenderer.make_words#words'
    m.add(Contract(MOD + ':MarkdownRenderer.make_words#words', [('cls', cls_t('MarkdownRenderer')), ('fragments', TList(FR))],
                   returns=TList(STR), trusted=True, pure=True, is_classmethod=True,
                   ensures=['forall(lambda i: len(result[i]) >= 1, 0, len(result))'],
                   note='the word list produced by make_words (generator consumed to exhaustion, A11); words are non-empty'))
    # fragments_to_lines with a limit: every yielded line is a single word or fits the limit,
    # and a line is only ended when the next word does not fit (greedy fill)
    m.add(Contract(MOD + ':MarkdownRenderer.fragments_to_lines#wrap',
                   [('cls', cls_t('MarkdownRenderer')), ('fragments', TList(FR)), ('max_line_length', INT)],
                   returns=None,
                   requires=['max_line_length >= 1'],
                   yield_asserts=[('g_single or len(yielded) <= max_line_length', 'C10')],
                   ghost_init={'g_single': (BOOL, 'True')},
                   ghost_after={
                       "current_line = ''": [('g_single', 'True')],
                       'current_line = word': [('g_single', 'True')],
                       'current_line = test': [('g_single', 'False'),
                                               ('__assert__', ('len(current_line) <= max_line_length', 'C10'))],
                   },
                   body_types={'current_line': STR},
                   loops={0: Loop(invariant=[]), 1: Loop(invariant=[]),
                          2: Loop(invariant=['g_single or len(current_line) <= max_line_length'])},
                   prop=['C10']))


def build2(m):
    """Container budgets: children get the limit minus the prefix width, prefixes have that width."""
    MR = TRef('MarkdownRendererObj')
    QT = TRef('ContainerTok')
    LI = TRef('ListItemTok')
    TOKL = TList(TRef('Token'))
    m.classes['MarkdownRendererObj'] = {'normalize_whitespace': BOOL, 'max_line_length': TOpt(INT)}
    m.classes.setdefault('Token', {'line_number': INT})
    m.classes['ContainerTok'] = {'children': TOKL}
    m.classes['ListItemTok'] = {'children': TOKL, 'leader': STR, 'prepend': INT, 'indentation': INT}
    m.methods[('MarkdownRendererObj', 'blocks_to_lines')] = MOD + ':MarkdownRenderer.blocks_to_lines#lines'
    m.add(Contract(MOD + ':MarkdownRenderer.blocks_to_lines#lines', [('self', MR), ('tokens', TOKL), ('max_line_length', TOpt(INT))],
                   returns=TList(STR), trusted=True, pure=True,
                   note='the lines produced for the child blocks (generator consumed to exhaustion, A11)'))
    m.methods[('MarkdownRendererObj', 'prefix_lines')] = MOD + ':MarkdownRenderer.prefix_lines#lines'
    m.add(Contract(MOD + ':MarkdownRenderer.prefix_lines#lines',
                   [('self', MR), ('lines', TList(STR)), ('first_line_prefix', STR), ('following_line_prefix', TOpt(STR), NONE_VAL)],
                   returns=TList(STR), trusted=True, pure=True,
                   # the list view restates, item by item, the yield asserts proved on the real body (prefix_lines#width)
                   ensures=['len(result) == len(lines)',
                            "forall(lambda i: result[i] == '' or result[i] == (first_line_prefix if i == 0 else "
                            "(some(following_line_prefix) if not is_none(following_line_prefix) and some(following_line_prefix) != '' "
                            "else first_line_prefix)) + lines[i], 0, len(result))"],
                   note='prefix_lines as a list transformer (generator consumed to exhaustion, A11); the item facts are the '
                        'yield asserts proved on its real body in prefix_lines#width'))
    L = 'old(max_line_length)'
    A = 'arg_max_line_length'
    m.add(Contract(MOD + ':MarkdownRenderer.render_quote#budget', [('self', MR), ('token', QT), ('max_line_length', TOpt(INT))],
                   returns=TList(STR),
                   requires=['is_none(max_line_length) or some(max_line_length) >= 0'],
                   call_asserts={
                       MOD + ':MarkdownRenderer.blocks_to_lines#lines': [
                           # no limit stays no limit; a positive limit is reduced by the prefix width 2
                           ('implies(is_none(%s) or some(%s) == 0, is_none(arg_max_line_length))' % (L, L), 'C10'),
                           ('implies(not is_none(%s) and some(%s) >= 1, not is_none(arg_max_line_length) and some(arg_max_line_length) >= 1 '
                            'and some(arg_max_line_length) >= some(%s) - 2)' % (L, L, L), 'C10'),
                           ('implies(not is_none(%s) and some(%s) >= 3, some(arg_max_line_length) == some(%s) - 2)' % (L, L, L), 'C10')],
                       MOD + ':MarkdownRenderer.prefix_lines#lines': [
                           ("len(arg_first_line_prefix) == 2 and is_none(arg_following_line_prefix)", 'C10')]},
                   prop=['C10']))
    m.add(Contract(MOD + ':MarkdownRenderer.render_list_item#budget', [('self', MR), ('token', LI), ('max_line_length', TOpt(INT))],
                   returns=TList(STR),
                   requires=['is_none(max_line_length) or some(max_line_length) >= 0',
                             # constructor invariant of ListItem (parse_marker): the content offset lies
                             # behind indentation + leader
                             'token.indentation >= 0', 'len(token.leader) >= 1',
                             'token.prepend >= token.indentation + len(token.leader)'],
                   call_asserts={
                       MOD + ':MarkdownRenderer.blocks_to_lines#lines': [
                           ('implies(is_none(%s) or some(%s) == 0, is_none(arg_max_line_length))' % (L, L), 'C10'),
                           ('implies(not is_none(%s) and some(%s) >= 1, not is_none(arg_max_line_length) and some(arg_max_line_length) >= 1)' % (L, L), 'C10'),
                           ('implies(not is_none(%s) and some(%s) >= 1 and not self.normalize_whitespace and some(%s) - token.prepend >= 1, '
                            'some(arg_max_line_length) == some(%s) - token.prepend)' % (L, L, L, L), 'C10'),
                           # with normalised white space the prefix written is leader + one blank: that width, not the
                           # source's, comes off the budget (otherwise a second reflow fills the lines differently)
                           ('implies(not is_none(%s) and some(%s) >= 1 and self.normalize_whitespace and some(%s) - (len(token.leader) + 1) >= 1, '
                            'some(arg_max_line_length) == some(%s) - (len(token.leader) + 1))' % (L, L, L, L), 'C10')],
                       MOD + ':MarkdownRenderer.prefix_lines#lines': [
                           # both prefixes have exactly the width that was taken off the budget
                           ('implies(not self.normalize_whitespace, len(arg_first_line_prefix) == token.prepend and '
                            'len(some(arg_following_line_prefix)) == token.prepend)', 'C10'),
                           ('implies(self.normalize_whitespace, len(arg_first_line_prefix) == len(token.leader) + 1 and '
                            'len(some(arg_following_line_prefix)) == len(token.leader) + 1)', 'C10')]},
                   prop=['C10', 'C09']))


def build3(m):
    """token.py: the children setter stamps the parent link (C12)."""
    TK = TRef('TokenObj')
    m.classes['TokenObj'] = {'_children': TList(TK), '_parent': TOpt(TK)}
    m.namespaces['mistletoe.token'] = m.namespaces.get('mistletoe.token', {})
    m.add(Contract('mistletoe.token:Token.children@2', [('self', TK), ('value', TList(TK))],
                   ensures=[('forall(lambda i: value[i]._parent == self, 0, len(value))', 'C12'),
                            ('same(self._children, value)', 'C12')],
                   modifies=['self._children', 'F:TokenObj._parent'],
                   loops={0: Loop(invariant=['forall(lambda i: value[i]._parent == self, 0, _k0)',
                                             'same(self._children, value)'])},
                   prop=['C12']))


def build4(m):
    """utils.traverse: every yielded (node, parent, depth) names a real child of its parent at its
    true depth (C12)."""
    TN = TRef('TNode')
    m.classes['TNode'] = {'children': TOpt(TList(TN)), 'gdepth': INT, 'gparent': TN}
    m.classes['Klass'] = {}
    m.namespaces['mistletoe.utils'] = {'TraverseResult': ('tuple_ctor', 'TraverseResult')}
    # gparent: ghost parent link of the tree (every listed child has exactly the parent that lists it)
    m.predicate('CHILD_OF', ['c', 'p'], 'c.gparent == p')
    # gdepth: ghost level of a node below the traversal source (exists for every tree)
    m.predicate('TREE_DEPTH', [], "forall_ref('TNode', lambda p: implies(not is_none(p.children), "
                                  "forall(lambda i: some(p.children)[i].gdepth == p.gdepth + 1 and some(p.children)[i].gparent == p "
                                  "and allocated(some(p.children)[i]), 0, len(some(p.children)))))")
    PAIRS_OK = ('forall(lambda j: %s[j][1].gdepth == %s and CHILD_OF(%s[j][1], %s[j][0]) and allocated(%s[j][1]), 0, len(%s))')
    m.add(Contract('mistletoe.utils:traverse',
                   [('source', TN), ('klass', TOpt(TRef('Klass')), NONE_VAL), ('depth', TOpt(INT), NONE_VAL),
                    ('include_source', BOOL, mk_bool(False))], returns=None,
                   requires=['TREE_DEPTH()', 'source.gdepth == 0', 'is_none(depth) or some(depth) >= 0'],
                   options={'concat_axioms': True},
                   yield_type=TTuple([TN, TOpt(TN), INT]),
                   yield_asserts=[('yielded[2] == yielded[0].gdepth', 'C12'),
                                  ('is_none(yielded[1]) or CHILD_OF(yielded[0], some(yielded[1]))', 'C12'),
                                  ('implies(is_none(yielded[1]), yielded[0] == source)', 'C12'),
                                  ('implies(not is_none(depth), yielded[2] <= some(depth))', 'C12')],
                   body_types={'next_children': TList(TTuple([TN, TN])), 'new_children': TList(TTuple([TN, TN]))},
                   loops={
                       0: Loop(invariant=['current_depth >= 0',
                                          PAIRS_OK % ('next_children', 'current_depth + 1', 'next_children', 'next_children', 'next_children', 'next_children')]),
                       1: Loop(invariant=['current_depth >= 1',
                                          'implies(not is_none(depth), current_depth <= some(depth))',
                                          PAIRS_OK % ('next_children', 'current_depth', 'next_children', 'next_children', 'next_children', 'next_children'),
                                          PAIRS_OK % ('new_children', 'current_depth + 1', 'new_children', 'new_children', 'new_children', 'new_children')]),
                   }, prop=['C12']))


def build5(m):
    """Every block render method hands ITS max_line_length argument (the budget left after the
    container prefixes) on to the line builders -- never the renderer-wide setting (C10)."""
    MR = TRef('MarkdownRendererObj')
    TOKL = TList(TRef('Token'))
    BT = TRef('BlockTok')
    m.classes['BlockTok'] = {'children': TOKL, 'underline': STR}
    m.methods[('MarkdownRendererObj', 'span_to_lines')] = MOD + ':MarkdownRenderer.span_to_lines#lines'
    m.add(Contract(MOD + ':MarkdownRenderer.span_to_lines#lines', [('self', MR), ('tokens', TOKL), ('max_line_length', TOpt(INT))],
                   returns=TList(STR), trusted=True, pure=True,
                   note='the lines produced for a run of span tokens (generator consumed to exhaustion, A11)'))
    SAME = ('same(arg_max_line_length, old(max_line_length))', 'C10')
    for name, callee in [('render_paragraph', 'span_to_lines'), ('render_setext_heading', 'span_to_lines'),
                         ('render_link_reference_definition_block', 'span_to_lines'),
                         ('render_list', 'blocks_to_lines'), ('render_document', 'blocks_to_lines')]:
        m.add(Contract(MOD + ':MarkdownRenderer.%s#budget' % name, [('self', MR), ('token', BT), ('max_line_length', TOpt(INT))],
                       returns=None,
                       call_asserts={MOD + ':MarkdownRenderer.%s#lines' % callee: [SAME]},
                       loops={0: Loop(invariant=[])},
                       prop=['C10']))


def build6(m):
    """make_words and prefix_lines verified on their real bodies (C10): words are never empty, a
    prefixed line is the prefix followed by the line (so its width is exactly prefix + line) or the
    empty string when it would be blank."""
    FR = TRef('Fragment')
    m.classes['Fragment'] = {'text': STR, 'wordwrap': BOOL, 'hard_line_break': BOOL,
                             '__has_wordwrap': BOOL, '__has_hard_line_break': BOOL}
    m.optional_fields |= {('Fragment', 'wordwrap'), ('Fragment', 'hard_line_break')}
    m.class_attrs[('MarkdownRenderer', '_whitespace')] = ('const', mk_obj('pattern', 'MarkdownRenderer._whitespace'))
    m.add(Contract('re:MarkdownRenderer._whitespace.split', [('s', STR)], returns=TList(STR), trusted=True, pure=True,
                   ensures=['len(result) >= 1', "forall(lambda i: result[i] != '\\n', 0, len(result))"],
                   note=r'A5: re.split(r"\s+", s) returns at least one piece'))
    # Fragment protocol (render_line_break): a hard line break carries its marker ("\\" or two blanks) and "\n"
    HARD = ("forall(lambda i: implies(field(fragments[i], '__has_hard_line_break') and fragments[i].hard_line_break "
            "and not (field(fragments[i], '__has_wordwrap') and fragments[i].wordwrap), len(fragments[i].text) >= 2 "
            "and fragments[i].text[:-1] != '\\n'), 0, len(fragments))")
    # ... and only a hard line break is the text "\n" (code spans, raw HTML and text never are a bare newline)
    NOTNL = ("forall(lambda i: implies(not (field(fragments[i], '__has_hard_line_break') and fragments[i].hard_line_break), "
             "fragments[i].text != '\\n'), 0, len(fragments))")
    m.add(Contract(MOD + ':MarkdownRenderer.make_words', [('cls', cls_t('MarkdownRenderer')), ('fragments', TList(FR))],
                   returns=None, requires=[HARD, NOTNL],
                   yield_type=STR,
                   yield_asserts=[('len(yielded) >= 1', 'C10'),
                                  # C10 (meaning preserved): the word "\n" is a hard line break, and it is always preceded
                                  # by a word that ends with the break's marker (backslash or the two blanks) - the marker
                                  # is never dropped, whatever stood before it
                                  ("implies(yielded == '\\n', ghost('__last_yield__').endswith(fragment.text[:-1]) and "
                                   "len(fragment.text) >= 2 and field(fragment, '__has_hard_line_break') and fragment.hard_line_break)", 'C10')],
                   body_types={'word': STR},
                   loops={0: Loop(invariant=["word != '\\n'", "implies(_k0 == 0, word == '')"]), 1: Loop(invariant=["word != '\\n'"])},
                   prop=['C10']))
    m.add(Contract(MOD + ':MarkdownRenderer.prefix_lines#width',
                   [('cls', cls_t('MarkdownRenderer')), ('lines', TList(STR)), ('first_line_prefix', STR),
                    ('following_line_prefix', TOpt(STR), NONE_VAL)],
                   returns=None, yield_type=STR,
                   yield_asserts=[
                       # C10 / C09: a prefixed line is prefix + line (first prefix on the first line, the
                       # following prefix - or the first one when none / an empty one is given - afterwards)
                       ("yielded == '' or yielded == (old(first_line_prefix) if _k0 == 0 else "
                        "(some(old(following_line_prefix)) if not is_none(old(following_line_prefix)) and "
                        "some(old(following_line_prefix)) != '' else old(first_line_prefix))) + lines[_k0]", ['C10', 'C09']),
                       # only a line that would consist of white space is emptied
                       ("implies(yielded == '', (old(first_line_prefix) + lines[_k0]).strip() == '' or "
                        "(not is_none(old(following_line_prefix)) and (some(old(following_line_prefix)) + lines[_k0]).strip() == ''))",
                        ['C10', 'C09']),
                   ],
                   loops={0: Loop(invariant=['is_first_line == (_k0 == 0)'])},
                   prop=['C10', 'C09']))


def build7(m):
    """Blocks that are never re-broken (C10) and are written back from their retained spelling (C09):
    ATX headings, thematic breaks, fenced code."""
    MR = TRef('MarkdownRendererObj')
    TOKL = TList(TRef('Token'))
    HT = TRef('HeadingTok')
    m.classes['HeadingTok'] = {'children': TOKL, 'level': INT, 'closing_sequence': STR}
    m.add(Contract(MOD + ':MarkdownRenderer.render_heading', [('self', MR), ('token', HT), ('max_line_length', TOpt(INT))],
                   returns=TList(STR),
                   requires=['1 <= token.level', 'token.level <= 6'],
                   call_asserts={MOD + ':MarkdownRenderer.span_to_lines#lines': [
                       # C10: an ATX heading is one line whatever the limit: its text is laid out without a limit
                       ('is_none(arg_max_line_length)', 'C10')]},
                   ensures=[('len(result) == 1', ['C10', 'C09']),
                            # C09: the marker is one '#' per level, then the text, then the retained closing sequence
                            ("result[0].startswith('#' * token.level)", 'C09'),
                            ("implies(token.closing_sequence != '', result[0].endswith(' ' + token.closing_sequence))", 'C09')],
                   prop=['C10', 'C09']))
    TB = TRef('ThematicBreakObj')
    m.classes.setdefault('ThematicBreakObj', {'line': STR})
    m.add(Contract(MOD + ':MarkdownRenderer.render_thematic_break', [('self', MR), ('token', TB), ('max_line_length', TOpt(INT))],
                   returns=TList(STR),
                   ensures=[('len(result) == 1 and result[0] == token.line', ['C09', 'C10'])], prop=['C09', 'C10']))


def build8(m):
    """Fenced code blocks are written back from the retained opening fence (C09) and their content
    lines are only prefixed, never re-broken (C10)."""
    MR = TRef('MarkdownRendererObj')
    CFT = TRef('CodeFenceTok')
    m.classes['CodeFenceTok'] = {'indentation': INT, 'delimiter': STR, 'info_string': STR, 'content': STR}
    m.add(Contract(MOD + ':MarkdownRenderer.render_fenced_code_block', [('self', MR), ('token', CFT), ('max_line_length', TOpt(INT))],
                   returns=None, yield_type=STR,
                   requires=['token.indentation >= 0'],
                   ghost_init={'g_n': (INT, '0')},
                   yield_asserts=[
                       # every line the method writes itself is indentation + fence (+ info string on the opening line)
                       ("yielded == ' ' * token.indentation + token.delimiter + token.info_string or "
                        "yielded == ' ' * token.indentation + token.delimiter or "
                        # ... and every content line is the indentation followed by the line (or empty when blank)
                        "yielded == '' or yielded.startswith(' ' * token.indentation)", ['C09', 'C10'])],
                   call_asserts={MOD + ':MarkdownRenderer.prefix_lines#lines': [
                       # the content lines get the fence's indentation as their prefix - nothing else is done to them
                       ("arg_first_line_prefix == ' ' * token.indentation and is_none(arg_following_line_prefix)", ['C09', 'C10']),
                       # ... to exactly the lines of the code: the content without its final newline, cut at LF only
                       ("same(arg_lines, token.content[:-1].split('\\n'))", ['C09', 'C10'])]},
                   prop=['C09', 'C10']))
