"""Pattern-language lemmas (DESIGN.md 2.4): the regular languages of the block-start patterns,
read from the working tree with ast, against specification languages transcribed from
CommonMark 0.30 / GFM.  Every refutation carries a witness string that is replayed through the
real compiled pattern."""
import re
import time
import hashlib
import z3
from pyvc import regexlang as R

# --- specification languages (full-line languages; a line ends with exactly one "\n") ------------
# STRICT: as the specification words them (space / tab only).  RELAXED: the same with Python's \s
# wherever the implementation chose \s, to separate "which characters count as blank" (one known
# finding) from the structure of the construct.
SPEC = {
    'atx': {
        'strict': r' {0,3}#{1,6}(?:[ \t][^\n]*)?\n',
        'relaxed': r' {0,3}#{1,6}(?:\s[^\n]*)?\n',
        'ref': 'CommonMark 0.30 section 4.2: 1-6 unescaped # followed by spaces/tabs or end of line, indent 0-3',
    },
    'thematic': {
        'strict': r' {0,3}(?:(?:\*[ \t]*){3,}|(?:-[ \t]*){3,}|(?:_[ \t]*){3,})\n',
        'relaxed': r' {0,3}(?:(?:\*\s*){3,}|(?:-\s*){3,}|(?:_\s*){3,})\n',
        'ref': 'section 4.1: three or more matching -, _ or * characters, each followed optionally by spaces or tabs',
    },
    'marker': {
        'strict': r' {0,3}(?:[-+*]|[0-9]{1,9}[.)])(?:[ \t][^\n]*)?\n',
        'relaxed': r' {0,3}(?:[-+*]|[0-9]{1,9}[.)])(?:\s[^\n]*)?\n',
        'ref': 'section 5.2: bullet - + * or 1-9 arabic digits followed by . or ), then a space/tab or end of line',
    },
    'setext': {
        'strict': r' {0,3}(?:=+|-+)[ \t]*\n',
        'relaxed': r' {0,3}(?:=+|-+)[ \t]*\n',
        'ref': 'section 4.3: a setext underline is a sequence of = or a sequence of - (not mixed), indent 0-3, trailing spaces/tabs',
    },
    'fence': {
        'strict': r' {0,3}(?:`{3,}[^`\n]*|~{3,}[^\n]*)\n',
        'relaxed': r' {0,3}(?:`{3,}[^`\n]*|~{3,}[^\n]*)\n',
        'ref': 'section 4.5: at least three ` or ~, indent 0-3; a backtick fence info string may not contain backticks',
    },
    'blank': {
        # not from the specification but from the parser itself: every block reader tests
        # `line.strip() == ''`, so the Markdown renderer's BlankLine token must start on exactly the
        # lines made of Python whitespace (C09: blank lines are kept as tokens)
        'strict': r'\s*\n',
        'relaxed': r'\s*\n',
        'ref': "the block readers' blank-line test line.strip() == '' (Python whitespace only, then the terminator)",
    },
}

# (obligation suffix, module, pattern key, spec id, dialect, direction, props, side)
LEMMA_TABLE = [
    ('Heading.pattern', 'mistletoe.block_token', 'atx', ['C14', 'C02', 'C03']),
    ('ThematicBreak.pattern', 'mistletoe.block_token', 'thematic', ['C14', 'C02', 'C03']),
    ('ListItem.pattern', 'mistletoe.block_token', 'marker', ['C14', 'C02', 'C03', 'C12']),
    ('List.pattern', 'mistletoe.block_token', 'marker', ['C14', 'C02', 'C03', 'C12']),
    ('Paragraph.setext_pattern', 'mistletoe.block_token', 'setext', ['C14', 'C02', 'C03']),
    ('CodeFence.pattern', 'mistletoe.block_token', 'fence', ['C14', 'C02', 'C03']),
    ('BlankLine.pattern', 'mistletoe.markdown_renderer', 'blank', ['C09']),
]


def line_lang():
    return z3.Concat(z3.Star(z3.Intersect(R.allchar(), z3.Complement(R.lit('\n')))), R.lit('\n'))


def code_language(key, pattern, flags):
    lang = R.language(pattern, flags, 'match')
    if key == 'CodeFence.pattern':
        # side condition in CodeFence.start: a backtick fence whose info string contains a backtick
        # is rejected (the greedy leader takes the whole backtick run)
        bad = R.language(r' {0,3}`{3,}[^`\n][^\n]*`', 0, 'match')
        lang = z3.Intersect(lang, z3.Complement(bad))
    return lang


def native_check(key, pattern, flags, spec_regex, witness, direction):
    """Replay a witness through the real pattern (compiled from the working tree's string)."""
    try:
        cre = re.compile(pattern, flags)
        sre = re.compile(spec_regex)
        in_code = bool(cre.match(witness))
        if key == 'CodeFence.pattern' and in_code:
            m = cre.match(witness)
            if m.group(2)[0] == '`' and '`' in m.group(3):
                in_code = False
        in_spec = bool(sre.fullmatch(witness))
        ok = (in_code and not in_spec) if direction == 'code<=spec' else (in_spec and not in_code)
        return {'reproduced': ok, 'witness': witness, 'real_pattern_matches': in_code,
                'spec_language_contains': in_spec}
    except Exception as e:  # pragma: no cover
        return {'reproduced': False, 'error': repr(e)}


def make_lemma(key, module, spec_id, props):
    def fn(repo):
        t0 = time.time()
        pats = R.extract_patterns(repo, module)
        results = []
        if key not in pats:
            results.append({'name': 'lang:%s:resolve' % key, 'kind': 'resolve', 'function': key, 'line': 0,
                            'verdict': 'undecided', 'backend': 'none', 'ms': 0,
                            'detail': 'pattern not found as a constant re.compile() argument', 'props': props})
            return {'results': results, 'sha': {}}
        pattern, flags = pats[key]
        sha = hashlib.sha256(pattern.encode()).hexdigest()
        LINE = line_lang()
        try:
            code = z3.Intersect(LINE, code_language(key, pattern, flags))
        except R.Unsupported as e:
            results.append({'name': 'lang:%s:translate' % key, 'kind': 'subset', 'function': key, 'line': 0,
                            'verdict': 'undecided', 'backend': 'none', 'ms': 0,
                            'detail': 'out-of-subset regex: %s' % e, 'props': props})
            return {'results': results, 'sha': {key: sha}}
        for dialect in ('relaxed', 'strict'):
            sregex = SPEC[spec_id][dialect]
            spec = z3.Intersect(LINE, R.language(sregex, 0, 'fullmatch'))
            dirs = [('code<=spec', code, spec)]
            if dialect == 'strict':
                dirs.append(('spec<=code', spec, code))
            for dname, a, b in dirs:
                t1 = time.time()
                verdict, w = R.check_subset(a, b)
                ms = (time.time() - t1) * 1000
                r = {'name': 'lang:%s:%s:%s' % (key, dname, dialect), 'kind': 'lemma', 'function': key,
                     'line': 0, 'verdict': verdict, 'backend': 'z3-re', 'ms': ms, 'props': props,
                     'text': '%s  [%s; spec language %r; real pattern %r]' % (
                         dname, SPEC[spec_id]['ref'], sregex, pattern)}
                if verdict == 'refuted':
                    r['model'] = {'witness': w}
                    r['native_replay'] = native_check(key, pattern, flags, sregex, w, dname)
                    if not r['native_replay'].get('reproduced'):
                        # the witness does not replay on the real pattern: translation slack (A6)
                        r['verdict'] = 'undecided'
                        r['detail'] = 'solver witness %r does not replay on the real pattern' % w
                elif verdict == 'undecided':
                    r['detail'] = str(w)
                results.append(r)
        return {'results': results, 'sha': {key: sha},
                'assumptions': ['A6: translation of re syntax to RegLan (Unicode \\s/\\d ranges from str.isspace/isdecimal; '
                                '$ as lookahead; lazy = greedy for membership); every witness is replayed on the real pattern']}
    return fn


def width_lemma(repo):
    """C12: heading level = len(group 1) of Heading.pattern lies in 1..6."""
    pats = R.extract_patterns(repo, 'mistletoe.block_token')
    res = []
    t0 = time.time()
    if 'Heading.pattern' not in pats:
        return {'results': [{'name': 'width:Heading.pattern.g1', 'kind': 'resolve', 'function': 'Heading.pattern',
                             'line': 0, 'verdict': 'undecided', 'backend': 'none', 'ms': 0, 'props': ['C12', 'C08'],
                             'detail': 'pattern not found'}]}
    p, fl = pats['Heading.pattern']
    try:
        lo, hi = R.group_width(p, 1, fl)
        ok = (lo >= 1 and hi <= 6)
        res.append({'name': 'width:Heading.pattern.g1 in [1,6]', 'kind': 'lemma', 'function': 'Heading.pattern',
                    'line': 0, 'verdict': 'proved' if ok else 'refuted', 'backend': 'sre-width',
                    'ms': (time.time() - t0) * 1000, 'props': ['C12', 'C08'],
                    'text': 'width of group 1 (the # run) is within [1,6]: computed [%s,%s]' % (lo, hi),
                    'model': None if ok else {'width': [lo, hi]},
                    'native_replay': {'reproduced': not ok, 'witness': ' ' * 0 + '#' * (hi if hi < 50 else 7) + ' x\n'}})
    except R.Unsupported as e:
        res.append({'name': 'width:Heading.pattern.g1 in [1,6]', 'kind': 'lemma', 'function': 'Heading.pattern', 'line': 0,
                    'verdict': 'undecided', 'backend': 'none', 'ms': 0, 'props': ['C12', 'C08'], 'detail': str(e)})
    return {'results': res, 'sha': {'Heading.pattern': hashlib.sha256(p.encode()).hexdigest()}}


def extension_lemmas(repo):
    """C18: an extension token cannot match when its trigger characters are absent."""
    res = []
    sha = {}
    table = [
        ('Math.pattern', 'mistletoe.latex_token', r'[^$]*', "no '$' in the text => Math.pattern matches nowhere"),
        ('GithubWiki.pattern', 'mistletoe.contrib.github_wiki', None, "every match contains '[[', a later '|' and a later ']]'"),
    ]
    for key, module, _, text in table:
        pats = R.extract_patterns(repo, module)
        name = 'lang:%s:needs-trigger' % key
        if key not in pats:
            res.append({'name': name, 'kind': 'resolve', 'function': key, 'line': 0, 'verdict': 'undecided',
                        'backend': 'none', 'ms': 0, 'props': ['C18'], 'detail': 'pattern not found'})
            continue
        p, fl = pats[key]
        sha[key] = hashlib.sha256(p.encode()).hexdigest()
        t1 = time.time()
        try:
            lang = R.language(p, fl, 'fullmatch', at_start=False, over_approx=True)
            if key == 'Math.pattern':
                need = z3.Concat(R.full(), R.lit('$'), R.full())
            else:
                need = z3.Concat(R.full(), R.lit('[['), R.full(), R.lit('|'), R.full(), R.lit(']]'), R.full())
            verdict, w = R.check_subset(lang, need)
        except R.Unsupported as e:
            verdict, w = 'undecided', str(e)
        r = {'name': name, 'kind': 'lemma', 'function': key, 'line': 0, 'verdict': verdict, 'backend': 'z3-re',
             'ms': (time.time() - t1) * 1000, 'props': ['C18'], 'text': text + ' [real pattern %r]' % p}
        if verdict == 'refuted':
            r['model'] = {'witness': w}
            m = re.compile(p, fl).fullmatch(w)
            r['native_replay'] = {'reproduced': bool(m), 'witness': w}
            if not m:
                r['verdict'] = 'undecided'
                r['detail'] = 'witness does not replay'
        elif verdict == 'undecided':
            r['detail'] = str(w)
        res.append(r)
    return {'results': res, 'sha': sha}


LEMMAS = {}
for key, module, spec_id, props in LEMMA_TABLE:
    LEMMAS['lang:' + key] = (make_lemma(key, module, spec_id, props), props)
LEMMAS['width:Heading.pattern'] = (width_lemma, ['C12', 'C08'])
LEMMAS['lang:extensions'] = (extension_lemmas, ['C18'])
