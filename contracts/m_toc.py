"""Contracts for mistletoe/contrib/toc_renderer.py (C19) and utils.traverse helpers (C12)."""
from pyvc.types import *  # noqa
from pyvc.model import Contract, Loop

MOD = 'mistletoe.contrib.toc_renderer'


def build(m):
    PRED = TRef('Pred')
    TOC = TRef('TocRenderer')
    HT = TRef('HeadingTok')
    ENTRY = TTuple([INT, STR])
    m.classes['Pred'] = {}
    m.classes['HeadingTok'] = {'level': INT}
    m.classes['TocRenderer'] = {'_headings': TList(ENTRY), 'depth': INT, 'omit_title': BOOL,
                                'filter_conds': TList(PRED)}
    m.classes['HtmlRenderer'] = {}
    m.subclass_of['TocRenderer'] = 'HtmlRenderer'
    m.namespaces[MOD] = {}
    m.ufunc('pred_holds', [PRED, STR], BOOL)
    m.ufunc('html_render_heading', [HT], STR)
    m.ufunc('plain_text', [STR], STR)
    m.methods[('Pred', '__call__')] = 'protocol:Pred.__call__'
    m.add(Contract('protocol:Pred.__call__', [('self', PRED), ('content', STR)], returns=BOOL, trusted=True, pure=True,
                   ensures=['result == pred_holds(self, content)'],
                   note='user filter predicates are pure functions of the heading text'))
    m.methods[('HtmlRenderer', 'render_heading')] = 'mistletoe.html_renderer:HtmlRenderer.render_heading#toc'
    m.add(Contract('mistletoe.html_renderer:HtmlRenderer.render_heading#toc', [('self', TRef('HtmlRenderer')), ('token', HT)],
                   returns=STR, trusted=True, pure=True, ensures=['result == html_render_heading(token)'],
                   note='the inherited HTML rendering of the heading, as an uninterpreted function of the token'))
    m.methods[('TocRenderer', 'parse_rendered_heading')] = MOD + ':TocRenderer.parse_rendered_heading'
    m.add(Contract(MOD + ':TocRenderer.parse_rendered_heading', [('rendered', STR)], returns=STR, trusted=True, pure=True,
                   ensures=['result == plain_text(rendered)'], is_static=True,
                   note="re.sub(r'<.+?>', '', rendered): the plain text of a rendered heading (A5)"))
    # other ways of getting at a heading's text are different functions of the token: a change that swaps
    # them in fails the collection postcondition instead of leaving the method outside the subset
    m.ufunc('to_plain', [HT], STR)
    m.methods[('HtmlRenderer', 'render_to_plain')] = 'mistletoe.html_renderer:HtmlRenderer.render_to_plain#toc'
    m.add(Contract('mistletoe.html_renderer:HtmlRenderer.render_to_plain#toc', [('self', TRef('HtmlRenderer')), ('token', HT)],
                   returns=STR, trusted=True, pure=True, ensures=['result == to_plain(token)'],
                   note='render_to_plain(token) as an uninterpreted function of the token (not the tag-stripped rendering)'))
    CONTENT = 'plain_text(html_render_heading(token))'
    Q = ('(not (self.omit_title and token.level == 1) and token.level <= self.depth and '
         'not exists(lambda i: pred_holds(self.filter_conds[i], %s), 0, len(self.filter_conds)))' % CONTENT)
    m.methods[('TocRenderer', 'render_heading')] = MOD + ':TocRenderer.render_heading'
    m.add(Contract(MOD + ':TocRenderer.render_heading', [('self', TOC), ('token', HT)], returns=STR,
                   ensures=[
                       # C18 pass-through: the HTML is exactly the inherited rendering
                       ('result == html_render_heading(token)', ['C18', 'C19']),
                       # C19: the heading is collected iff it qualifies; the list is append-only and ordered
                       ('implies(%s, len(self._headings) == len(old(self._headings)) + 1 and '
                        'self._headings[len(old(self._headings))][0] == token.level and '
                        'self._headings[len(old(self._headings))][1] == %s)' % (Q, CONTENT), 'C19'),
                       ('implies(not %s, same(self._headings, old(self._headings)))' % Q, 'C19'),
                       ('forall(lambda i: self._headings[i] == old(self._headings)[i], 0, len(old(self._headings)))', 'C19'),
                   ],
                   modifies=['self._headings'], prop=['C19', 'C18']))


def build2(m):
    """TocRenderer.toc: entries are nested by a stack of open levels (C19)."""
    TOC = TRef('TocRenderer')
    ns = m.namespaces[MOD]
    ns['block_token'] = ('module', 'mistletoe.block_token')
    m.namespaces.setdefault('mistletoe.block_token', {})
    if 'tokenize' not in m.namespaces['mistletoe.block_token']:
        m.namespaces['mistletoe.block_token']['tokenize'] = ('func', 'mistletoe.block_token:tokenize#toc')
        m.add(Contract('mistletoe.block_token:tokenize#toc', [('lines', TList(STR))], returns=TList(TRef('Token')),
                       trusted=True, note='re-tokenization of the TOC lines (the block parser itself)'))
        m.classes.setdefault('Token', {'line_number': INT})
    m.methods[('TocRenderer', 'toc')] = MOD + ':TocRenderer.toc'
    # LINES_NL: every line handed to the block tokenizer ends with its terminator
    NLINV = "forall(lambda i: lines[i].endswith('\\n'), 0, len(lines))"
    m.add(Contract(MOD + ':TocRenderer.toc', [('self', TOC)], returns=None, is_property=True,
                   allow_exc=['CustomTokenError'],
                   modifies=['G:SCRATCH', 'G:FOOTNOTES', 'G:INLINE_PHASE', 'N:Token.line_number', 'N:Token.children',
                             'F:Token.line_number', 'N:FileWrapper._index', 'N:FileWrapper.lines', 'N:FileWrapper.start_line',
                             'N:FileWrapper._anchor', 'N:ParseBuffer.items', 'N:ParseBuffer.loose'],
                   ghost_after={
                       # the printed nesting depth of an entry is the number of open (smaller-level) ancestors,
                       # the closest of which is the top of the stack: smaller than the entry's own level
                       'lines.append(build_list_item(len(open_levels), content))': [
                           ('__assert__', ('implies(len(open_levels) > 0, open_levels[len(open_levels) - 1] < level)', 'C19')),
                           ('__assert__', ("len(lines[len(lines) - 1]) == 4 * len(open_levels) + 2 + len(content) + 1", 'C19')),
                           ('__assert__', ("lines[len(lines) - 1].endswith('- ' + content + '\\n')", 'C19'))],
                   },
                   body_types={'lines': TList(STR), 'open_levels': TList(INT)},
                   loops={0: Loop(invariant=[
                       # open levels are strictly increasing: each open entry is nested in the previous one
                       'forall(lambda i: open_levels[i] < open_levels[i + 1], 0, len(open_levels) - 1)',
                       'len(lines) == _k0', NLINV]),
                       1: Loop(invariant=['forall(lambda i: open_levels[i] < open_levels[i + 1], 0, len(open_levels) - 1)',
                                          'len(lines) == _k0', NLINV],
                               decreases='len(open_levels)')},
                   prop=['C19']))


def build3(m):
    """TocRenderer.render_document (C19: the table of contents belongs to the document being rendered -
    the collection starts empty; C18: the output is exactly the inherited rendering)."""
    TOC = TRef('TocRenderer')
    DOC = TRef('TocDocTok')
    m.classes['TocDocTok'] = {}
    m.ufunc('toc_html_render_document', [DOC], STR)
    m.methods[('HtmlRenderer', 'render_document')] = 'mistletoe.html_renderer:HtmlRenderer.render_document#toc'
    m.add(Contract('mistletoe.html_renderer:HtmlRenderer.render_document#toc', [('self', TRef('HtmlRenderer')), ('token', DOC)],
                   returns=STR, trusted=True,
                   ensures=['result == toc_html_render_document(token)'],
                   modifies=['F:TocRenderer._headings'],
                   note='the inherited rendering of the document (an uninterpreted function of the token); rendering the '
                        'headings inside it appends to _headings (TocRenderer.render_heading, under contract)'))
    m.add(Contract(MOD + ':TocRenderer.render_document', [('self', TOC), ('token', DOC)], returns=STR,
                   call_asserts={'mistletoe.html_renderer:HtmlRenderer.render_document#toc': [
                       # C19: nothing collected for an earlier document is left when this one starts to render
                       ('len(self._headings) == 0', 'C19')]},
                   ensures=[('result == toc_html_render_document(token)', ['C18', 'C19'])],
                   modifies=['self._headings', 'F:TocRenderer._headings'], prop=['C19', 'C18']))
