"""Contracts for the global-state discipline (C11), Document.__init__ (C11, C15), make_tokens (C13)."""
from pyvc.types import *  # noqa
from pyvc.model import Contract, Loop
from .m_block_tokenizer import FW, BLOCKCLS, READRES, PB, TRIPLE
from .m_block_token import cls_t

TOK = TRef('Token')


def build(m):
    BT = 'mistletoe.block_token'
    TZ = 'mistletoe.block_tokenizer'
    m.classes['DocumentTok'] = {'footnotes': TObj('dict'), 'line_number': INT, 'children': TList(TOK)}
    m.subclass_of['DocumentTok'] = 'Token'
    m.classes['Token'].setdefault('children', TList(TOK))
    m.globals['token._root_node'] = TOpt(TOK)
    m.namespaces.setdefault('mistletoe.token', {})['_root_node'] = ('global', 'token._root_node')
    m.namespaces[BT]['tokenize'] = ('func', BT + ':tokenize')
    m.namespaces[TZ]['tokenize'] = ('func', TZ + ':tokenize')

    # constructor protocol: token_type(result)
    m.methods[('BlockCls', '__call__')] = 'protocol:BlockCls.__call__'
    m.add(Contract('protocol:BlockCls.__call__', [('self', BLOCKCLS), ('result', READRES)], returns=TOpt(TOK),
                   trusted=True, may_raise=['CustomTokenError'],
                   ensures=['is_fresh(result)', 'implies(not is_none(result), allocated(some(result)))'],
                   modifies=['G:INLINE_PHASE', 'N:Token.line_number', 'N:Token.children'],
                   note='token constructors run the inline phase and return a new token (or None: Footnote.__new__); Paragraph.__new__ passes through the SetextHeading built for this very block'))
    m.add(Contract(TZ + ':make_tokens', [('parse_buffer', PB)], returns=TList(TOK),
                   ensures=[
                       # C13: every token made from a triple carries that triple's line number
                       ('forall(lambda i: exists(lambda j: result[i].line_number == parse_buffer.items[j][2], 0, len(parse_buffer.items)), 0, len(result))', 'C13'),
                       'len(result) <= len(parse_buffer.items)'],
                   modifies=['G:INLINE_PHASE', 'N:Token.line_number', 'N:Token.children', 'F:Token.line_number'],
                   allow_exc=['CustomTokenError'],
                   body_types={'tokens': TList(TOK)},
                   loops={0: Loop(invariant=[
                       'len(tokens) <= _k0', 'forall(lambda i: allocated(tokens[i]), 0, len(tokens))',
                       'forall(lambda i: exists(lambda j: tokens[i].line_number == parse_buffer.items[j][2], 0, len(parse_buffer.items)), 0, len(tokens))'])},
                   prop=['C13', 'C01']))
    NLREQ = lambda a: [("forall(lambda i: %s[i].endswith('\\n'), 0, len(%s))" % (a, a), ['C01', 'C15'])]
    m.add(Contract(TZ + ':tokenize', [('iterable', TList(STR)), ('token_types', TList(BLOCKCLS))], returns=TList(TOK),
                   requires=NLREQ('iterable'),
                   modifies=['G:SCRATCH', 'G:FOOTNOTES', 'G:INLINE_PHASE', 'N:Token.line_number', 'N:Token.children',
                             'F:Token.line_number',
                             'N:FileWrapper._index', 'N:FileWrapper.lines', 'N:FileWrapper.start_line',
                             'N:FileWrapper._anchor', 'N:ParseBuffer.items', 'N:ParseBuffer.loose'],
                   allow_exc=['CustomTokenError'], may_raise=['CustomTokenError'], prop=['C11', 'C07']))
    m.add(Contract(BT + ':tokenize', [('lines', TList(STR))], returns=TList(TOK),
                   requires=NLREQ('lines'),
                   modifies=['G:SCRATCH', 'G:FOOTNOTES', 'G:INLINE_PHASE', 'N:Token.line_number', 'N:Token.children',
                             'F:Token.line_number',
                             'N:FileWrapper._index', 'N:FileWrapper.lines', 'N:FileWrapper.start_line',
                             'N:FileWrapper._anchor', 'N:ParseBuffer.items', 'N:ParseBuffer.loose'],
                   allow_exc=['CustomTokenError'], may_raise=['CustomTokenError'], prop=['C11']))
    DOC = TRef('DocumentTok')
    m.ufunc('splitlines_keepends', [STR], TList(STR))
    COMPLETE = ('len(arg_lines) == len(%s) and forall(lambda i: arg_lines[i] == '
                "(%s[i] if %s[i].endswith('\\n') else %s[i] + '\\n'), 0, len(%s))")
    NL = "forall(lambda i: arg_lines[i].endswith('\\n'), 0, len(arg_lines))"
    common = dict(
        ensures=[('is_none(token._root_node)', 'C11'), 'self.line_number == 1'],
        ensures_exc=[('is_none(token._root_node)', 'C11')],
        modifies=['self.footnotes', 'self.line_number', 'self.children', 'G:token._root_node',
                  'G:SCRATCH', 'G:FOOTNOTES', 'G:INLINE_PHASE', 'N:Token.line_number', 'N:Token.children',
                  'F:Token.line_number', 'F:Token.children',
                  'N:FileWrapper._index', 'N:FileWrapper.lines', 'N:FileWrapper.start_line',
                  'N:FileWrapper._anchor', 'N:ParseBuffer.items', 'N:ParseBuffer.loose'],
        allow_exc=['CustomTokenError'], prop=['C11', 'C15'])
    X1 = 'splitlines_keepends(old(lines))'
    X2 = 'old(lines)'
    m.add(Contract(BT + ':Document.__init__#str', [('self', DOC), ('lines', STR)],
                   requires=['is_none(token._root_node)'],
                   call_asserts={BT + ':tokenize': [
                       # C15: the line list handed to the tokenizer is complete(splitlines(text)) ...
                       (COMPLETE % (X1, X1, X1, X1, X1), 'C15'),
                       # ... and every line ends with a newline (establishes the data invariant LINES_NL)
                       (NL, ['C15', 'C01'])]},
                   **common))
    m.add(Contract(BT + ':Document.__init__#list', [('self', DOC), ('lines', TList(STR))],
                   requires=['is_none(token._root_node)'],
                   call_asserts={BT + ':tokenize': [
                       # ... and for a list of lines it is complete(list): the same function of the lines
                       (COMPLETE % (X2, X2, X2, X2, X2), 'C15'),
                       (NL, ['C15', 'C01'])]},
                   **common))


def build2(m):
    """ListItem.__init__ (C13, C09, C12): the item keeps the line number, leader, indentation and
    content offset it was read with, and its looseness is the parse buffer's."""
    BT = 'mistletoe.block_token'
    LI = TRef('ListItemObj')
    m.classes['ListItemObj'] = {'line_number': TOpt(INT), 'leader': STR, 'indentation': INT, 'prepend': INT,
                                'children': TList(TOK), 'loose': BOOL}
    m.subclass_of['ListItemObj'] = 'Token'
    m.methods[('ListItem', '__init__')] = BT + ':ListItem.__init__'
    m.add(Contract(BT + ':ListItem.__init__',
                   [('self', LI), ('parse_buffer', PB), ('indentation', INT), ('prepend', INT), ('leader', STR),
                    ('line_number', TOpt(INT), NONE_VAL)],
                   ensures=[('same(self.line_number, line_number)', 'C13'),
                            ('self.leader == leader and self.indentation == indentation and self.prepend == prepend', ['C09', 'C10']),
                            ('self.loose == parse_buffer.loose', ['C03', 'C12']),
                            # C13: the children are the tokens made from the item's own parse buffer
                            ('forall(lambda i: exists(lambda j: self.children[i].line_number == parse_buffer.items[j][2], '
                             '0, len(parse_buffer.items)), 0, len(self.children))', 'C13')],
                   modifies=['self.line_number', 'self.leader', 'self.indentation', 'self.prepend', 'self.children', 'self.loose',
                             'G:INLINE_PHASE', 'N:Token.line_number', 'N:Token.children', 'F:Token.line_number'],
                   allow_exc=['CustomTokenError'], prop=['C13', 'C09', 'C12', 'C03']))


def build3(m):
    """Leaf block constructors (C09: tokens retain their source spelling; C12: a code / HTML block has
    exactly one RawText child holding its text; C08: the language tag is what the opening fence says)."""
    BT = 'mistletoe.block_token'
    ST = 'mistletoe.span_token'
    RT = TRef('RawTextTok')
    m.classes['RawTextTok'] = {'content': STR}
    ns = m.namespaces.setdefault(ST, {})
    ns['RawText'] = ('class', 'RawText')
    m.methods[('RawText', '__init__')] = ST + ':RawText.__init__'
    m.add(Contract(ST + ':RawText.__init__', [('self', RT), ('content', STR)],
                   ensures=['self.content == content'], modifies=['self.content'], prop=['C12', 'C09']))
    if 'esc_strip' not in m.ufuncs:
        m.ufunc('esc_strip', [STR], STR)
    ONE = TTuple([RT])
    OPENINFO = TTuple([INT, STR, STR, STR])
    CF = TRef('CodeFenceObj')
    m.classes['CodeFenceObj'] = {'indentation': INT, 'delimiter': STR, 'info_string': STR, 'language': STR, 'children': ONE}
    m.methods[('CodeFence', '__init__')] = BT + ':CodeFence.__init__'
    m.add(Contract(BT + ':CodeFence.__init__', [('self', CF), ('match', TTuple([TList(STR), OPENINFO]))],
                   ensures=[('self.indentation == match[1][0] and self.delimiter == match[1][1] and self.info_string == match[1][2]', 'C09'),
                            ('self.language == esc_strip(match[1][3])', ['C09', 'C08', 'C12']),
                            ("self.children[0].content == ''.join(match[0])", ['C12', 'C09'])],
                   modifies=['self.indentation', 'self.delimiter', 'self.info_string', 'self.language', 'self.children',
                             'N:RawTextTok.content'],
                   prop=['C09', 'C12']))
    BC = TRef('BlockCodeObj')
    m.classes['BlockCodeObj'] = {'language': STR, 'children': ONE}
    m.methods[('BlockCode', '__init__')] = BT + ':BlockCode.__init__'
    m.add(Contract(BT + ':BlockCode.__init__', [('self', BC), ('lines', TList(STR))],
                   ensures=[("self.language == ''", ['C12', 'C08']),
                            ("self.children[0].content == ''.join(lines).strip('\\n') + '\\n'", ['C12', 'C09'])],
                   modifies=['self.language', 'self.children', 'N:RawTextTok.content'], prop=['C09', 'C12']))
    HB = TRef('HtmlBlockObj')
    m.classes['HtmlBlockObj'] = {'children': ONE}
    m.methods[('HtmlBlock', '__init__')] = BT + ':HtmlBlock.__init__'
    m.add(Contract(BT + ':HtmlBlock.__init__', [('self', HB), ('lines', TList(STR))],
                   ensures=[("self.children[0].content == ''.join(lines).rstrip('\\n')", ['C12', 'C09'])],
                   modifies=['self.children', 'N:RawTextTok.content'], prop=['C09', 'C12']))
    TB = TRef('ThematicBreakObj')
    m.classes['ThematicBreakObj'] = {'line': STR}
    m.methods[('ThematicBreak', '__init__')] = BT + ':ThematicBreak.__init__'
    m.add(Contract(BT + ':ThematicBreak.__init__', [('self', TB), ('lines', TList(STR))],
                   requires=['len(lines) >= 1'],
                   ensures=[("self.line == lines[0].strip('\\n')", 'C09')],
                   modifies=['self.line'], prop=['C09'],
                   note='requires: ThematicBreak.read returns the one line it consumed'))
    QT = TRef('QuoteObj')
    m.classes['QuoteObj'] = {'children': TList(TOK)}
    m.methods[('Quote', '__init__')] = BT + ':Quote.__init__'
    m.add(Contract(BT + ':Quote.__init__', [('self', QT), ('parse_buffer', PB)],
                   ensures=[('forall(lambda i: exists(lambda j: self.children[i].line_number == parse_buffer.items[j][2], '
                             '0, len(parse_buffer.items)), 0, len(self.children))', 'C13')],
                   modifies=['self.children', 'G:INLINE_PHASE', 'N:Token.line_number', 'N:Token.children', 'F:Token.line_number'],
                   allow_exc=['CustomTokenError'], prop=['C13', 'C12']))


def build4(m):
    """InlineCode (C11: the code-span hand-over global is consumed and cleared; C09 / C02 / C12: the
    code span's content is the matched text with line endings turned into spaces FIRST and then one
    space stripped from both ends when it has both and is not all spaces - CommonMark 6.1 - and the
    stripped padding is remembered)."""
    ST = 'mistletoe.span_token'
    CT = 'mistletoe.core_tokens'
    MATCH = TRef('Match')
    m.classes.setdefault('Match', {})
    m.globals.setdefault('core_tokens._code_matches', TList(MATCH))
    ns = m.namespaces.setdefault(ST, {})
    ns['core_tokens'] = ('module', CT)
    ns['RawText'] = ('class', 'RawText')
    m.namespaces.setdefault(CT, {})['_code_matches'] = ('global', 'core_tokens._code_matches')
    m.ufunc('m_group', [MATCH, INT], STR)
    m.methods[('Match', 'group')] = 'protocol:Match.group'
    m.add(Contract('protocol:Match.group', [('self', MATCH), ('n', INT, mk_int(0))], returns=STR, trusted=True, pure=True,
                   ensures=['result == m_group(self, n)'],
                   note='match protocol: group(n) of a match object (re.Match or core_tokens.MatchObj) as an uninterpreted function'))
    IC = TRef('InlineCode')
    RT = TRef('RawTextTok')
    m.classes['InlineCode'] = {'delimiter': STR, 'padding': STR, 'children': TTuple([RT])}
    m.class_attrs[('InlineCode', 'parse_group')] = ('const', mk_int(2))
    m.methods[('InlineCode', 'find')] = ST + ':InlineCode.find'
    c = m.add(Contract(ST + ':InlineCode.find', [('cls', cls_t('InlineCode')), ('string', STR)], returns=TList(MATCH),
                       ensures=[('same(result, old(core_tokens._code_matches))', 'C11'),
                                ('len(core_tokens._code_matches) == 0', 'C11')],
                       modifies=['G:core_tokens._code_matches'], prop=['C11']))
    c.is_classmethod = True
    X = "str_replace_all(m_group(match, 2), '\\n', ' ')"
    PAD = "(not %s.isspace() and %s.startswith(' ') and %s.endswith(' '))" % (X, X, X)
    m.ufunc('str_replace_all', [STR, STR, STR], STR)
    m.methods[('InlineCode', '__init__')] = ST + ':InlineCode.__init__'
    m.add(Contract(ST + ':InlineCode.__init__', [('self', IC), ('match', MATCH)],
                   ensures=[('self.delimiter == m_group(match, 1)', 'C09'),
                            ("self.padding == (' ' if %s else '')" % PAD, ['C09', 'C02']),
                            ('self.children[0].content == (%s[1:-1] if %s else %s)' % (X, PAD, X), ['C09', 'C02', 'C12'])],
                   modifies=['self.delimiter', 'self.padding', 'self.children', 'N:RawTextTok.content'],
                   prop=['C09', 'C02', 'C12']))


def build5(m):
    """Link / Image constructors (C07: the token's destination and title are the matched ones - for a
    reference link, by match_link_image's postcondition, the table entry of the first definition;
    C09: dest_type, label and title delimiter are retained) and AutoLink / LineBreak (C12, C09)."""
    ST = 'mistletoe.span_token'
    CT = 'mistletoe.core_tokens'
    MO = TRef('MatchObj')
    MATCH = TRef('Match')
    SPAN3 = TTuple([INT, INT, STR])
    m.classes.setdefault('MatchObj', {})
    m.classes['MatchObj'].update({'type': STR, 'delimiter': STR, '_start': INT, '_end': INT, 'dest_type': STR,
                                  'title_delimiter': TOpt(STR), 'label': STR, '__has_label': BOOL,
                                  '_f1': SPAN3, '_f2': TOpt(SPAN3), '_f3': TOpt(SPAN3)})
    m.optional_fields |= {('MatchObj', 'label')}
    if 'esc_strip' not in m.ufuncs:
        m.ufunc('esc_strip', [STR], STR)
    if 'mistletoe.span_token:EscapeSequence.strip#uf' not in m.contracts:
        m.methods[('EscapeSequence', 'strip')] = 'mistletoe.span_token:EscapeSequence.strip#uf'
        m.add(Contract('mistletoe.span_token:EscapeSequence.strip#uf', [('string', STR)], returns=STR, trusted=True, pure=True,
                       ensures=['result == esc_strip(string)'], is_static=True))
    m.namespaces.setdefault(ST, {})['EscapeSequence'] = ('class', 'EscapeSequence')
    m.methods[('MatchObj', 'group')] = CT + ':MatchObj.group'
    m.add(Contract(CT + ':MatchObj.group', [('self', MO), ('n', INT, mk_int(0))], returns=STR, trusted=True, pure=True,
                   requires=['1 <= n', 'n <= 3', 'implies(n == 2, not is_none(self._f2))', 'implies(n == 3, not is_none(self._f3))'],
                   ensures=['implies(n == 1, result == self._f1[2])', 'implies(n == 2, result == some(self._f2)[2])',
                            'implies(n == 3, result == some(self._f3)[2])'],
                   note='MatchObj.group(n), n >= 1, is the text of the n-th field triple (varargs tuple modelled as _f1.._f3)'))
    for cls, attr in (('Link', 'target'), ('Image', 'src')):
        T = TRef(cls + 'Obj')
        m.classes[cls + 'Obj'] = {attr: STR, 'title': STR, 'dest_type': TOpt(STR), 'label': TOpt(STR), 'title_delimiter': TOpt(STR)}
        m.methods[(cls, '__init__')] = '%s:%s.__init__' % (ST, cls)
        m.add(Contract('%s:%s.__init__' % (ST, cls), [('self', T), ('match', MO)],
                       # a link / image match of the core scanner carries three field triples
                       requires=['not is_none(match._f2)', 'not is_none(match._f3)'],
                       ensures=[('self.%s == esc_strip(some(match._f2)[2].strip())' % attr, ['C07', 'C09']),
                                ('self.title == esc_strip(some(match._f3)[2])', ['C07', 'C09']),
                                ('some(self.dest_type) == match.dest_type and same(self.title_delimiter, match.title_delimiter)', 'C09'),
                                ("implies(field(match, '__has_label'), some(self.label) == match.label)", 'C09')],
                       modifies=['self.' + attr, 'self.title', 'self.dest_type', 'self.label', 'self.title_delimiter'],
                       prop=['C07', 'C09']))
    RT = TRef('RawTextTok')
    AL = TRef('AutoLink')
    m.classes['AutoLink'] = {'children': TTuple([RT]), 'target': STR, 'mailto': BOOL}
    m.class_attrs[('AutoLink', 'parse_group')] = ('const', mk_int(1))
    m.methods[('AutoLink', '__init__')] = ST + ':AutoLink.__init__'
    m.add(Contract(ST + ':AutoLink.__init__', [('self', AL), ('match', MATCH)],
                   ensures=[('self.target == m_group(match, 1) and self.children[0].content == m_group(match, 1)', ['C12', 'C09', 'C08'])],
                   modifies=['self.children', 'self.target', 'self.mailto', 'N:RawTextTok.content'], prop=['C12', 'C09']))
    LB = TRef('LineBreak')
    m.classes['LineBreak'] = {'content': STR, 'soft': BOOL}
    m.methods[('LineBreak', '__init__')] = ST + ':LineBreak.__init__'
    m.add(Contract(ST + ':LineBreak.__init__', [('self', LB), ('match', MATCH)],
                   ensures=[('self.content == m_group(match, 1)', 'C09'),
                            # CommonMark 6.7: hard iff two or more spaces or a backslash precede the line ending
                            ("self.soft == (not (m_group(match, 1).startswith('  ') or m_group(match, 1).startswith('\\\\')))", ['C09', 'C02', 'C10'])],
                   modifies=['self.content', 'self.soft'], prop=['C09', 'C02']))


def build6(m):
    """Heading / SetextHeading / Paragraph constructors (C12: level 1-6 resp. 1-2; C09: underline and
    closing sequence retained; C14 / C03: the paragraph text handed to the inline phase is the lines
    with leading spaces/tabs stripped)."""
    BT = 'mistletoe.block_token'
    ST = 'mistletoe.span_token'
    m.namespaces.setdefault(ST, {})['tokenize_inner'] = ('const', mk_obj('funcref', 'span_token.tokenize_inner'))
    LEAF = TRef('LeafBlock')
    m.classes['LeafBlock'] = {'children': TList(TOK), 'level': INT, 'closing_sequence': STR, 'underline': STR, 'g_content': STR}
    m.methods[('BlockToken', '__init__')] = BT + ':BlockToken.__init__'
    m.add(Contract(BT + ':BlockToken.__init__', [('self', LEAF), ('lines', STR), ('tokenize_func', TObj('funcref'))],
                   trusted=True, ensures=['self.g_content == lines'],
                   modifies=['self.children', 'self.g_content', 'G:INLINE_PHASE', 'N:Token.line_number', 'N:Token.children'],
                   may_raise=['CustomTokenError'],
                   note='BlockToken.__init__(content, tokenize_func) runs the inline phase on the content (children = '
                        'tokenize_func(content)); the ghost field g_content records the content it was given'))
    for c in ('Heading', 'SetextHeading', 'Paragraph'):
        m.subclass_of[c] = 'BlockToken'
    m.add(Contract(BT + ':Heading.__init__', [('self', LEAF), ('match', TTuple([INT, STR, STR]))],
                   ensures=[('self.level == match[0] and self.closing_sequence == match[2]', ['C09', 'C12']),
                            ('self.g_content == match[1]', ['C09', 'C14'])],
                   modifies=['self.level', 'self.closing_sequence', 'self.children', 'self.g_content', 'G:INLINE_PHASE',
                             'N:Token.line_number', 'N:Token.children'],
                   allow_exc=['CustomTokenError'], prop=['C09', 'C12']))
    m.methods[('Heading', '__init__')] = BT + ':Heading.__init__'
    m.add(Contract(BT + ':SetextHeading.__init__#fields', [('self', LEAF), ('lines', TList(STR))],
                   requires=['len(lines) >= 2'],
                   ensures=[('self.underline == old(lines)[len(old(lines)) - 1].rstrip()', 'C09'),
                            # C12: a setext heading has level 1 (underline of =) or 2
                            ("self.level == (1 if self.underline.endswith('=') else 2)", ['C12', 'C08', 'C09']),
                            ('1 <= self.level and self.level <= 2', ['C12', 'C08'])],
                   modifies=['self.underline', 'self.level', 'self.children', 'self.g_content', 'G:INLINE_PHASE',
                             'N:Token.line_number', 'N:Token.children'],
                   allow_exc=['CustomTokenError'], prop=['C09', 'C12']))
    m.add(Contract(BT + ':Paragraph.__init__', [('self', LEAF), ('lines', TList(STR))],
                   modifies=['self.children', 'self.g_content', 'G:INLINE_PHASE', 'N:Token.line_number', 'N:Token.children'],
                   allow_exc=['CustomTokenError'], prop=['C01']))


def build7(m):
    """TableCell.__init__ on its real body (C13 line number, C12 alignment in range): a second view next
    to the trusted one that the row comprehension uses."""
    BT = 'mistletoe.block_token'
    CELL = TRef('TableCellFull')
    m.classes['TableCellFull'] = {'align': TOpt(INT), 'line_number': TOpt(INT)}
    m.subclass_of['TableCellFull'] = 'LeafBlock'
    m.subclass_of['TableCell'] = 'BlockToken'
    m.add(Contract(BT + ':TableCell.__init__#fields', [('self', CELL), ('content', STR), ('align', TOpt(INT), NONE_VAL),
                                                       ('line_number', TOpt(INT), NONE_VAL)],
                   ensures=[('same(self.line_number, line_number)', 'C13'), ('same(self.align, align)', ['C12', 'C03']),
                            ('self.g_content == content', ['C03', 'C12'])],
                   modifies=['self.align', 'self.line_number', 'self.children', 'self.g_content', 'G:INLINE_PHASE',
                             'N:Token.line_number', 'N:Token.children'],
                   allow_exc=['CustomTokenError'], prop=['C13', 'C12']))
