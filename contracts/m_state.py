"""Contracts for the global-state discipline (C11), Document.__init__ (C11, C15), make_tokens (C13)."""
from pyvc.types import *  # noqa
from pyvc.model import Contract, Loop
from .m_block_tokenizer import FW, BLOCKCLS, READRES, PB, TRIPLE
from .m_block_token import cls_t

TOK = TRef('Token')


def build(m):
    BT = 'mistletoe.block_token'
    TZ = 'mistletoe.block_tokenizer'
    m.classes['DocumentTok'] = {'footnotes': TObj('dict'), 'line_number': INT, 'children': TList(TOK)}
    m.subclass_of['DocumentTok'] = 'Token'
    m.classes['Token'].setdefault('children', TList(TOK))
    m.globals['token._root_node'] = TOpt(TOK)
    m.namespaces.setdefault('mistletoe.token', {})['_root_node'] = ('global', 'token._root_node')
    m.namespaces[BT]['tokenize'] = ('func', BT + ':tokenize')
    m.namespaces[TZ]['tokenize'] = ('func', TZ + ':tokenize')

    # constructor protocol: token_type(result)
    m.methods[('BlockCls', '__call__')] = 'protocol:BlockCls.__call__'
    m.add(Contract('protocol:BlockCls.__call__', [('self', BLOCKCLS), ('result', READRES)], returns=TOpt(TOK),
                   trusted=True, may_raise=['CustomTokenError'],
                   ensures=['is_fresh(result)', 'implies(not is_none(result), allocated(some(result)))'],
                   modifies=['G:INLINE_PHASE', 'N:Token.line_number', 'N:Token.children'],
                   note='token constructors run the inline phase and return a new token (or None: Footnote.__new__); Paragraph.__new__ passes through the SetextHeading built for this very block'))
    m.add(Contract(TZ + ':make_tokens', [('parse_buffer', PB)], returns=TList(TOK),
                   ensures=[
                       # C13: every token made from a triple carries that triple's line number
                       ('forall(lambda i: exists(lambda j: result[i].line_number == parse_buffer.items[j][2], 0, len(parse_buffer.items)), 0, len(result))', 'C13'),
                       'len(result) <= len(parse_buffer.items)'],
                   modifies=['G:INLINE_PHASE', 'N:Token.line_number', 'N:Token.children', 'F:Token.line_number'],
                   allow_exc=['CustomTokenError'],
                   body_types={'tokens': TList(TOK)},
                   loops={0: Loop(invariant=[
                       'len(tokens) <= _k0', 'forall(lambda i: allocated(tokens[i]), 0, len(tokens))',
                       'forall(lambda i: exists(lambda j: tokens[i].line_number == parse_buffer.items[j][2], 0, len(parse_buffer.items)), 0, len(tokens))'])},
                   prop=['C13', 'C01']))
    NLREQ = lambda a: [("forall(lambda i: %s[i].endswith('\\n'), 0, len(%s))" % (a, a), ['C01', 'C15'])]
    m.add(Contract(TZ + ':tokenize', [('iterable', TList(STR)), ('token_types', TList(BLOCKCLS))], returns=TList(TOK),
                   requires=NLREQ('iterable'),
                   modifies=['G:SCRATCH', 'G:FOOTNOTES', 'G:INLINE_PHASE', 'N:Token.line_number', 'N:Token.children',
                             'F:Token.line_number',
                             'N:FileWrapper._index', 'N:FileWrapper.lines', 'N:FileWrapper.start_line',
                             'N:FileWrapper._anchor', 'N:ParseBuffer.items', 'N:ParseBuffer.loose'],
                   allow_exc=['CustomTokenError'], may_raise=['CustomTokenError'], prop=['C11', 'C07']))
    m.add(Contract(BT + ':tokenize', [('lines', TList(STR))], returns=TList(TOK),
                   requires=NLREQ('lines'),
                   modifies=['G:SCRATCH', 'G:FOOTNOTES', 'G:INLINE_PHASE', 'N:Token.line_number', 'N:Token.children',
                             'F:Token.line_number',
                             'N:FileWrapper._index', 'N:FileWrapper.lines', 'N:FileWrapper.start_line',
                             'N:FileWrapper._anchor', 'N:ParseBuffer.items', 'N:ParseBuffer.loose'],
                   allow_exc=['CustomTokenError'], may_raise=['CustomTokenError'], prop=['C11']))
    DOC = TRef('DocumentTok')
    m.ufunc('splitlines_keepends', [STR], TList(STR))
    COMPLETE = ('len(arg_lines) == len(%s) and forall(lambda i: arg_lines[i] == '
                "(%s[i] if %s[i].endswith('\\n') else %s[i] + '\\n'), 0, len(%s))")
    NL = "forall(lambda i: arg_lines[i].endswith('\\n'), 0, len(arg_lines))"
    common = dict(
        ensures=[('is_none(token._root_node)', 'C11'), 'self.line_number == 1'],
        ensures_exc=[('is_none(token._root_node)', 'C11')],
        modifies=['self.footnotes', 'self.line_number', 'self.children', 'G:token._root_node',
                  'G:SCRATCH', 'G:FOOTNOTES', 'G:INLINE_PHASE', 'N:Token.line_number', 'N:Token.children',
                  'F:Token.line_number', 'F:Token.children',
                  'N:FileWrapper._index', 'N:FileWrapper.lines', 'N:FileWrapper.start_line',
                  'N:FileWrapper._anchor', 'N:ParseBuffer.items', 'N:ParseBuffer.loose'],
        allow_exc=['CustomTokenError'], prop=['C11', 'C15'])
    X1 = 'splitlines_keepends(old(lines))'
    X2 = 'old(lines)'
    m.add(Contract(BT + ':Document.__init__#str', [('self', DOC), ('lines', STR)],
                   requires=['is_none(token._root_node)'],
                   call_asserts={BT + ':tokenize': [
                       # C15: the line list handed to the tokenizer is complete(splitlines(text)) ...
                       (COMPLETE % (X1, X1, X1, X1, X1), 'C15'),
                       # ... and every line ends with a newline (establishes the data invariant LINES_NL)
                       (NL, ['C15', 'C01'])]},
                   **common))
    m.add(Contract(BT + ':Document.__init__#list', [('self', DOC), ('lines', TList(STR))],
                   requires=['is_none(token._root_node)'],
                   call_asserts={BT + ':tokenize': [
                       # ... and for a list of lines it is complete(list): the same function of the lines
                       (COMPLETE % (X2, X2, X2, X2, X2), 'C15'),
                       (NL, ['C15', 'C01'])]},
                   **common))
