"""Sidecar contracts for mistletoe/core_tokens.py (C06, C01, C07)."""
from pyvc.types import *  # noqa
from pyvc.model import Contract, Loop

MOD = 'mistletoe.core_tokens'
DL = TRef('Delimiter')
P = ['C06', 'C01']


def build(m):
    m.classes['Delimiter'] = {'type': STR, 'number': INT, 'active': BOOL, 'start': INT, 'end': INT,
                              'open': BOOL, 'close': BOOL, '__has_open': BOOL, '__has_close': BOOL,
                              'orig_number': INT}
    m.optional_fields |= {('Delimiter', 'open'), ('Delimiter', 'close')}
    ns = m.namespaces.setdefault(MOD, {})
    for fn in ('is_opener', 'is_closer', 'is_left_delimiter', 'is_right_delimiter', 'preceded_by',
               'succeeded_by', 'follows', 'shift_whitespace', 'is_control_char', 'next_closer',
               'matching_opener', 'deactivate_delimiters', 'normalize_label'):
        ns[fn] = ('func', MOD + ':' + fn)
    ns['Delimiter'] = ('class', 'Delimiter')
    ns['unicode_whitespace'] = ('charset', 'unicode_whitespace')   # named set: membership is uninterpreted
    ns['punctuation'] = ('charset', 'punctuation')
    ns['whitespace'] = ('charset', frozenset({' ', '\t', '\n', '\x0b', '\x0c', '\r'}))
    m.ufunc('in_unicode_whitespace', [STR], BOOL)
    m.ufunc('in_punctuation', [STR], BOOL)
    CHARSET = TObj('charset')

    # neighbour characters as the code reads them (string boundaries count as a space)
    m.predicate('PREV', ['start', 'string'], "string[start - 1] if start > 0 else ' '")
    m.predicate('NEXT', ['end', 'string'], "string[end] if end < len(string) else ' '")
    # CommonMark 0.30 section 6.2, transcribed: left-/right-flanking delimiter run
    m.predicate('SPEC_LEFT', ['p', 'n'],
                'not in_unicode_whitespace(n) and (not in_punctuation(n) or in_unicode_whitespace(p) or in_punctuation(p))')
    m.predicate('SPEC_RIGHT', ['p', 'n'],
                'not in_unicode_whitespace(p) and (not in_punctuation(p) or in_unicode_whitespace(n) or in_punctuation(n))')
    # rules 1-8: can open / can close emphasis
    m.predicate('SPEC_CAN_OPEN', ['c', 'p', 'n'],
                "SPEC_LEFT(p, n) if c == '*' else (SPEC_LEFT(p, n) and (not SPEC_RIGHT(p, n) or in_punctuation(p)))")
    m.predicate('SPEC_CAN_CLOSE', ['c', 'p', 'n'],
                "SPEC_RIGHT(p, n) if c == '*' else (SPEC_RIGHT(p, n) and (not SPEC_LEFT(p, n) or in_punctuation(n)))")
    RANGE = ['0 <= start', 'start < end', 'end <= len(string)']

    m.add(Contract(MOD + ':preceded_by', [('start', INT), ('string', STR), ('charset', CHARSET)], returns=BOOL,
                   inline=True, requires=['0 <= start', 'start <= len(string)'], prop=P))
    m.add(Contract(MOD + ':succeeded_by', [('end', INT), ('string', STR), ('charset', CHARSET)], returns=BOOL,
                   inline=True, requires=['0 <= end'], prop=P))
    m.add(Contract(MOD + ':is_left_delimiter', [('start', INT), ('end', INT), ('string', STR)], returns=BOOL, pure=True,
                   requires=RANGE, ensures=['result == SPEC_LEFT(PREV(start, string), NEXT(end, string))'], prop=P))
    m.add(Contract(MOD + ':is_right_delimiter', [('start', INT), ('end', INT), ('string', STR)], returns=BOOL, pure=True,
                   requires=RANGE, ensures=['result == SPEC_RIGHT(PREV(start, string), NEXT(end, string))'], prop=P))
    m.add(Contract(MOD + ':is_opener', [('start', INT), ('end', INT), ('string', STR)], returns=BOOL, pure=True,
                   requires=RANGE + ["string[start] == '*' or string[start] == '_'"],
                   ensures=['result == SPEC_CAN_OPEN(string[start], PREV(start, string), NEXT(end, string))'], prop=P))
    m.add(Contract(MOD + ':is_closer', [('start', INT), ('end', INT), ('string', STR)], returns=BOOL, pure=True,
                   requires=RANGE + ["string[start] == '*' or string[start] == '_'"],
                   ensures=['result == SPEC_CAN_CLOSE(string[start], PREV(start, string), NEXT(end, string))'], prop=P))

    # ---- Delimiter ---------------------------------------------------------------------------
    m.predicate('DELIM_OK', ['d'], 'len(d.type) == d.number and d.number == d.end - d.start and d.number >= 1 and d.start >= 0')
    m.predicate('EMPH', ['d'], "field(d, '__has_open') and field(d, '__has_close')")
    m.methods[('Delimiter', '__init__')] = MOD + ':Delimiter.__init__'
    m.add(Contract(MOD + ':Delimiter.__init__', [('self', DL), ('start', INT), ('end', INT), ('string', STR)],
                   requires=RANGE + ["not field(self, '__has_open')", "not field(self, '__has_close')"],
                   ensures=['DELIM_OK(self)', 'self.type == string[start:end]', 'self.active',
                            'self.orig_number == end - start',
                            "implies(self.type.startswith('*') or self.type.startswith('_'), EMPH(self))",
                            "implies(EMPH(self), self.open == SPEC_CAN_OPEN(string[start], PREV(start, string), NEXT(end, string)))",
                            "implies(EMPH(self), self.close == SPEC_CAN_CLOSE(string[start], PREV(start, string), NEXT(end, string)))"],
                   modifies=['self.type', 'self.number', 'self.active', 'self.start', 'self.end', 'self.open',
                             'self.close', 'self.__has_open', 'self.__has_close', 'self.orig_number'], prop=P))
    m.methods[('Delimiter', 'remove')] = MOD + ':Delimiter.remove'
    m.add(Contract(MOD + ':Delimiter.remove', [('self', DL), ('n', INT), ('left', BOOL, mk_bool(True))], returns=BOOL,
                   requires=['DELIM_OK(self)', '1 <= n', 'n <= self.number'],
                   ensures=['result == (old(self.number) != n)',
                            # the delimiter invariant survives a partial removal (index safety of
                            # every later type[0] / string[start] depends on it)
                            'implies(result, DELIM_OK(self))',
                            'implies(result, self.number == old(self.number) - n)',
                            'implies(result and left, self.start == old(self.start) + n and self.end == old(self.end))',
                            'implies(result and not left, self.start == old(self.start) and self.end == old(self.end) - n)',
                            'implies(not result, self.number == old(self.number) and self.type == old(self.type) '
                            'and self.start == old(self.start) and self.end == old(self.end))'],
                   modifies=['self.start', 'self.end', 'self.number', 'self.type'], prop=P))
    m.predicate('SPEC_RULE3', ['oo', 'oc', 'on', 'co', 'cc', 'cn'],
                'implies((oo and oc) or (co and cc), (on + cn) % 3 != 0 or (on % 3 == 0 and cn % 3 == 0))')
    m.methods[('Delimiter', 'closed_by')] = MOD + ':Delimiter.closed_by'
    m.add(Contract(MOD + ':Delimiter.closed_by', [('self', DL), ('other', DL)], returns=BOOL, pure=True,
                   requires=['DELIM_OK(self)', 'DELIM_OK(other)', 'EMPH(self)', 'EMPH(other)'],
                   ensures=[
                       # the statement: rule of three on the ORIGINAL run lengths
                       ('result == (self.type[0] == other.type[0] and SPEC_RULE3(self.open, self.close, self.orig_number, '
                        'other.open, other.close, other.orig_number))', 'C06'),
                   ], prop=P))

    # ---- small scanners --------------------------------------------------------------------------
    m.add(Contract(MOD + ':follows', [('string', STR), ('index', INT), ('char', STR)], returns=BOOL, pure=True,
                   requires=['index >= -1'],
                   ensures=['result == (index + 1 < len(string) and string[index + 1] == char)'], prop=['C01', 'C07']))
    m.add(Contract(MOD + ':shift_whitespace', [('string', STR), ('index', INT)], returns=INT, pure=True,
                   requires=['0 <= index', 'index <= len(string)'],
                   ensures=['index <= result', 'result <= len(string)'],
                   loops={0: Loop(invariant=[])}, prop=['C01', 'C07']))
    m.add(Contract(MOD + ':is_control_char', [('char', STR)], returns=BOOL, pure=True,
                   requires=['len(char) == 1'], prop=['C01']))
