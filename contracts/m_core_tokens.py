"""Sidecar contracts for mistletoe/core_tokens.py (C06, C01, C07)."""
from pyvc.types import *  # noqa
from pyvc.model import Contract, Loop

MOD = 'mistletoe.core_tokens'
DL = TRef('Delimiter')
P = ['C06', 'C01']


def build(m):
    m.classes['Delimiter'] = {'type': STR, 'number': INT, 'active': BOOL, 'start': INT, 'end': INT,
                              'open': BOOL, 'close': BOOL, '__has_open': BOOL, '__has_close': BOOL,
                              'orig_number': INT}
    m.optional_fields |= {('Delimiter', 'open'), ('Delimiter', 'close')}
    ns = m.namespaces.setdefault(MOD, {})
    for fn in ('is_opener', 'is_closer', 'is_left_delimiter', 'is_right_delimiter', 'preceded_by',
               'succeeded_by', 'follows', 'shift_whitespace', 'is_control_char', 'next_closer',
               'matching_opener', 'deactivate_delimiters', 'normalize_label'):
        ns[fn] = ('func', MOD + ':' + fn)
    ns['Delimiter'] = ('class', 'Delimiter')
    ns['unicode_whitespace'] = ('charset', 'unicode_whitespace')   # named set: membership is uninterpreted
    ns['punctuation'] = ('charset', 'punctuation')
    ns['whitespace'] = ('charset', frozenset({' ', '\t', '\n', '\x0b', '\x0c', '\r'}))
    m.ufunc('in_unicode_whitespace', [STR], BOOL)
    m.ufunc('in_punctuation', [STR], BOOL)
    CHARSET = TObj('charset')

    # neighbour characters as the code reads them (string boundaries count as a space)
    m.predicate('PREV', ['start', 'string'], "string[start - 1] if start > 0 else ' '")
    m.predicate('NEXT', ['end', 'string'], "string[end] if end < len(string) else ' '")
    # CommonMark 0.30 section 6.2, transcribed: left-/right-flanking delimiter run
    m.predicate('SPEC_LEFT', ['p', 'n'],
                'not in_unicode_whitespace(n) and (not in_punctuation(n) or in_unicode_whitespace(p) or in_punctuation(p))')
    m.predicate('SPEC_RIGHT', ['p', 'n'],
                'not in_unicode_whitespace(p) and (not in_punctuation(p) or in_unicode_whitespace(n) or in_punctuation(n))')
    # rules 1-8: can open / can close emphasis
    m.predicate('SPEC_CAN_OPEN', ['c', 'p', 'n'],
                "SPEC_LEFT(p, n) if c == '*' else (SPEC_LEFT(p, n) and (not SPEC_RIGHT(p, n) or in_punctuation(p)))")
    m.predicate('SPEC_CAN_CLOSE', ['c', 'p', 'n'],
                "SPEC_RIGHT(p, n) if c == '*' else (SPEC_RIGHT(p, n) and (not SPEC_LEFT(p, n) or in_punctuation(n)))")
    RANGE = ['0 <= start', 'start < end', 'end <= len(string)']

    m.add(Contract(MOD + ':preceded_by', [('start', INT), ('string', STR), ('charset', CHARSET)], returns=BOOL,
                   inline=True, requires=['0 <= start', 'start <= len(string)'], prop=P))
    m.add(Contract(MOD + ':succeeded_by', [('end', INT), ('string', STR), ('charset', CHARSET)], returns=BOOL,
                   inline=True, requires=['0 <= end'], prop=P))
    m.add(Contract(MOD + ':is_left_delimiter', [('start', INT), ('end', INT), ('string', STR)], returns=BOOL, pure=True,
                   requires=RANGE, ensures=['result == SPEC_LEFT(PREV(start, string), NEXT(end, string))'], prop=P + ['C14']))
    m.add(Contract(MOD + ':is_right_delimiter', [('start', INT), ('end', INT), ('string', STR)], returns=BOOL, pure=True,
                   requires=RANGE, ensures=['result == SPEC_RIGHT(PREV(start, string), NEXT(end, string))'], prop=P + ['C14']))
    m.add(Contract(MOD + ':is_opener', [('start', INT), ('end', INT), ('string', STR)], returns=BOOL, pure=True,
                   requires=RANGE + ["string[start] == '*' or string[start] == '_'"],
                   ensures=['result == SPEC_CAN_OPEN(string[start], PREV(start, string), NEXT(end, string))'], prop=P + ['C14']))
    m.add(Contract(MOD + ':is_closer', [('start', INT), ('end', INT), ('string', STR)], returns=BOOL, pure=True,
                   requires=RANGE + ["string[start] == '*' or string[start] == '_'"],
                   ensures=['result == SPEC_CAN_CLOSE(string[start], PREV(start, string), NEXT(end, string))'], prop=P + ['C14']))

    # ---- Delimiter ---------------------------------------------------------------------------
    m.predicate('DELIM_OK', ['d'], 'len(d.type) == d.number and d.number == d.end - d.start and d.number >= 1 and d.start >= 0')
    m.predicate('EMPH', ['d'], "field(d, '__has_open') and field(d, '__has_close')")
    # an emphasis entry is a run of one emphasis character (established by find_core_tokens, kept by remove)
    m.predicate('EMPH_RUN', ['d'], "implies(EMPH(d), (d.type[0] == '*' or d.type[0] == '_') and "
                                   "forall(lambda k: d.type[k] == d.type[0], 0, len(d.type)))")
    m.methods[('Delimiter', '__init__')] = MOD + ':Delimiter.__init__'
    m.add(Contract(MOD + ':Delimiter.__init__', [('self', DL), ('start', INT), ('end', INT), ('string', STR)],
                   requires=RANGE + ["not field(self, '__has_open')", "not field(self, '__has_close')",
                                     # C06 / C02: what goes on the delimiter stack is a link/image opener or a run of
                                     # one emphasis character (never an unrelated neighbour character)
                                     ("string[start:end] == '[' or string[start:end] == '![' or "
                                      "((string[start] == '*' or string[start] == '_') and "
                                      "forall(lambda k: implies(start <= k and k < end, string[k] == string[start]), 0, len(string)))")],
                   ensures=['DELIM_OK(self)', 'self.type == string[start:end]', 'self.active', 'EMPH_RUN(self)',
                            'self.orig_number == end - start', 'self.start == start', 'self.end == end',
                            "implies(self.type.startswith('*') or self.type.startswith('_'), EMPH(self))",
                            "field(self, '__has_open') == field(self, '__has_close')",
                            "implies(EMPH(self), self.type.startswith('*') or self.type.startswith('_'))",
                            "implies(EMPH(self), self.open == SPEC_CAN_OPEN(string[start], PREV(start, string), NEXT(end, string)))",
                            "implies(EMPH(self), self.close == SPEC_CAN_CLOSE(string[start], PREV(start, string), NEXT(end, string)))"],
                   modifies=['self.type', 'self.number', 'self.active', 'self.start', 'self.end', 'self.open',
                             'self.close', 'self.__has_open', 'self.__has_close', 'self.orig_number'], prop=P,
                   options={'slice_axioms': True}))
    m.methods[('Delimiter', 'remove')] = MOD + ':Delimiter.remove'
    m.add(Contract(MOD + ':Delimiter.remove', [('self', DL), ('n', INT), ('left', BOOL, mk_bool(True))], returns=BOOL,
                   requires=['DELIM_OK(self)', '1 <= n', 'n <= self.number', 'EMPH_RUN(self)'],
                   ensures=['result == (old(self.number) != n)', 'EMPH_RUN(self)',
                            # the delimiter invariant survives a partial removal (index safety of
                            # every later type[0] / string[start] depends on it)
                            'implies(result, DELIM_OK(self))',
                            'implies(result, self.number == old(self.number) - n)',
                            'implies(result and left, self.start == old(self.start) + n and self.end == old(self.end))',
                            'implies(result and not left, self.start == old(self.start) and self.end == old(self.end) - n)',
                            'implies(not result, self.number == old(self.number) and self.type == old(self.type) '
                            'and self.start == old(self.start) and self.end == old(self.end))'],
                   modifies=['self.start', 'self.end', 'self.number', 'self.type'], prop=P,
                   options={'slice_axioms': True, 'timeout_ms': 30000}))
    m.predicate('SPEC_RULE3', ['oo', 'oc', 'on', 'co', 'cc', 'cn'],
                'implies((oo and oc) or (co and cc), (on + cn) % 3 != 0 or (on % 3 == 0 and cn % 3 == 0))')
    m.methods[('Delimiter', 'closed_by')] = MOD + ':Delimiter.closed_by'
    m.add(Contract(MOD + ':Delimiter.closed_by', [('self', DL), ('other', DL)], returns=BOOL, pure=True,
                   requires=['DELIM_OK(self)', 'DELIM_OK(other)', 'EMPH(self)', 'EMPH(other)'],
                   ensures=[
                       # the statement: rule of three on the ORIGINAL run lengths
                       ('result == (self.type[0] == other.type[0] and SPEC_RULE3(self.open, self.close, self.orig_number, '
                        'other.open, other.close, other.orig_number))', 'C06'),
                   ], prop=P))

    # ---- small scanners --------------------------------------------------------------------------
    m.add(Contract(MOD + ':follows', [('string', STR), ('index', INT), ('char', STR)], returns=BOOL, pure=True,
                   requires=['index >= -1'],
                   ensures=['result == (index + 1 < len(string) and string[index + 1] == char)'], prop=['C01', 'C07']))
    m.add(Contract(MOD + ':shift_whitespace', [('string', STR), ('index', INT)], returns=INT, pure=True,
                   requires=['0 <= index', 'index <= len(string)'],
                   ensures=['index <= result', 'result <= len(string)'],
                   loops={0: Loop(invariant=[])}, prop=['C01', 'C07']))
    m.add(Contract(MOD + ':is_control_char', [('char', STR)], returns=BOOL, pure=True,
                   requires=['len(char) == 1'], prop=['C01']))


def build2(m):
    """The delimiter stack: next_closer, matching_opener, process_emphasis (C01, C06: no text makes
    the parser fail)."""
    MO = TRef('MatchObj')
    m.classes['MatchObj'] = {'type': STR, 'delimiter': STR, '_start': INT, '_end': INT}
    ns = m.namespaces[MOD]
    ns['MatchObj'] = ('class', 'MatchObj')
    ns['process_emphasis'] = ('func', MOD + ':process_emphasis')
    m.methods[('MatchObj', '__init__')] = MOD + ':MatchObj.__init__#1'
    m.add(Contract(MOD + ':MatchObj.__init__#1', [('self', MO), ('start', INT), ('end', INT), ('f1', None), ('f2', None, NONE_VAL), ('f3', None, NONE_VAL)],
                   trusted=True, ensures=['self._start == start', 'self._end == end'],
                   modifies=['self._start', 'self._end'],
                   note='MatchObj(start, end, *fields) stores its arguments (varargs tuple not modelled)'))
    # every stack entry keeps the delimiter invariant, lies inside the string, and emphasis entries
    # carry both flags; entries are pairwise different objects
    m.predicate('STACK_OK', ['ds', 'string'],
                "forall(lambda i: DELIM_OK(ds[i]) and ds[i].end <= len(string) and EMPH_RUN(ds[i]) and "
                "field(ds[i], '__has_open') == field(ds[i], '__has_close'), 0, len(ds)) and "
                "forall(lambda i, j: implies(i < j, ds[i] != ds[j]), 0, len(ds), 0, len(ds))")
    m.predicate('CLOSER_AT', ['ds', 'p'], "EMPH(ds[p]) and ds[p].close")
    m.add(Contract(MOD + ':next_closer', [('curr_pos', TOpt(INT)), ('delimiters', TList(DL))], returns=TOpt(INT), pure=True,
                   requires=['is_none(curr_pos) or (0 <= some(curr_pos) and some(curr_pos) <= len(delimiters))',
                             "forall(lambda i: field(delimiters[i], '__has_open') == field(delimiters[i], '__has_close'), 0, len(delimiters))"],
                   ensures=['implies(not is_none(result), (0 if is_none(curr_pos) else some(curr_pos)) <= some(result) '
                            'and some(result) < len(delimiters) and CLOSER_AT(delimiters, some(result)))'],
                   loops={0: Loop(invariant=[])}, prop=P))
    m.add(Contract(MOD + ':matching_opener', [('curr_pos', INT), ('delimiters', TList(DL)), ('bottom', TOpt(INT))],
                   returns=TOpt(INT), pure=True,
                   requires=['0 <= curr_pos', 'curr_pos < len(delimiters)', 'CLOSER_AT(delimiters, curr_pos)',
                             'forall(lambda i: DELIM_OK(delimiters[i]) and '
                             "field(delimiters[i], '__has_open') == field(delimiters[i], '__has_close'), 0, len(delimiters))",
                             'is_none(bottom) or 0 <= some(bottom)'],
                   ensures=['implies(not is_none(result), 0 <= some(result) and some(result) < curr_pos and '
                            'EMPH(delimiters[some(result)]) and delimiters[some(result)].open)',
                            # C06: the search never goes at or below the lower bound
                            ('implies(not is_none(result) and not is_none(bottom), some(result) > some(bottom))', 'C06')],
                   loops={0: Loop(invariant=['index == curr_pos - 1 - _k0'])}, prop=P))
    m.add(Contract(MOD + ':process_emphasis',
                   [('string', STR), ('stack_bottom', TOpt(INT)), ('delimiters', TList(DL)), ('matches', TList(MO))],
                   requires=['STACK_OK(delimiters, string)',
                             'is_none(stack_bottom) or (0 <= some(stack_bottom) and some(stack_bottom) < len(delimiters))',
                             # the entry at the stack bottom is the bracket being closed, never an emphasis run
                             'is_none(stack_bottom) or not EMPH(delimiters[some(stack_bottom)])'],
                   ensures=['STACK_OK(new_delimiters, string)',
                            'len(new_delimiters) == (0 if is_none(stack_bottom) else some(stack_bottom))',
                            'forall(lambda i: new_delimiters[i] == delimiters[i], 0, len(new_delimiters))'],
                   modifies=['P:delimiters', 'P:matches', 'F:Delimiter.start', 'F:Delimiter.end', 'F:Delimiter.number',
                             'F:Delimiter.type', 'N:MatchObj.type', 'N:MatchObj.delimiter', 'N:MatchObj._start', 'N:MatchObj._end'],
                   body_types={'curr_pos': TOpt(INT), 'star_bottom': TOpt(INT), 'underscore_bottom': TOpt(INT),
                               'bottom': TOpt(INT)},
                   loops={0: Loop(invariant=[
                       'STACK_OK(delimiters, string)',
                       'is_none(stack_bottom) or (0 <= some(stack_bottom) and some(stack_bottom) < len(delimiters))',
                       'is_none(curr_pos) or (0 <= some(curr_pos) and some(curr_pos) < len(delimiters) and CLOSER_AT(delimiters, some(curr_pos)))',
                       'is_none(curr_pos) or is_none(stack_bottom) or some(stack_bottom) < some(curr_pos)',
                       'is_none(star_bottom) or 0 <= some(star_bottom)',
                       'is_none(underscore_bottom) or 0 <= some(underscore_bottom)',
                       # a per-kind bottom below the stack bottom can only be "None at position 1" (stack bottom 0)
                       'is_none(stack_bottom) or (some(stack_bottom) == 0 if is_none(star_bottom) else some(star_bottom) >= some(stack_bottom))',
                       'is_none(stack_bottom) or (some(stack_bottom) == 0 if is_none(underscore_bottom) else some(underscore_bottom) >= some(stack_bottom))',
                       'is_none(stack_bottom) or not EMPH(delimiters[some(stack_bottom)])',
                       'forall(lambda i: delimiters[i] == old(delimiters)[i], 0, (0 if is_none(stack_bottom) else some(stack_bottom) + 1))',
                   ])},
                   prop=P, options={'concat_axioms': True, 'timeout_ms': 30000},
                   note='termination of loop#0 is not proved (lexicographic variant over a sum of heap fields); '
                        'index and attribute safety do not depend on it'))


def build3(m):
    """find_core_tokens: the inline scanner that builds the delimiter stack (C01 index safety and
    progress; C06/C02: every delimiter it records is '[', '![' or a run of one emphasis character)."""
    MATCH = TRef('Match')
    MO = TRef('MatchObj')
    m.classes.setdefault('Match', {})
    m.classes.setdefault('Token', {'line_number': INT})
    m.globals.setdefault('core_tokens._code_matches', TList(MATCH))
    ns = m.namespaces[MOD]
    ns['_code_matches'] = ('global', 'core_tokens._code_matches')
    ns['code_pattern'] = ('const', mk_obj('pattern', 'code_pattern'))
    ns['find_link_image'] = ('func', MOD + ':find_link_image')
    if ('Match', 'start') not in m.methods:
        # the match protocol of m_span_tokenizer.build5 (declared here too so that this module loads alone)
        m.ufunc('m_start', [MATCH, INT], INT)
        m.ufunc('m_end', [MATCH, INT], INT)
        m.methods[('Match', 'start')] = 'protocol:Match.start'
        m.add(Contract('protocol:Match.start', [('self', MATCH), ('n', INT, mk_int(0))], returns=INT, trusted=True, pure=True,
                       ensures=['result == m_start(self, n)']))
        m.methods[('Match', 'end')] = 'protocol:Match.end'
        m.add(Contract('protocol:Match.end', [('self', MATCH), ('n', INT, mk_int(0))], returns=INT, trusted=True, pure=True,
                       ensures=['result == m_end(self, n)']))
    m.add(Contract('re:code_pattern.search', [('s', STR), ('pos', INT, mk_int(0))], returns=TOpt(MATCH), trusted=True, pure=True,
                   ensures=['implies(not is_none(result), pos <= m_start(some(result), 0) and '
                            'm_start(some(result), 0) < m_end(some(result), 0) and m_end(some(result), 0) <= len(s))'],
                   note='A5 capture contract of code_pattern.search(s, pos): a match lies in s[pos:] and is not empty '
                        '(the pattern needs at least an opening run, one character and a closing run)'))
    FIELDS = ['F:Delimiter.start', 'F:Delimiter.end', 'F:Delimiter.number', 'F:Delimiter.type', 'F:Delimiter.active',
              'N:MatchObj.type', 'N:MatchObj.delimiter', 'N:MatchObj._start', 'N:MatchObj._end']
    m.add(Contract(MOD + ':find_link_image',
                   [('string', STR), ('offset', INT), ('delimiters', TList(DL)), ('matches', TList(MO)), ('root', TOpt(TRef('Token')), NONE_VAL)],
                   returns=INT, trusted=True,
                   requires=['STACK_OK(delimiters, string)', '0 <= offset', 'offset < len(string)'],
                   ensures=['offset <= result', 'result < len(string)', 'STACK_OK(new_delimiters, string)',
                            'forall(lambda i: allocated(new_delimiters[i]), 0, len(new_delimiters))'],
                   modifies=['P:delimiters', 'P:matches'] + FIELDS,
                   note='not yet under contract: returns the offset it was given or the last index of the link it matched; '
                        'keeps the stack invariant (it removes entries and calls process_emphasis)'))
    RUN = ("(arg_string[arg_start:arg_end] == '[' or arg_string[arg_start:arg_end] == '![' or "
           "((arg_string[arg_start] == '*' or arg_string[arg_start] == '_') and "
           "forall(lambda k: implies(arg_start <= k and k < arg_end, arg_string[k] == arg_string[arg_start]), 0, len(arg_string))))")
    m.add(Contract(MOD + ':find_core_tokens', [('string', STR), ('root', TOpt(TRef('Token')))], returns=TList(MO),
                   modifies=['G:core_tokens._code_matches'] + FIELDS,
                   body_types={'in_delimiter_run': TOpt(STR), 'code_match': TOpt(MATCH), 'delimiters': TList(DL),
                               'matches': TList(MO)},
                   loops={0: Loop(invariant=[
                       '0 <= i', 'i <= len(string)',
                       'forall(lambda j: DELIM_OK(delimiters[j]), 0, len(delimiters))',
                       'forall(lambda j: EMPH_RUN(delimiters[j]), 0, len(delimiters))',
                       'forall(lambda j: delimiters[j].end <= len(string), 0, len(delimiters))',
                       "forall(lambda j: field(delimiters[j], '__has_open') == field(delimiters[j], '__has_close'), 0, len(delimiters))",
                       'forall(lambda j, k: implies(j < k, delimiters[j] != delimiters[k]), 0, len(delimiters), 0, len(delimiters))',
                       'forall(lambda j: allocated(delimiters[j]), 0, len(delimiters))',
                       'implies(escaped, i >= 1)',
                       'implies(in_image, i >= 1 and string[i - 1] == "!" and not escaped)',
                       "is_none(in_delimiter_run) or some(in_delimiter_run) == '*' or some(in_delimiter_run) == '_'",
                       'implies(not is_none(in_delimiter_run), 0 <= start and start < i - (1 if escaped else 0) and '
                       'forall(lambda k: implies(start <= k and k < i - (1 if escaped else 0), string[k] == some(in_delimiter_run)), 0, len(string)))',
                       'is_none(code_match) or (m_start(some(code_match), 0) < m_end(some(code_match), 0) and '
                       'm_end(some(code_match), 0) <= len(string) and 0 <= m_start(some(code_match), 0))',
                   ], decreases='len(string) - i')},
                   prop=['C01', 'C06', 'C02'], note='process_emphasis and find_link_image are used by contract; the C06/C02 '
                        'clause is the precondition of Delimiter.__init__ (run shape), proved at each of its call sites'))


def build4(m):
    """The inline link scanners: returned offsets lie in the string and move forward (C01), and a
    title never directly abuts the destination (C02, CommonMark 6.3)."""
    ns = m.namespaces[MOD]
    ns['match_link_dest'] = ('func', MOD + ':match_link_dest')
    ns['match_link_title'] = ('func', MOD + ':match_link_title')
    SPAN3 = TTuple([INT, INT, STR])
    m.add(Contract(MOD + ':match_link_dest', [('string', STR), ('offset', INT)], returns=TOpt(SPAN3), pure=True,
                   requires=['0 <= offset', 'offset < len(string)'],
                   ensures=['implies(not is_none(result), offset < some(result)[0] and some(result)[0] <= some(result)[1] '
                            'and some(result)[1] <= len(string))',
                            # the destination ends before the end of the string: a character (the closing
                            # parenthesis, whitespace or '>') always follows it or is its last character
                            'implies(not is_none(result), some(result)[1] < len(string) or some(result)[1] > some(result)[0])'],
                   loops={0: Loop(invariant=[]), 1: Loop(invariant=['count >= 1'])},
                   prop=['C01']))
    m.add(Contract(MOD + ':match_link_title', [('string', STR), ('offset', INT)], returns=TOpt(SPAN3), pure=True,
                   requires=['0 <= offset', 'offset <= len(string)'],
                   ensures=['implies(not is_none(result), offset <= some(result)[0] and some(result)[0] <= some(result)[1] '
                            'and some(result)[1] <= len(string))',
                            # C02 (CommonMark 6.3): a non-empty title is separated from the destination by whitespace
                            ('implies(not is_none(result) and some(result)[0] < some(result)[1], offset < some(result)[0])', 'C02')],
                   loops={0: Loop(invariant=[])},
                   prop=['C01']))


def build5(m):
    """find_link_image (C01): the bracket handler of the inline scanner keeps the delimiter stack
    well-formed and returns an offset inside the string that never moves backwards."""
    MO = TRef('MatchObj')
    ns = m.namespaces[MOD]
    ns['match_link_image'] = ('func', MOD + ':match_link_image')
    FIELDS = ['F:Delimiter.start', 'F:Delimiter.end', 'F:Delimiter.number', 'F:Delimiter.type', 'F:Delimiter.active',
              'N:MatchObj.type', 'N:MatchObj.delimiter', 'N:MatchObj._start', 'N:MatchObj._end']
    m.add(Contract(MOD + ':deactivate_delimiters', [('delimiters', TList(DL)), ('index', INT), ('delimiter_type', STR)],
                   requires=['0 <= index', 'index <= len(delimiters)'],
                   modifies=['F:Delimiter.active'], loops={0: Loop(invariant=[])}, prop=['C01']))
    m.methods[('MatchObj', 'end')] = MOD + ':MatchObj.end'
    m.add(Contract(MOD + ':MatchObj.end', [('self', MO), ('n', INT, mk_int(0))], returns=INT, trusted=True, pure=True,
                   requires=['n == 0'], ensures=['result == self._end'],
                   note='MatchObj.end(0) returns the stored end (varargs fields not modelled)'))
    m.add(Contract(MOD + ':match_link_image',
                   [('string', STR), ('offset', INT), ('delimiter', DL), ('root', TOpt(TRef('Token')), NONE_VAL)],
                   returns=TOpt(MO), trusted=True,
                   requires=['0 <= offset', 'offset < len(string)', 'DELIM_OK(delimiter)'],
                   ensures=['implies(not is_none(result), offset < some(result)._end and some(result)._end <= len(string))'],
                   modifies=['N:MatchObj.type', 'N:MatchObj.delimiter', 'N:MatchObj._start', 'N:MatchObj._end'],
                   note='not under contract (builds MatchObj with tuple fields): a link match ends after the closing '
                        'bracket at `offset` and inside the string'))
    c = m.contracts[MOD + ':find_link_image']
    c.trusted = False
    c.note = 'verified; match_link_image and process_emphasis are used by contract'
    c.requires = c.requires + ['forall(lambda i: allocated(delimiters[i]), 0, len(delimiters))']
    c.prop = ['C01']
    c.loops = {0: Loop(invariant=['i == len(delimiters) - 1 - _k0', 'same(delimiters, old(delimiters))',
                                  'same(matches, old(matches))', 'STACK_OK(delimiters, string)',
                                  'forall(lambda j: allocated(delimiters[j]), 0, len(delimiters))'])}
    c.body_types = {'match': TOpt(MO)}
    c.ghost_init = {'g_end': (INT, '0')}
    c.ghost_after = {
        'match = match_link_image(string, offset, delimiter, root)': [('g_end', '0 if is_none(match) else some(match)._end')],
        # the match object is older than anything process_emphasis allocates: its end is untouched
        'process_emphasis(string, i, delimiters, matches)': [('__assert__', 'some(match)._end == g_end')],
    }


def build6(m):
    """Reference lookup of the inline scanner (C07, C01, C19): match_link_label, get_link_label and
    match_link_image are verified on their real bodies.  A reference resolves to exactly the entry
    that the footnote table holds under the normalised label (the table itself is first-wins by
    Footnote.append_footnotes#firstwins), and to nothing when there is no document root."""
    MO = TRef('MatchObj')
    ROOT = TRef('RootDoc')
    SPAN3 = TTuple([INT, INT, STR])
    REF2 = TTuple([STR, STR])
    m.classes.setdefault('RootDoc', {'footnotes': TDict(STR, REF2)})
    if 'norm_label' not in m.ufuncs:
        m.ufunc('norm_label', [STR], STR)
    ns = m.namespaces[MOD]
    ns['match_link_label'] = ('func', MOD + ':match_link_label')
    ns['get_link_label'] = ('func', MOD + ':get_link_label')
    if 'mistletoe.core_tokens:normalize_label#uf' not in m.contracts:
        m.add(Contract('mistletoe.core_tokens:normalize_label#uf', [('text', STR)], returns=STR, trusted=True, pure=True,
                       ensures=['result == norm_label(text)']))
    ns['normalize_label'] = ('func', 'mistletoe.core_tokens:normalize_label#uf')
    # the fields tuple of a MatchObj (varargs) as three ghost fields
    m.classes['MatchObj'].update({'dest_type': STR, 'title_delimiter': TOpt(STR), 'label': STR,
                                  '_f1': SPAN3, '_f2': TOpt(SPAN3), '_f3': TOpt(SPAN3)})
    c = m.contracts[MOD + ':MatchObj.__init__#1']
    c.params = [('self', MO), ('start', INT), ('end', INT), ('f1', SPAN3), ('f2', TOpt(SPAN3), NONE_VAL), ('f3', TOpt(SPAN3), NONE_VAL)]
    c.ensures = ['self._start == start', 'self._end == end', 'self._f1 == f1', 'same(self._f2, f2)', 'same(self._f3, f3)']
    c.modifies = ['self._start', 'self._end', 'self._f1', 'self._f2', 'self._f3']
    c.note = ('MatchObj(start, end, *fields) stores its arguments; the varargs tuple `fields` is modelled as the three '
              'ghost fields _f1, _f2, _f3 (every call site passes one or three (start, end, text) triples)')
    NEWF = ['N:MatchObj.type', 'N:MatchObj.delimiter', 'N:MatchObj._start', 'N:MatchObj._end', 'N:MatchObj.dest_type',
            'N:MatchObj.title_delimiter', 'N:MatchObj.label', 'N:MatchObj._f1', 'N:MatchObj._f2', 'N:MatchObj._f3']
    for k in (MOD + ':process_emphasis', MOD + ':find_link_image', MOD + ':find_core_tokens', MOD + ':match_link_image'):
        cc = m.contracts[k]
        cc.modifies = [x for x in cc.modifies if not x.startswith('N:MatchObj.')] + NEWF
    for k in (MOD + ':find_link_image', MOD + ':find_core_tokens', MOD + ':match_link_image'):
        cc = m.contracts[k]
        cc.params = [(p[0], TOpt(ROOT)) + tuple(p[2:]) if p[0] == 'root' else p for p in cc.params]

    TABLE = 'some(root).footnotes'
    m.add(Contract(MOD + ':get_link_label', [('text', STR), ('root', TOpt(ROOT))], returns=TOpt(REF2), pure=True,
                   ensures=[
                       # a hit is the table entry under the normalised text; without a root nothing resolves
                       ('implies(not is_none(result), not is_none(root) and norm_label(text) in %s and '
                        'some(result) == %s[norm_label(text)])' % (TABLE, TABLE), 'C07'),
                       # a bracket-free, non-blank text that is defined does resolve (position independence:
                       # the answer depends on the table and the text only)
                       ("implies(not is_none(root) and forall(lambda k: text[k] != '[' and text[k] != ']', 0, len(text)) and text.strip() != '' "
                        'and norm_label(text) in %s, not is_none(result))' % TABLE, 'C07'),
                   ],
                   loops={0: Loop(invariant=[])}, prop=['C01', 'C07']))
    LBL = TTuple([SPAN3, REF2])
    m.add(Contract(MOD + ':match_link_label', [('string', STR), ('offset', INT), ('root', TOpt(ROOT), NONE_VAL)],
                   returns=TOpt(LBL), pure=True,
                   # call-site fact (follows(string, offset - 1, '[')): the scan starts on the opening bracket
                   requires=['0 <= offset', 'offset < len(string)', "string[offset] == '['"],
                   ensures=[
                       'implies(not is_none(result), some(result)[0][0] == offset and offset + 1 < some(result)[0][1] '
                       'and some(result)[0][1] <= len(string))',
                       "implies(not is_none(result), string[some(result)[0][1] - 1] == ']' and "
                       'some(result)[0][2] == string[offset + 1:some(result)[0][1] - 1])',
                       ('implies(not is_none(result), not is_none(root) and norm_label(some(result)[0][2]) in %s and '
                        'some(result)[1] == %s[norm_label(some(result)[0][2])])' % (TABLE, TABLE), 'C07'),
                   ],
                   loops={0: Loop(invariant=['implies(_k0 == 0, start == -1 and not escaped)',
                                             'implies(_k0 >= 1, start == offset)', 'end == -1'])},
                   prop=['C01', 'C07', 'C19']))
    c = m.contracts[MOD + ':match_link_image']
    c.trusted = False
    c.note = 'verified; MatchObj.__init__ stores its arguments (ghost fields for the varargs tuple)'
    c.requires = ['0 <= offset', 'offset < len(string)', 'DELIM_OK(delimiter)']
    TEXT = 'string[delimiter.start + delimiter.number:offset]'
    R = 'some(result)'
    c.ensures = [
        'implies(not is_none(result), offset < %s._end and %s._end <= len(string))' % (R, R),
        'implies(not is_none(result), is_fresh(result) and %s._start == delimiter.start and %s._f1[2] == %s)' % (R, R, TEXT),
        # C07: a reference link/image carries exactly the table entry of its normalised label ...
        ("implies(not is_none(result) and (%s.dest_type == 'shortcut' or %s.dest_type == 'collapsed'), "
         'not is_none(root) and norm_label(%s) in %s and some(%s._f2)[2] == %s[norm_label(%s)][0] and '
         'some(%s._f3)[2] == %s[norm_label(%s)][1])' % (R, R, TEXT, TABLE, R, TABLE, TEXT, R, TABLE, TEXT), 'C07'),
        ("implies(not is_none(result) and %s.dest_type == 'full', "
         'not is_none(root) and norm_label(%s.label) in %s and some(%s._f2)[2] == %s[norm_label(%s.label)][0] and '
         'some(%s._f3)[2] == %s[norm_label(%s.label)][1])' % (R, R, TABLE, R, TABLE, R, R, TABLE, R), 'C07'),
        # ... and every match is of one of the five kinds: without a table only inline links exist
        ("implies(not is_none(result), %s.dest_type == 'uri' or %s.dest_type == 'angle_uri' or %s.dest_type == 'full' "
         "or %s.dest_type == 'collapsed' or %s.dest_type == 'shortcut')" % (R, R, R, R, R), 'C07'),
        ("implies(not is_none(result) and is_none(root), %s.dest_type == 'uri' or %s.dest_type == 'angle_uri')" % (R, R), 'C07'),
    ]
    c.modifies = NEWF
    c.body_types = {'match_info': TOpt(SPAN3)}
    c.prop = ['C01', 'C07', 'C19']


def build7(m):
    """Termination of process_emphasis (C01, C06).  The delimiter stack is sorted by string position
    and its entries are disjoint (STACK_SORTED, established by find_core_tokens and kept by every
    stack operation); each iteration moves the current closer's start strictly to the right -
    either the same entry loses characters on its left, or the scan moves to a later entry - so
    len(string) - start of the current closer is a variant."""
    m.predicate('STACK_SORTED', ['ds'],
                'forall(lambda i, j: implies(i < j, ds[i].end <= ds[j].start), 0, len(ds), 0, len(ds))')
    c = m.contracts[MOD + ':process_emphasis']
    c.requires = c.requires + ['STACK_SORTED(delimiters)']
    c.ensures = c.ensures + ['STACK_SORTED(new_delimiters)']
    lp = c.loops[0]
    lp.invariant = lp.invariant + ['STACK_SORTED(delimiters)']
    # lexicographic: an iteration either removes an entry from the stack, or keeps them all and moves the
    # current closer's start to the right (after a match that consumes opener and closer completely the
    # scan resumes one entry BEFORE the opener, so the position alone is not monotone)
    lp.decreases = ['len(delimiters)', '(len(string) - delimiters[some(curr_pos)].start) if not is_none(curr_pos) else 0']
    # entries below the stack bottom are not touched: their extent is what it was (callers keep their
    # own bound on the extents through the call)
    KEEP = ('forall(lambda i: old(delimiters)[i].end == old(delimiters[i].end) and old(delimiters)[i].start == old(delimiters[i].start), '
            '0, (0 if is_none(stack_bottom) else some(stack_bottom) + 1))')
    lp.invariant = lp.invariant + [KEEP]
    c.ensures = c.ensures + ['forall(lambda i: delimiters[i].end == old(delimiters[i].end) and '
                             'delimiters[i].start == old(delimiters[i].start), 0, len(new_delimiters))']
    # find_link_image keeps the stack sorted and never extends an entry
    fl = m.contracts[MOD + ':find_link_image']
    fl.requires = fl.requires + ['STACK_SORTED(delimiters)', 'forall(lambda j: delimiters[j].end <= offset, 0, len(delimiters))']
    fl.ensures = fl.ensures + ['STACK_SORTED(new_delimiters)',
                               'forall(lambda j: new_delimiters[j].end <= offset, 0, len(new_delimiters))']
    fl.loops[0].invariant = fl.loops[0].invariant + ['STACK_SORTED(delimiters)',
                                                     'forall(lambda j: delimiters[j].end <= offset, 0, len(delimiters))']
    # find_core_tokens builds the stack left to right: every recorded entry ends before the run being
    # scanned, before a pending '!' and before the scan position
    fc = m.contracts[MOD + ':find_core_tokens']
    fc.loops[0].invariant = fc.loops[0].invariant + [
        'STACK_SORTED(delimiters)',
        'forall(lambda j: delimiters[j].end <= (start if not is_none(in_delimiter_run) else (i - 1 if in_image else i)), 0, len(delimiters))']
    fc.note = (fc.note or '') + '; the stack it hands to process_emphasis is sorted by position (termination of process_emphasis)'
    # C06 (per-kind opener bottoms): a closer that finds no opener lowers the bound of ITS kind only
    c.ghost_after = dict(c.ghost_after or {})
    c.ghost_after['star_bottom = bottom'] = [('__assert__', ("closer.type[0] == '*'", 'C06'))]
    c.ghost_after['underscore_bottom = bottom'] = [('__assert__', ("closer.type[0] == '_'", 'C06'))]
    # stepping stone (proved where it stands): the closer still sits at the current position when it is removed
    c.ghost_before = dict(c.ghost_before or {})
    c.ghost_before['delimiters.remove(closer)'] = [
        ('__assert__', '0 <= some(curr_pos) and some(curr_pos) < len(delimiters) and delimiters[some(curr_pos)] == closer')]
    c.note = 'fully verified: index and attribute safety, stack invariant, and termination (variant: distance of the current closer from the end of the string)'
