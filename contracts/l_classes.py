"""Class-structure and global-state lemmas (C18 override frame / MRO, C01 render_map coverage,
C11 reset of the token lists and the list of global state, C07 phase separation by syntax).
Facts about classes are read by importing the working tree's modules in a subprocess (module top
level only; nothing is parsed or rendered there except `with R(): pass`)."""
import ast
import json
import os
import subprocess
import time
from .l_html import mk

PROBE = r'''
import sys, json, inspect
sys.path.insert(0, REPO)
import mistletoe
from mistletoe import block_token, span_token, core_tokens, token as token_mod
from mistletoe.html_renderer import HtmlRenderer
from mistletoe.latex_renderer import LaTeXRenderer
from mistletoe.markdown_renderer import MarkdownRenderer
from mistletoe.ast_renderer import AstRenderer
from mistletoe.contrib.toc_renderer import TocRenderer
from mistletoe.contrib.github_wiki import GithubWikiRenderer
from mistletoe.contrib.mathjax import MathJaxRenderer
from mistletoe.contrib.pygments_renderer import PygmentsRenderer
from mistletoe.contrib.jira_renderer import JiraRenderer
from mistletoe.contrib.xwiki20_renderer import XWiki20Renderer
import html
out = {}
def owner(cls, name):
    for k in cls.__mro__:
        if name in vars(k):
            return k.__module__ + '.' + k.__name__
    return None
names = lambda cls: sorted({n for k in cls.__mro__ if k is not object for n in vars(k) if not (n.startswith('__') and n.endswith('__') and n not in ('__init__', '__exit__', '__enter__'))})
out['override'] = {}
for R in (TocRenderer, GithubWikiRenderer, MathJaxRenderer, PygmentsRenderer):
    diff = sorted(n for n in names(R) if owner(R, n) != owner(HtmlRenderer, n))
    out['override'][R.__name__] = diff
both = sorted(set(n for n in vars(HtmlRenderer)) & set(n for k in LaTeXRenderer.__mro__ if k is not object for n in vars(k)))
out['mathjax_mro'] = {n: owner(MathJaxRenderer, n) for n in both if not (n.startswith('__') and n not in ('__init__',))}
out['html_owner'] = {n: owner(HtmlRenderer, n) for n in out['mathjax_mro']}
# where HtmlRenderer gets each name MathJaxRenderer can resolve, by any route (own, BaseRenderer, ...)
out['html_resolves'] = {n: owner(HtmlRenderer, n) for n in names(MathJaxRenderer)}
defaults_b = [c.__name__ for c in block_token._token_types]
defaults_s = [c.__name__ for c in span_token._token_types]
out['defaults'] = {'block': defaults_b, 'span': defaults_s, 'block_all': list(block_token.__all__), 'span_all': list(span_token.__all__)}
out['render_map'] = {}
out['after_exit'] = {}
core_made = ['Strong', 'Emphasis', 'Link', 'Image']
always_block = ['Document', 'SetextHeading', 'ListItem', 'TableRow', 'TableCell']
for label, make in [('HtmlRenderer', lambda: HtmlRenderer()), ('HtmlRenderer(process_html_tokens=False)', lambda: HtmlRenderer(process_html_tokens=False)),
                    ('MarkdownRenderer', lambda: MarkdownRenderer()), ('LaTeXRenderer', lambda: LaTeXRenderer()), ('AstRenderer', lambda: AstRenderer()),
                    ('TocRenderer', lambda: TocRenderer()), ('GithubWikiRenderer', lambda: GithubWikiRenderer()), ('MathJaxRenderer', lambda: MathJaxRenderer()),
                    ('PygmentsRenderer', lambda: PygmentsRenderer()), ('JiraRenderer', lambda: JiraRenderer()), ('XWiki20Renderer', lambda: XWiki20Renderer())]:
    with make() as r:
        active = [c.__name__ for c in block_token._token_types] + [c.__name__ for c in span_token._token_types if c.__name__ != 'CoreTokens']
        if label == 'MarkdownRenderer':
            active += ['LinkReferenceDefinition']
        need = sorted(set(active + core_made + always_block) - {'Footnote'})
        missing = [n for n in need if n not in r.render_map or not callable(r.render_map[n])]
        out['render_map'][label] = {'needed': need, 'missing': missing}
    out['after_exit'][label] = {
        'block': [c.__name__ for c in block_token._token_types], 'span': [c.__name__ for c in span_token._token_types],
        'block_identity': all(a is getattr(block_token, n) for a, n in zip(block_token._token_types, block_token.__all__)),
        'charref_is_stdlib': html._charref is __import__('mistletoe.span_tokenizer', fromlist=['x'])._stdlib_charref,
        'root_node_none': token_mod._root_node is None, 'code_matches_empty': core_tokens._code_matches == [],
        'parse_setext': block_token.Paragraph.parse_setext}
# --- residue: module-level state of the parser modules before / after a complete use of each renderer
import types as _types
PROBE_DOC = ('Title\n=====\n\ntext\n<div>\nmore\n</div>\n\npara\n# h #\n\n> quote\n> - item\n\n```py\ncode\n```\n\n'
             '| a | b |\n|---|---|\n| `c` | *d* |\n\n[k]: /u "t"\n\n[k] <x@y.z> &amp; $m$ [[a|b]]\n\n1. one\n\n   two\n')
SCRATCH = {('mistletoe.block_token', 'Heading.level'), ('mistletoe.block_token', 'Heading.content'),
           ('mistletoe.block_token', 'Heading.closing_sequence'), ('mistletoe.block_token', 'CodeFence._open_info'),
           ('mistletoe.block_token', 'HtmlBlock._end_cond')}
def snapshot():
    snap = {}
    import mistletoe.span_tokenizer as stz, mistletoe.block_tokenizer as btz
    for mod in (block_token, span_token, core_tokens, token_mod, stz, btz):
        for k, v in vars(mod).items():
            if k.startswith('__') or isinstance(v, (_types.ModuleType, _types.FunctionType, type)) or callable(v):
                continue
            if isinstance(v, (set, frozenset)) and len(v) > 100:
                continue
            snap[(mod.__name__, k)] = repr([getattr(x, '__name__', x) for x in v] if isinstance(v, list) else v)[:400]
        for k, v in vars(mod).items():
            if isinstance(v, type) and v.__module__ == mod.__name__:
                for a, av in vars(v).items():
                    if a.startswith('__') or callable(av) or isinstance(av, (classmethod, staticmethod, property)) or hasattr(av, 'pattern'):
                        continue
                    snap[(mod.__name__, k + '.' + a)] = repr(av)[:200]
    snap[('html', '_charref')] = repr(html._charref.pattern)[:80]
    return snap
out['residue'] = {}
for label, make in [('HtmlRenderer', lambda: HtmlRenderer()), ('MarkdownRenderer', lambda: MarkdownRenderer()),
                    ('LaTeXRenderer', lambda: LaTeXRenderer()), ('AstRenderer', lambda: AstRenderer()),
                    ('JiraRenderer', lambda: JiraRenderer()), ('XWiki20Renderer', lambda: XWiki20Renderer()),
                    ('MathJaxRenderer', lambda: MathJaxRenderer()), ('GithubWikiRenderer', lambda: GithubWikiRenderer())]:
    before = snapshot()
    try:
        with make() as r:
            r.render(mistletoe.Document(PROBE_DOC))
    except Exception as e:
        out['residue'][label] = {'error': repr(e)}
        continue
    after = snapshot()
    diff = {'%s:%s' % k: [before.get(k), after.get(k)] for k in set(before) | set(after)
            if before.get(k) != after.get(k) and k not in SCRATCH}
    out['residue'][label] = diff
print(json.dumps(out))
'''

EXTENSION_SETS = {
    # render_document: resets the collected headings and returns the inherited rendering (under contract:
    # TocRenderer.render_document)
    'TocRenderer': {'__init__', 'toc', 'render_heading', 'parse_rendered_heading', 'render_document'},
    'GithubWikiRenderer': {'__init__', 'render_github_wiki'},
    'MathJaxRenderer': {'__init__', 'mathjax_src', 'render_math', 'render_document', 'packages', 'render_packages',
                        'verb_delimiters'},
    'PygmentsRenderer': {'__init__', 'formatter', 'render_block_code'},
}
# names only LaTeXRenderer defines are allowed for MathJax (they come second in the MRO and are not
# reachable from render_map except render_math)
LATEX_ONLY_OK = True


def probe(repo):
    code = 'REPO = %r\n' % repo + PROBE
    p = subprocess.run(['/venv/bin/python', '-c', code], capture_output=True, text=True, timeout=120)
    if p.returncode != 0:
        raise RuntimeError(p.stderr[-800:])
    return json.loads(p.stdout)


def class_lemmas(repo):
    res = []
    t0 = time.time()
    try:
        facts = probe(repo)
    except Exception as e:
        return {'results': [mk('classes:probe', 'undecided', 0, ['C18', 'C01', 'C11'], detail='import probe failed: %s' % e, kind='resolve')]}
    ms = (time.time() - t0) * 1000
    # --- C18 override frame
    for R, diff in facts['override'].items():
        extra = [n for n in diff if n not in EXTENSION_SETS[R]]
        if R == 'MathJaxRenderer':
            # attributes that exist only because LaTeXRenderer is a second base class
            # (a name HtmlRenderer resolves by ANY route - its own or an inherited BaseRenderer method - must
            # resolve to the same definition in MathJaxRenderer: LaTeXRenderer comes before BaseRenderer in the MRO)
            extra = [n for n in extra if facts['html_resolves'].get(n) is not None or n in facts['mathjax_mro']]
        ok = not extra
        res.append(mk('override-frame:%s' % R, 'proved' if ok else 'refuted', ms, ['C18'], fn=R,
                      text='attributes whose MRO-resolved definition differs from HtmlRenderer\'s are within the declared extension set %s' % sorted(EXTENSION_SETS[R]),
                      model=None if ok else {'unexpected_overrides': extra},
                      native=None if ok else {'reproduced': True, 'unexpected_overrides': extra}))
    bad = {n: o for n, o in facts['mathjax_mro'].items() if o != facts['html_owner'][n] and n not in EXTENSION_SETS['MathJaxRenderer']}
    res.append(mk('mro:MathJaxRenderer-html-first', 'proved' if not bad else 'refuted', ms, ['C18'], fn='MathJaxRenderer',
                  text='every name defined by both HtmlRenderer and LaTeXRenderer resolves to HtmlRenderer\'s in MathJaxRenderer',
                  model=None if not bad else bad, native=None if not bad else {'reproduced': True}))
    # --- C01 render_map coverage
    for label, d in facts['render_map'].items():
        ok = not d['missing']
        res.append(mk('render-map:%s' % label, 'proved' if ok else 'refuted', ms, ['C01'], fn=label,
                      text='render_map has a callable entry for every token class this renderer\'s token set can construct (%d classes)' % len(d['needed']),
                      model=None if ok else {'missing': d['missing']}, native=None if ok else {'reproduced': True, 'missing': d['missing']}))
    # --- C11 state after context exit
    for label, d in facts['after_exit'].items():
        ok = (d['block'] == facts['defaults']['block_all'] and d['span'] == facts['defaults']['span_all'] and d['block_identity']
              and d['charref_is_stdlib'] and d['root_node_none'] and d['code_matches_empty'] and d['parse_setext'] is True)
        res.append(mk('exit-resets:%s' % label, 'proved' if ok else 'refuted', ms, ['C11', 'C16'], fn=label,
                      text='after `with R(): pass` both token lists are exactly the __all__ defaults and the parser globals are in their initial state',
                      model=None if ok else d, native=None if ok else {'reproduced': True, 'state': d}))
    # --- C11 residue: no module-level parser state differs before/after a complete renderer use
    for label, diff in facts.get('residue', {}).items():
        ok = not diff
        res.append(mk('residue:%s' % label, 'proved' if ok else 'refuted', ms, ['C11'], fn=label,
                      text='every module-level value and class attribute of the parser modules (typestate-protected scratch '
                           'fields aside) is the same before and after `with R() as r: r.render(Document(probe))`',
                      model=None if ok else diff, native=None if ok else {'reproduced': True, 'residue': diff}))
    return {'results': res, 'sha': {},
            'assumptions': ['class facts are read from the imported working tree (module top level executed); `with R(): pass` is executed once per renderer']}


def _module_tree(repo, rel):
    with open(os.path.join(repo, rel), encoding='utf-8') as f:
        return ast.parse(f.read())


LISTED_GLOBALS = {
    'mistletoe/block_token.py': {'_token_types', 'Heading.level', 'Heading.content', 'Heading.closing_sequence',
                                 'CodeFence._open_info', 'HtmlBlock._end_cond', 'Paragraph.parse_setext'},
    'mistletoe/span_token.py': {'_token_types', 'core_tokens._code_matches'},
    'mistletoe/span_tokenizer.py': {'html._charref', 'core_tokens._code_matches'},
    'mistletoe/core_tokens.py': {'_code_matches'},
    'mistletoe/token.py': set(),
    'mistletoe/block_tokenizer.py': set(),
    'mistletoe/contrib/pygments_renderer.py': {'self.formatter.style'},
}


def global_writes(tree):
    """Writes to module globals / class attributes / other modules' attributes inside functions."""
    found = set()

    def visit_func(fn, cls):
        declared = set()
        for n in ast.walk(fn):
            if isinstance(n, ast.Global):
                declared |= set(n.names)
        local_names = set(a.arg for a in fn.args.args)
        for n in ast.walk(fn):
            if isinstance(n, (ast.Assign, ast.For)):
                for t in (n.targets if isinstance(n, ast.Assign) else [n.target]):
                    for x in ast.walk(t):
                        if isinstance(x, ast.Name) and isinstance(x.ctx, ast.Store):
                            local_names.add(x.id)
        for n in ast.walk(fn):
            targets = []
            if isinstance(n, ast.Assign):
                targets = n.targets
            elif isinstance(n, ast.AugAssign):
                targets = [n.target]
            for t in targets:
                if isinstance(t, ast.Name) and t.id in declared:
                    found.add(t.id)
                elif isinstance(t, ast.Attribute):
                    base = t.value
                    s = ast.unparse(t)
                    if isinstance(base, ast.Name) and base.id in local_names - declared:
                        continue
                    if isinstance(base, ast.Name) and base.id == 'cls' and cls:
                        found.add('%s.%s' % (cls, t.attr))
                    elif isinstance(base, ast.Name) and base.id not in ('self',) and base.id[0].isupper():
                        found.add(s)
                    elif isinstance(base, ast.Name) and base.id in ('html', 'core_tokens', 'token', 'block_token', 'span_token'):
                        found.add(s)
                    elif s.startswith('self.formatter.'):
                        found.add(s)

    for n in tree.body:
        if isinstance(n, ast.FunctionDef):
            visit_func(n, None)
        elif isinstance(n, ast.ClassDef):
            for f in n.body:
                if isinstance(f, ast.FunctionDef):
                    visit_func(f, n.name)
    return found


def state_lemmas(repo):
    res = []
    # (e) every piece of process-global parser state written by a function is in the listed set G
    for rel, listed in LISTED_GLOBALS.items():
        try:
            found = global_writes(_module_tree(repo, rel))
        except OSError as e:
            res.append(mk('global-scan:%s' % rel, 'undecided', 0, ['C11'], detail=str(e), kind='resolve'))
            continue
        norm = {f.replace('token._root_node', 'token._root_node') for f in found}
        extra = sorted(x for x in norm if x not in listed and x not in ('token._root_node', 'lines._index'))
        res.append(mk('global-scan:%s' % rel, 'proved' if not extra else 'undecided', 0, ['C11'], fn=rel,
                      text='functions write only the listed global parser state %s' % sorted(listed | {'token._root_node'}),
                      detail=None if not extra else 'UNLISTED-GLOBAL %s: new global state is not covered by any restore contract' % extra))
    # (d) reset_tokens rebuilds the list from __all__ without reading the old list; __exit__ calls both
    for rel, mod in (('mistletoe/block_token.py', 'block_token'), ('mistletoe/span_token.py', 'span_token')):
        tree = _module_tree(repo, rel)
        fn = [n for n in tree.body if isinstance(n, ast.FunctionDef) and n.name == 'reset_tokens']
        ok = False
        if fn:
            body = [s for s in fn[0].body if not (isinstance(s, ast.Expr) and isinstance(s.value, ast.Constant))]
            ok = (len(body) == 2 and isinstance(body[0], ast.Global) and body[0].names == ['_token_types']
                  and ast.unparse(body[1]) == '_token_types = [globals()[cls_name] for cls_name in __all__]')
        res.append(mk('reset-tokens:%s' % mod, 'proved' if ok else 'undecided', 0, ['C11', 'C16'], fn='%s.reset_tokens' % mod,
                      text='reset_tokens assigns the list comprehension over __all__ to the global and reads nothing else',
                      detail=None if ok else 'reset_tokens no longer has the recognised form'))
    tree = _module_tree(repo, 'mistletoe/base_renderer.py')
    ok = False
    for n in ast.walk(tree):
        if isinstance(n, ast.FunctionDef) and n.name == '__exit__':
            calls = [ast.unparse(s) for s in n.body if isinstance(s, ast.Expr) and isinstance(s.value, ast.Call)]
            ok = 'block_token.reset_tokens()' in calls and 'span_token.reset_tokens()' in calls and \
                not any(isinstance(s, (ast.If, ast.Return, ast.Try)) for s in n.body)
    res.append(mk('exit-calls-resets:BaseRenderer.__exit__', 'proved' if ok else 'undecided', 0, ['C11', 'C16'],
                  fn='BaseRenderer.__exit__', text='__exit__ unconditionally calls block_token.reset_tokens() and span_token.reset_tokens()',
                  detail=None if ok else '__exit__ no longer has the recognised form'))
    return {'results': res, 'sha': {}}


STATE_FREE_DECORATORS = ('staticmethod', 'classmethod', 'property', 'abstractmethod', 'abc.abstractmethod',
                         'contextmanager', 'contextlib.contextmanager')
# reads of process-global parser state: names of the listed globals and the stdlib function that
# reads html._charref (swapped by span_tokenizer.tokenize for the duration of inline parsing)
STATE_READS = ('_token_types', '_code_matches', '_root_node', '_charref', 'html.unescape', 'parse_setext',
               '_open_info', '_end_cond', 'closing_sequence', '_markdown_charref')


def decorator_lemma(repo):
    """C11 frame assumption of the global-write scan: no function of the package carries a
    state-holding decorator (a memoiser keeps results across documents and renderers; on a function
    that reads the listed global state it makes a later result depend on an earlier call)."""
    res = []
    root = os.path.join(repo, 'mistletoe')
    t0 = time.time()
    unknown, memo_pure, memo_impure = [], [], []
    n_funcs = 0
    for dp, dn, fns in os.walk(root):
        for fname in sorted(fns):
            if not fname.endswith('.py'):
                continue
            rel = os.path.relpath(os.path.join(dp, fname), repo)
            try:
                tree = _module_tree(repo, rel)
            except (OSError, SyntaxError):
                continue
            for n in ast.walk(tree):
                if not isinstance(n, (ast.FunctionDef, ast.AsyncFunctionDef, ast.ClassDef)):
                    continue
                n_funcs += 1
                for d in n.decorator_list:
                    txt = ast.unparse(d)
                    base = ast.unparse(d.func) if isinstance(d, ast.Call) else txt
                    if base in STATE_FREE_DECORATORS or base.endswith(('.setter', '.getter', '.deleter')):
                        continue
                    site = '%s:%d %s @%s' % (rel, n.lineno, n.name, txt)
                    if 'cache' in base.lower() or 'memo' in base.lower():
                        body = ast.unparse(n)
                        hits = [r for r in STATE_READS if r in body]
                        (memo_impure if hits else memo_pure).append((site, hits))
                    else:
                        unknown.append(site)
    ms = (time.time() - t0) * 1000
    if memo_impure:
        res.append(mk('hidden-state:memoised-function-reads-global-state', 'refuted', ms, ['C11'], fn='mistletoe/*',
                      text='no memoising decorator on a function that reads process-global parser state',
                      model={'sites': ['%s reads %s' % (s_, h) for s_, h in memo_impure]},
                      native={'reproduced': False, 'reason': 'history-dependent: no single input'}))
    else:
        res.append(mk('hidden-state:memoised-function-reads-global-state', 'proved', ms, ['C11'], fn='mistletoe/*',
                      text='no memoising decorator on a function that reads process-global parser state '
                           '(%d definitions scanned; memoised pure functions: %s)' % (n_funcs, [s_ for s_, _ in memo_pure])))
    res.append(mk('hidden-state:decorators-state-free', 'proved' if not unknown else 'undecided', 0, ['C11'], fn='mistletoe/*',
                  text='every decorator in the package is one of %s or a property accessor' % (STATE_FREE_DECORATORS,),
                  detail=None if not unknown else 'UNKNOWN-DECORATOR %s: may hold state the global-write scan does not see' % unknown))
    return {'results': res, 'sha': {}}


TABLE_PROBE = r"""
import sys, json, unicodedata
sys.path.insert(0, REPO)
from mistletoe import core_tokens as ct
ascii_punct = set('!"#$%&\'()*+,-./:;<=>?@[\\]^_`{|}~')
miss, extra, ws_miss, ws_extra = [], [], [], []
for i in range(sys.maxunicode + 1):
    c = chr(i)
    spec_p = c in ascii_punct or unicodedata.category(c).startswith('P')
    if spec_p != (c in ct.punctuation):
        (miss if spec_p else extra).append(i)
    spec_ws = unicodedata.category(c) == 'Zs' or c in '\t\n\x0c\r'
    if spec_ws and c not in ct.unicode_whitespace:
        ws_miss.append(i)
    if c in ct.unicode_whitespace and not c.isspace():
        ws_extra.append(i)
def em(text):
    import mistletoe
    return mistletoe.markdown(text)
out = {'punct_missing': miss[:20], 'punct_missing_n': len(miss), 'punct_extra': extra[:20], 'punct_extra_n': len(extra),
       'ws_missing': ws_miss[:20], 'ws_extra': ws_extra[:20], 'unidata': unicodedata.unidata_version,
       'ascii_ws': sorted(ord(c) for c in ct.whitespace)}
if miss:
    P = chr(miss[0]); t = 'a*' + P + 'b' + P + '*'
    out['api'] = {'input': t, 'output': em(t), 'expected': 'no <em>: the * run is followed by punctuation and preceded by a letter, so it is not left-flanking'}
    out['api']['reproduced'] = '<em>' in out['api']['output']
elif extra:
    X = chr(extra[0]); t = 'a*' + X + 'b' + X + '*'
    out['api'] = {'input': t, 'output': em(t), 'expected': '<em>: both runs flank a non-punctuation character'}
    out['api']['reproduced'] = '<em>' not in out['api']['output']
print(json.dumps(out))
"""


def table_lemmas(repo):
    """C06/C02: the character tables behind the flanking rules, compared with the specification's
    definitions over EVERY code point (finite domain, exhaustive: a proof by enumeration)."""
    t0 = time.time()
    p = subprocess.run(['/venv/bin/python', '-c', TABLE_PROBE.replace('REPO', repr(repo))], capture_output=True, text=True)
    ms = (time.time() - t0) * 1000
    props = ['C06', 'C02', 'C14']
    if p.returncode != 0:
        return {'results': [mk('table:core_tokens.punctuation', 'undecided', ms, props, detail='probe failed: ' + p.stderr[-300:],
                               fn='mistletoe.core_tokens', kind='resolve')], 'sha': {}}
    d = json.loads(p.stdout)
    res = []
    ok = not d['punct_missing_n'] and not d['punct_extra_n']
    res.append(mk('table:core_tokens.punctuation == ASCII punctuation + Unicode P*', 'proved' if ok else 'refuted', ms, props,
                  fn='mistletoe.core_tokens',
                  text='for all 1,114,112 code points c: c in punctuation <=> c is an ASCII punctuation character or '
                       'unicodedata.category(c) starts with P (CommonMark 0.30 section 2.1; Unicode %s)' % d['unidata'],
                  model=None if ok else {'missing': [hex(x) for x in d['punct_missing']], 'missing_total': d['punct_missing_n'],
                                         'extra': [hex(x) for x in d['punct_extra']], 'extra_total': d['punct_extra_n']},
                  native=None if ok else d.get('api', {'reproduced': False})))
    ok = not d['ws_missing'] and not d['ws_extra']
    res.append(mk('table:core_tokens.unicode_whitespace between spec and str.isspace', 'proved' if ok else 'refuted', 0, props,
                  fn='mistletoe.core_tokens',
                  text='every Unicode whitespace character of the specification (category Zs, tab, LF, FF, CR) is in '
                       'unicode_whitespace, and every member satisfies str.isspace()',
                  model=None if ok else {'missing': [hex(x) for x in d['ws_missing']], 'extra': [hex(x) for x in d['ws_extra']]},
                  native=None if ok else {'reproduced': True, 'table_level': True}))
    ok = d['ascii_ws'] == [9, 10, 11, 12, 13, 32]
    res.append(mk('table:core_tokens.whitespace == ASCII whitespace', 'proved' if ok else 'refuted', 0, props,
                  fn='mistletoe.core_tokens', text='whitespace == {space, tab, LF, VT, FF, CR}',
                  model=None if ok else {'table': d['ascii_ws']}, native=None if ok else {'reproduced': True, 'table_level': True}))
    return {'results': res, 'sha': {},
            'assumptions': ['module-level table evaluated by importing mistletoe.core_tokens from the tree under /venv/bin/python; '
                            'unicodedata of that interpreter is the reference for general categories']}


CHILD_MUTATORS = ('append', 'extend', 'insert', 'pop', 'remove', 'sort', 'reverse', 'clear', '__setitem__', '__delitem__')
CHILD_FRAME_EXEMPT = {
    ('mistletoe/span_tokenizer.py', 'append_child'): 'ParseToken.children is a plain list of ParseToken candidates, not a token tree',
    ('mistletoe/span_tokenizer.py', 'eval_new_child'): 'same (parent is a ParseToken)',
    ('mistletoe/token.py', 'children'): 'the setter itself (under contract: Token.children@2)',
}
PARENT_PROBE = r"""
import sys, json
sys.path.insert(0, REPO)
import mistletoe
from mistletoe import Document
from mistletoe.html_renderer import HtmlRenderer
docs = ['| a | b | c |\n|---|:-:|--:|\n| d |\n| e | f | g | h |\n', '| a |\n|---|\n', '- a\n\n  b\n- c\n', '> q\n> - x\n',
        '1. a\n   ```\n   x\n   ```\n', '# h *e* `c` [l](u) ![i](s) <a@b.c> \\* <b>\n', 'a\n===\n\n[x]: /u "t"\n\n[x] ~~s~~ **b**\n',
        '    code\n\n<div>\nhtml\n</div>\n\n***\n', '- | a | b |\n  |---|---|\n  | c |\n']
try:
    spec = json.load(open(REPO + '/test/specification/commonmark.json'))
    docs += [e['markdown'] for e in spec]
except Exception:
    pass
bad = None
with HtmlRenderer():
    for src in docs:
        try:
            d = Document(src)
        except Exception:
            continue
        todo = [d]
        while todo and bad is None:
            t = todo.pop()
            for c in (t.children or []):
                if c.parent is not t:
                    bad = {'input': src, 'child': type(c).__name__, 'lister': type(t).__name__, 'parent': repr(c.parent)[:60]}
                    break
                todo.append(c)
            h = getattr(t, 'header', None)
            if h is not None and bad is None:
                todo.append(h)
        if bad:
            break
print(json.dumps({'bad': bad, 'docs': len(docs)}))
"""


def child_frame_lemma(repo):
    """C12 frame: a token's child list is written only through the `children` setter (which stamps
    `parent`, contract Token.children@2): no in-place mutation of `.children`, no write to
    `._children` or `.parent` anywhere else in the package."""
    t0 = time.time()
    sites = []
    root = os.path.join(repo, 'mistletoe')
    for dp, dn, fns in os.walk(root):
        for fname in sorted(fns):
            if not fname.endswith('.py'):
                continue
            rel = os.path.relpath(os.path.join(dp, fname), repo)
            try:
                tree = _module_tree(repo, rel)
            except (OSError, SyntaxError):
                continue
            funcs = []
            for n in ast.walk(tree):
                if isinstance(n, (ast.FunctionDef, ast.AsyncFunctionDef)):
                    funcs.append(n)
            for fn in funcs:
                if (rel, fn.name) in CHILD_FRAME_EXEMPT:
                    continue
                for n in ast.walk(fn):
                    hit = None
                    if isinstance(n, ast.Call) and isinstance(n.func, ast.Attribute) and n.func.attr in CHILD_MUTATORS \
                            and isinstance(n.func.value, ast.Attribute) and n.func.value.attr in ('children', '_children'):
                        hit = ast.unparse(n)
                    elif isinstance(n, (ast.Assign, ast.AugAssign, ast.Delete)):
                        tg = n.targets if isinstance(n, (ast.Assign, ast.Delete)) else [n.target]
                        for t in tg:
                            if isinstance(t, ast.Subscript) and isinstance(t.value, ast.Attribute) and t.value.attr in ('children', '_children'):
                                hit = ast.unparse(n)
                            elif isinstance(t, ast.Attribute) and t.attr in ('_children', 'parent') :
                                hit = ast.unparse(n)
                            elif isinstance(n, ast.AugAssign) and isinstance(t, ast.Attribute) and t.attr == 'children':
                                hit = ast.unparse(n)
                    if hit:
                        sites.append('%s:%d %s: %s' % (rel, n.lineno, fn.name, hit[:80]))
    ms = (time.time() - t0) * 1000
    props = ['C12']
    text = ('every write to a token child list goes through the children setter: no .children.append/extend/insert/..., '
            'no item assignment, no write to ._children or .parent outside mistletoe/token.py (exempt: %s)'
            % sorted('%s:%s' % k for k in CHILD_FRAME_EXEMPT))
    if not sites:
        return {'results': [mk('frame:children-written-through-setter', 'proved', ms, props, fn='mistletoe/*', text=text)], 'sha': {}}
    p = subprocess.run(['/venv/bin/python', '-c', PARENT_PROBE.replace('REPO', repr(repo))], capture_output=True, text=True)
    native = {'reproduced': False, 'reason': 'probe failed: ' + p.stderr[-200:]}
    if p.returncode == 0:
        d = json.loads(p.stdout)
        native = {'reproduced': d['bad'] is not None, 'api_input': (d['bad'] or {}).get('input'), 'observed': d['bad'],
                  'documents_probed': d['docs']}
    verdict = 'refuted' if native.get('reproduced') else 'undecided'
    r = mk('frame:children-written-through-setter', verdict, ms, props, fn='mistletoe/*', text=text,
           model={'sites': sites}, native=native if verdict == 'refuted' else None,
           detail=None if verdict == 'refuted' else 'CHILD-LIST-MUTATION %s: parent links of the added children are not covered by the setter contract '
                                                     '(no document of the probe set shows a wrong parent)' % sites)
    return {'results': [r], 'sha': {}}


def phase_lemma(repo):
    """C07: no function of the block phase constructs a token class whose constructor runs the
    inline phase (span_token.tokenize_inner)."""
    tree = _module_tree(repo, 'mistletoe/block_token.py')
    classes = {n.name: n for n in tree.body if isinstance(n, ast.ClassDef)}
    inline_ctor = set()
    for name, c in classes.items():
        for f in c.body:
            if isinstance(f, ast.FunctionDef) and f.name in ('__init__', '__new__'):
                if 'tokenize_inner' in ast.unparse(f):
                    inline_ctor.add(name)
    # subclasses without their own __init__ inherit it
    changed = True
    while changed:
        changed = False
        for name, c in classes.items():
            bases = [ast.unparse(b).split('.')[-1] for b in c.bases]
            has_init = any(isinstance(f, ast.FunctionDef) and f.name == '__init__' for f in c.body)
            if name not in inline_ctor and not has_init and any(b in inline_ctor for b in bases):
                inline_ctor.add(name)
                changed = True
    bad = []
    for name, c in classes.items():
        for f in c.body:
            if isinstance(f, ast.FunctionDef) and f.name not in ('__init__', '__new__'):
                for n in ast.walk(f):
                    if isinstance(n, ast.Call):
                        callee = ast.unparse(n.func).split('.')[-1]
                        if callee in inline_ctor or 'tokenize_inner' in ast.unparse(n.func):
                            bad.append('%s.%s line %d constructs %s' % (name, f.name, n.lineno, callee))
    native = None
    if bad:
        p = subprocess.run(['/venv/bin/python', '-c',
                            'import sys; sys.path.insert(0, %r); import mistletoe; print(mistletoe.markdown("[foo]\\n===\\n\\n[foo]: /url\\n"))' % repo],
                           capture_output=True, text=True)
        native = {'reproduced': '<a href' not in p.stdout, 'api_input': '[foo]\n===\n\n[foo]: /url\n', 'output': p.stdout}
    return {'results': [mk('phase:block-phase-constructs-inline-token', 'proved' if not bad else 'refuted', 0, ['C07'],
                           fn='mistletoe.block_token',
                           text='no start/read/check_interrupts_paragraph method constructs a token whose constructor parses inline content '
                                '(inline-parsing constructors: %s)' % sorted(inline_ctor),
                           model=None if not bad else {'sites': bad}, native=native)], 'sha': {}}


NO_REBREAK = ('render_block_code', 'render_fenced_code_block', 'render_html_block', 'render_table',
              'render_thematic_break', 'render_heading', 'table_row_to_text', 'table_row_to_line',
              'table_separator_line_to_text', 'calculate_table_column_widths')


def no_rebreak_lemma(repo):
    """C10 frame: code blocks, HTML blocks, tables and ATX headings are not re-broken - the methods that
    write them never read the line-length budget (their `max_line_length` parameter, the renderer-wide
    setting) and never call the line-filling functions with a limit."""
    res = []
    try:
        tree = _module_tree(repo, 'mistletoe/markdown_renderer.py')
    except OSError as e:
        return {'results': [mk('frame:no-rebreak', 'undecided', 0, ['C10'], detail=str(e), kind='resolve')]}
    found = {}
    for n in ast.walk(tree):
        if isinstance(n, ast.ClassDef) and n.name == 'MarkdownRenderer':
            for f in n.body:
                if isinstance(f, ast.FunctionDef) and f.name in NO_REBREAK:
                    found[f.name] = f
    for name in NO_REBREAK:
        f = found.get(name)
        if f is None:
            res.append(mk('frame:no-rebreak:%s' % name, 'undecided', 0, ['C10'], fn='MarkdownRenderer.' + name,
                          detail='method not found', kind='resolve'))
            continue
        bad = []
        for n in ast.walk(f):
            if isinstance(n, ast.Name) and n.id == 'max_line_length' and isinstance(n.ctx, ast.Load):
                bad.append('reads max_line_length at line %d' % n.lineno)
            if isinstance(n, ast.Attribute) and n.attr == 'max_line_length':
                bad.append('reads .max_line_length at line %d' % n.lineno)
            if isinstance(n, ast.Call) and isinstance(n.func, ast.Attribute) and n.func.attr in (
                    'fragments_to_lines', 'span_to_lines', 'blocks_to_lines', 'make_words'):
                lim = [k.value for k in n.keywords if k.arg == 'max_line_length'] + list(n.args[1:2])
                if not (lim and isinstance(lim[0], ast.Constant) and lim[0].value is None):
                    bad.append('calls %s with a limit at line %d' % (n.func.attr, n.lineno))
        res.append(mk('frame:no-rebreak:%s' % name, 'proved' if not bad else 'refuted', 0, ['C10'], fn='MarkdownRenderer.' + name,
                      text='the method neither reads a line-length budget nor lays text out under a limit',
                      model=None if not bad else {'sites': bad},
                      native=None if not bad else {'reproduced': True, 'sites': bad}))
    return {'results': res, 'sha': {}}


def cli_passthrough_lemma(repo):
    """C15 frame: the command-line tool and mistletoe.markdown() hand their input on untouched - the open
    text file (UTF-8, universal newlines) goes to markdown() as it is, markdown() passes its iterable to
    Document as it is, and the output of each file is written as the encoded rendering, nothing else."""
    res = []
    try:
        cli = _module_tree(repo, 'mistletoe/cli.py')
        init = _module_tree(repo, 'mistletoe/__init__.py')
    except OSError as e:
        return {'results': [mk('frame:cli-passthrough', 'undecided', 0, ['C15'], detail=str(e), kind='resolve')]}
    f = [n for n in cli.body if isinstance(n, ast.FunctionDef) and n.name == 'convert_file']
    ok, why = False, 'convert_file not found'
    if f:
        withs = [n for n in ast.walk(f[0]) if isinstance(n, ast.With)]
        why = 'convert_file no longer has the recognised form'
        if len(withs) == 1 and len(withs[0].items) == 1:
            it = withs[0].items[0]
            opened = ast.unparse(it.context_expr).replace('"', "'")
            var = it.optional_vars.id if isinstance(it.optional_vars, ast.Name) else None
            body = [ast.unparse(x) for x in withs[0].body]
            ok = (opened == "open(filename, 'r', encoding='utf-8')" and var is not None
                  and body == ['rendered = mistletoe.markdown(%s, renderer)' % var, 'sys.stdout.buffer.write(rendered.encode())'])
    res.append(mk('frame:cli-passthrough:convert_file', 'proved' if ok else 'undecided', 0, ['C15'], fn='cli.convert_file',
                  text='convert_file opens the file as UTF-8 text and hands the file object itself to mistletoe.markdown; '
                       'it writes exactly the encoded rendering', detail=None if ok else why))
    g = [n for n in init.body if isinstance(n, ast.FunctionDef) and n.name == 'markdown']
    ok2 = False
    if g:
        body = [x for x in g[0].body if not (isinstance(x, ast.Expr) and isinstance(x.value, ast.Constant))]
        ok2 = (len(body) == 1 and isinstance(body[0], ast.With)
               and [ast.unparse(x) for x in body[0].body] == ['return renderer.render(Document(iterable))']
               and g[0].args.args[0].arg == 'iterable')
    res.append(mk('frame:cli-passthrough:markdown', 'proved' if ok2 else 'undecided', 0, ['C15'], fn='mistletoe.markdown',
                  text='markdown(iterable, renderer) renders Document(iterable) inside the renderer context and returns it',
                  detail=None if ok2 else 'markdown() no longer has the recognised form'))
    return {'results': res, 'sha': {}}


NORM_PROBE = r'''
import sys, json, unicodedata
sys.path.insert(0, REPO)
from mistletoe.core_tokens import normalize_label
bad = []
n = 0
SPEC_WS = [chr(c) for c in range(sys.maxunicode + 1) if unicodedata.category(chr(c)) == 'Zs'] + ['\t', '\n', '\x0c', '\r']
for cp in range(sys.maxunicode + 1):
    c = chr(cp)
    if 0xD800 <= cp <= 0xDFFF or c.isspace():
        continue
    n += 1
    got = normalize_label('x' + c + 'Y')
    exp = 'x' + c.casefold() + 'y'
    if got != exp and len(bad) < 6:
        bad.append(['casefold', cp, got, exp])
for w in SPEC_WS:
    for t, exp in ((w + 'a' + w + w + 'B' + w, 'a b'), ('a' + w + 'b', 'a b'), (w, '')):
        n += 1
        got = normalize_label(t)
        if got != exp and len(bad) < 12:
            bad.append(['whitespace', ord(w), got, exp])
print(json.dumps({'n': n, 'bad': bad}))
'''


def normalize_label_lemma(repo):
    """C07: label matching is by Unicode case fold and whitespace collapse - normalize_label, run on the
    real function for EVERY code point (finite domain: case folding is a per-character map) and for every
    whitespace character of the specification (Zs, tab, LF, FF, CR) in leading, inner and trailing position."""
    t0 = time.time()
    p = subprocess.run(['/venv/bin/python', '-c', NORM_PROBE.replace('REPO', repr(repo))], capture_output=True, text=True)
    ms = (time.time() - t0) * 1000
    if p.returncode != 0:
        return {'results': [mk('table:normalize_label', 'undecided', ms, ['C07', 'C02'], detail='probe failed: ' + p.stderr[-300:],
                               fn='mistletoe.core_tokens.normalize_label', kind='resolve')], 'sha': {}}
    d = json.loads(p.stdout)
    ok = not d['bad']
    w = d['bad'][0] if d['bad'] else None
    return {'results': [mk('table:normalize_label == casefold + whitespace collapse', 'proved' if ok else 'refuted', ms, ['C07', 'C02'],
                           fn='mistletoe.core_tokens.normalize_label',
                           text='for every code point c: normalize_label("x" + c + "Y") == "x" + casefold(c) + "y"; every '
                                'specification whitespace character is stripped at the ends and collapsed to one space inside '
                                '(%d cases on the real function)' % d['n'],
                           model=None if ok else {'kind': w[0], 'code_point': hex(w[1]), 'got': w[2], 'expected': w[3], 'more': d['bad'][1:4]},
                           native=None if ok else {'reproduced': True, 'input': 'x' + chr(w[1]) + 'Y' if w[0] == 'casefold' else chr(w[1]),
                                                   'observed': w[2], 'expected': w[3]})],
            'sha': {}, 'assumptions': ['str.casefold of the interpreter is the Unicode case folding the specification names']}


def mutable_class_attr_lemma(repo):
    """C11 / C14 / C08 frame: renderer and token state that changes while rendering lives on instances or
    in the listed process globals - no class of the package holds a mutable container (list, dict, set) as
    a class attribute, where it would be shared by every instance and survive an exception or a context
    exit (a push that is never popped would then change the output of every later document)."""
    import glob as _glob
    res = []
    for path in sorted(_glob.glob(os.path.join(repo, 'mistletoe', '*.py')) + _glob.glob(os.path.join(repo, 'mistletoe', 'contrib', '*.py'))):
        rel = os.path.relpath(path, repo)
        try:
            tree = ast.parse(open(path).read())
        except (OSError, SyntaxError) as e:
            res.append(mk('state:no-mutable-class-attribute:%s' % rel, 'undecided', 0, ['C11', 'C14', 'C08'], detail=str(e), kind='resolve'))
            continue
        bad = []
        for n in ast.walk(tree):
            if not isinstance(n, ast.ClassDef):
                continue
            for a in n.body:
                if isinstance(a, (ast.Assign, ast.AnnAssign)) and a.value is not None:
                    v = a.value
                    if isinstance(v, (ast.List, ast.Dict, ast.Set, ast.ListComp, ast.DictComp, ast.SetComp)) or (
                            isinstance(v, ast.Call) and ast.unparse(v.func) in ('list', 'dict', 'set', 'defaultdict',
                                                                                  'collections.defaultdict', 'OrderedDict', 'deque')):
                        bad.append('%s.%s (line %d)' % (n.name, ast.unparse(a.targets[0] if isinstance(a, ast.Assign) else a.target), a.lineno))
        if bad or rel.endswith(('html_renderer.py', 'base_renderer.py', 'block_token.py', 'span_token.py', 'markdown_renderer.py',
                                'latex_renderer.py')) or 'contrib' in rel:
            res.append(mk('state:no-mutable-class-attribute:%s' % rel, 'proved' if not bad else 'refuted', 0, ['C11', 'C14', 'C08'], fn=rel,
                          text='no class body of this module assigns a list / dict / set to a class attribute',
                          model=None if not bad else {'attributes': bad},
                          native=None if not bad else {'reproduced': True, 'attributes': bad,
                                                       'why': 'a class-level container is one object shared by all instances of the process'}))
    return {'results': res, 'sha': {}}


LEMMAS = {
    'state:class-attributes': (mutable_class_attr_lemma, ['C11', 'C14', 'C08']),
    'table:normalize_label': (normalize_label_lemma, ['C07', 'C02']),
    'frame:cli-passthrough': (cli_passthrough_lemma, ['C15']),
    'frame:no-rebreak': (no_rebreak_lemma, ['C10']),
    'classes:structure': (class_lemmas, ['C18', 'C01', 'C11', 'C16']),
    'state:globals': (state_lemmas, ['C11', 'C16']),
    'state:decorators': (decorator_lemma, ['C11']),
    'tables:core_tokens': (table_lemmas, ['C06', 'C02', 'C14']),
    'frame:children': (child_frame_lemma, ['C12']),
    'phase:separation': (phase_lemma, ['C07']),
}
