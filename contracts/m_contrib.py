"""Sidecar contracts for the Jira and XWiki renderers (C01: renderers cope with empty containers;
the context stacks they keep while descending are balanced, so no pop or [-1] read can fail)."""
from pyvc.types import *  # noqa
from pyvc.model import Contract, Loop

JMOD = 'mistletoe.contrib.jira_renderer'
XMOD = 'mistletoe.contrib.xwiki20_renderer'


def build(m):
    TOK = TRef('RTok')
    TOKL = TList(TOK)
    # a token as the renderers see it: a child list, and the attributes they branch on
    m.classes['RTok'] = {'children': TOKL, 'start': TOpt(INT), 'header': TOK, '__has_header': BOOL,
                         'soft': BOOL, 'content': STR}
    m.optional_fields |= {('RTok', 'header')}
    for mod, cls, stacks in [(JMOD, 'JiraR', ['listTokens', 'lastChildOfQuotes']),
                             (XMOD, 'XWikiR', ['listTokens', 'lastChildOfQuotes', 'firstChildOfListItems'])]:
        ns = m.namespaces.setdefault(mod, {})
        ns['block_token'] = ('module', 'mistletoe.block_token')
        R = TRef(cls)
        m.classes[cls] = {'listTokens': TList(STR), 'lastChildOfQuotes': TList(TOpt(TOK)),
                          'firstChildOfListItems': TList(TOpt(TOK))}
        pyc = 'JiraRenderer' if cls == 'JiraR' else 'XWiki20Renderer'
        # 'restores': the engine proves that every stack holds its entry value again at every exit
        # (length and elements) and callers then see no change
        KEEP = []
        RS = {'restores': True}
        MOD = ['self.%s' % s for s in stacks]

        def method(name, c, _cls=cls):
            m.methods[(_cls, name)] = c.key
            m.add(c)
            return c
        # dynamic dispatch render(child): any of the render_* methods.  Induction hypothesis of the
        # stack-discipline argument (tree depth): rendering a child returns a string and leaves the
        # context stacks as they were; every render_* method below is proved to do so given this.
        method('render', Contract('protocol:%s.render' % pyc, [('self', R), ('token', TOK)], returns=STR, trusted=True,
                                  pure=True,
                                  note='dynamic dispatch to a render_* method: returns a string, context stacks balanced '
                                       '(induction hypothesis over the token tree; each container method is proved to keep it)'))
        method('_block_eol', Contract('%s:%s._block_eol' % (mod, pyc), [('self', R), ('token', TOK)], returns=STR, pure=True,
                                      ensures=["result == '\\n' or result == '\\n\\n'"], prop=['C01']))
        method('render_inner', Contract('%s:%s.render_inner' % (mod, pyc), [('self', R), ('token', TOK)], returns=STR,
                                        ensures=KEEP, modifies=MOD, prop=['C01'], options=dict(RS),
                                        # the look-ahead loop of the XWiki renderer touches none of the stacks
                                        loops={0: Loop(invariant=['same(self.%s, at_loop(0, self.%s))' % (s_, s_) for s_ in stacks])}))
        method('render_quote', Contract('%s:%s.render_quote' % (mod, pyc), [('self', R), ('token', TOK)], returns=STR,
                                        ensures=KEEP, modifies=MOD, prop=['C01'], options=dict(RS)))
        method('render_list_item', Contract('%s:%s.render_list_item' % (mod, pyc), [('self', R), ('token', TOK)], returns=STR,
                                            ensures=KEEP, modifies=MOD, prop=['C01'], options=dict(RS)))
        method('render_table_cell', Contract('%s:%s.render_table_cell' % (mod, pyc),
                                             [('self', R), ('token', TOK), ('in_header', BOOL, mk_bool(False))], returns=STR,
                                             ensures=KEEP, modifies=MOD, prop=['C01'], options=dict(RS)))
        method('render_table_row', Contract('%s:%s.render_table_row' % (mod, pyc),
                                            [('self', R), ('token', TOK), ('is_header', BOOL, mk_bool(False))], returns=STR,
                                            ensures=KEEP, modifies=MOD, prop=['C01'], options=dict(RS)))
        method('render_table', Contract('%s:%s.render_table' % (mod, pyc), [('self', R), ('token', TOK)], returns=STR,
                                        ensures=KEEP, modifies=MOD, prop=['C01'], options=dict(RS)))


def build2(m):
    """HtmlRenderer.render_list (C02 / C03 / C12): <ol> exactly for ordered lists - also one that starts
    at 0 -, the start attribute exactly when the start number is not 1, the tight/loose flag pushed for
    the items is `not token.loose`, and the suppress stack is balanced."""
    HMOD = 'mistletoe.html_renderer'
    m.namespaces.setdefault(HMOD, {})
    TOK = TRef('HListTok')
    m.classes['HListTok'] = {'children': TList(TRef('RTok')), 'start': TOpt(INT), 'loose': BOOL}
    R = TRef('HtmlR')
    m.classes['HtmlR'] = {'_suppress_ptag_stack': TList(BOOL)}
    m.methods[('HtmlR', 'render')] = 'protocol:HtmlRenderer.render'
    m.add(Contract('protocol:HtmlRenderer.render', [('self', R), ('token', TRef('RTok'))], returns=STR, trusted=True, pure=True,
                   note='dynamic dispatch to a render_* method: returns a string, suppress stack balanced (induction '
                        'hypothesis over the token tree; render_list / render_quote are the methods that push and pop)'))
    m.add(Contract(HMOD + ':HtmlRenderer.render_list', [('self', R), ('token', TOK)], returns=STR,
                   ensures=[("result.startswith('<ol') == (not is_none(token.start))", ['C02', 'C03', 'C12']),
                            ("implies(is_none(token.start), result.startswith('<ul>\\n'))", ['C02', 'C03']),
                            ("implies(not is_none(token.start) and some(token.start) == 1, result.startswith('<ol>\\n'))", ['C02', 'C03']),
                            ("implies(not is_none(token.start) and some(token.start) != 1, result.startswith('<ol start=\"'))", ['C02', 'C03']),
                            ("result.endswith('</ol>') or result.endswith('</ul>')", 'C08')],
                   # C03: the items of a tight list suppress their <p> tags: the flag pushed is `not loose`
                   ghost_after={'self._suppress_ptag_stack.append(not token.loose)': [
                       ('__assert__', ('self._suppress_ptag_stack[len(self._suppress_ptag_stack) - 1] == (not token.loose)', ['C03', 'C02']))]},
                   modifies=['self._suppress_ptag_stack'], options={'restores': True}, prop=['C02', 'C03', 'C08']))


def build3(m):
    """HtmlRenderer.render_quote: paragraphs inside a block quote keep their <p> tags even inside a
    tight list (the flag pushed is False) and the suppress stack is balanced (C03, C08)."""
    HMOD = 'mistletoe.html_renderer'
    R = TRef('HtmlR')
    QT = TRef('HQuoteTok')
    m.classes['HQuoteTok'] = {'children': TList(TRef('RTok'))}
    m.add(Contract(HMOD + ':HtmlRenderer.render_quote', [('self', R), ('token', QT)], returns=STR,
                   ghost_after={'self._suppress_ptag_stack.append(False)': [
                       ('__assert__', ('not self._suppress_ptag_stack[len(self._suppress_ptag_stack) - 1]', ['C03', 'C02']))]},
                   body_types={'elements': TList(STR)},
                   modifies=['self._suppress_ptag_stack'], options={'restores': True, 'concat_axioms': True}, prop=['C03', 'C08']))


def build4(m):
    """MathJaxRenderer.render_document (C18): exactly the HTML renderer's document followed by the
    script line - for every document, the empty one included."""
    MMOD = 'mistletoe.contrib.mathjax'
    m.namespaces.setdefault(MMOD, {})
    DOC = TRef('DocTok')
    m.classes.setdefault('DocTok', {})
    MJ = TRef('MathJaxRenderer')
    m.classes['MathJaxRenderer'] = {}
    m.classes.setdefault('HtmlRendererBase', {})
    m.subclass_of['MathJaxRenderer'] = 'HtmlRendererBase'
    m.ufunc('html_render_document', [DOC], STR)
    m.methods[('HtmlRendererBase', 'render_document')] = 'mistletoe.html_renderer:HtmlRenderer.render_document#mathjax'
    m.add(Contract('mistletoe.html_renderer:HtmlRenderer.render_document#mathjax', [('self', TRef('HtmlRendererBase')), ('token', DOC)],
                   returns=STR, trusted=True, pure=True, ensures=['result == html_render_document(token)'],
                   note='the inherited HTML rendering of the document as an uninterpreted function of the token '
                        '(super() resolves to HtmlRenderer: lemma mro:MathJaxRenderer-html-first)'))
    # the script line is read from the class body of the tree under verification (never copied here)
    import ast as _ast
    import os as _os
    SRC = None
    try:
        _tree = _ast.parse(open(_os.path.join(_os.environ.get('PYVC_REPO') or _os.environ.get('VERIF_REPO', '/repo'),
                                              'mistletoe', 'contrib', 'mathjax.py')).read())
        for _n in _ast.walk(_tree):
            if isinstance(_n, _ast.ClassDef) and _n.name == 'MathJaxRenderer':
                for _a in _n.body:
                    if isinstance(_a, _ast.Assign) and _ast.unparse(_a.targets[0]) == 'mathjax_src' \
                            and isinstance(_a.value, _ast.Constant) and isinstance(_a.value.value, str):
                        SRC = _a.value.value
    except OSError:
        SRC = None
    if SRC is None:
        return        # no literal script line: render_document stays without a contract (undecided, never passed)
    m.class_attrs[('MathJaxRenderer', 'mathjax_src')] = ('const', mk_str(SRC))
    one_line = SRC.startswith('<script ') and SRC.endswith('</script>\n') and SRC.count('\n') == 1 and SRC.count('<script') == 1
    m.add(Contract(MMOD + ':MathJaxRenderer.render_document', [('self', MJ), ('token', DOC)], returns=STR,
                   ensures=[('result == html_render_document(token) + %r' % SRC, 'C18'),
                            # ... and what is appended is one script line (decided on the literal of this tree)
                            ('True' if one_line else 'False', 'C18')],
                   prop=['C18']))


def build5(m):
    """HtmlRenderer.render_table_cell (C03 alignment, C01 no unbound local, C08 tag choice): a cell's
    alignment value - None, 0 or 1 by Table.parse_align - becomes left / center / right."""
    HMOD = 'mistletoe.html_renderer'
    R = TRef('HtmlR')
    CT = TRef('HCellTok')
    m.classes['HCellTok'] = {'align': TOpt(INT), 'children': TList(TRef('RTok'))}
    m.methods[('HtmlR', 'render_inner')] = 'protocol:HtmlRenderer.render_inner'
    m.add(Contract('protocol:HtmlRenderer.render_inner', [('self', R), ('token', CT)], returns=STR, trusted=True, pure=True,
                   note='the rendering of the children (dispatch through render_map), a string'))
    m.add(Contract(HMOD + ':HtmlRenderer.render_table_cell', [('self', R), ('token', CT), ('in_header', BOOL, mk_bool(False))],
                   returns=STR,
                   # the range Table.parse_align is proved to return (Table.parse_align:post:0)
                   requires=['is_none(token.align) or some(token.align) == 0 or some(token.align) == 1'],
                   ensures=[("result.startswith('<th align=\"' if in_header else '<td align=\"')", ['C03', 'C08']),
                            ("implies(is_none(token.align), result.startswith('<th align=\"left\">' if in_header else '<td align=\"left\">'))", 'C03'),
                            ("implies(not is_none(token.align) and some(token.align) == 0, "
                             "result.startswith('<th align=\"center\">' if in_header else '<td align=\"center\">'))", 'C03'),
                            ("implies(not is_none(token.align) and some(token.align) == 1, "
                             "result.startswith('<th align=\"right\">' if in_header else '<td align=\"right\">'))", 'C03'),
                            ("result.endswith('</th>\\n' if in_header else '</td>\\n')", ['C03', 'C08'])],
                   prop=['C03', 'C01']))
