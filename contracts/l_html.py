"""C08 lemmas: escapers as character homomorphisms, sink typing of every HTML render template,
tag-skeleton balance, suppress-stack frame.  All read from the working tree with ast."""
import ast
import hashlib
import re
import time
from pyvc.engine import Engine
from pyvc import sinks
from pyvc.sinks import Unsupported, TemplateInterp, PathState, lit, hole, flatten

VOCAB = {'p', 'h1', 'h2', 'h3', 'h4', 'h5', 'h6', 'blockquote', 'pre', 'code', 'ul', 'ol', 'li', 'table',
         'thead', 'tbody', 'tr', 'th', 'td', 'em', 'strong', 'del', 'a', 'img', 'hr', 'br'}
VOID = {'img', 'hr', 'br'}
ATTRS = {'href', 'title', 'src', 'alt', 'class', 'start', 'align'}
REFS = ('&amp;', '&lt;', '&gt;', '&quot;', '&#x27;')

# language types of holes:
#   TEXT   no raw < >, every & starts one of REFS (may contain quotes)
#   ATTR   TEXT without " and '            WF  well-formed output of a child render (induction hypothesis)
#   DIGITS decimal digits                  H16 a heading level 1..6
#   RAW    verbatim raw HTML (only render_html_block / render_html_span may emit it)
#   ANY    arbitrary document text
TEXT_OK = {'TEXT', 'ATTR', 'WF', 'DIGITS', 'H16'}
ATTR_OK = {'ATTR', 'DIGITS', 'H16'}
RAW_ALLOWED = {'render_html_block', 'render_html_span'}


PathInfeasible = sinks.Infeasible


def html_typer(cls_name, extra=None):
    extra = extra or {}

    def typer(node, st):
        src = ast.unparse(node)
        if isinstance(node, ast.Call):
            f = ast.unparse(node.func)
            if f in ('self.render_inner', 'self.render', 'self.render_table_row', 'self.render_table_cell',
                     'super().render_heading', 'super().render_document'):
                return ('str', [hole('WF', src)])
            if f == 'self.escape_html_text' or f == 'self.render_raw_text':
                return ('str', [hole('TEXT', src)])
            if f in ('html.escape', 'self.escape_url', 'self.render_to_plain'):
                if f == 'html.escape' and (len(node.args) != 1 or node.keywords):
                    return ('str', [hole('TEXT', src)])     # quote=False would not protect attributes
                return ('str', [hole('ATTR', src)])
            if f.endswith('.strip') and isinstance(node.func, ast.Attribute):
                base = typer(node.func.value, st) if isinstance(node.func.value, ast.Call) else None
                if base and base[0] == 'str' and len(base[1]) == 1 and base[1][0][0] == 'hole' \
                        and base[1][0][1] == 'TEXT' and len(node.args) == 1 \
                        and isinstance(node.args[0], ast.Constant) and not set(node.args[0].value) & set('&#;xampltgquo27'):
                    return ('str', [hole('TEXT', src)])
            if f == 'hasattr':
                return ('const', None)
            if f.startswith('self.render_') and isinstance(node.func, ast.Attribute):
                # any other render method returns markup of its own (lemma D(ii)): safe between
                # tags, never inside an attribute value
                return ('str', [hole('WF', src)])
            return None
        if isinstance(node, ast.Attribute):
            if src == 'token.level':
                return ('str', [hole('H16', src)])
            if src == 'token.start':
                return ('str', [hole('DIGITS', src)])
            if src.startswith('token.') or src.startswith('child.'):
                return ('str', [hole('ANY', src)])
            if src == 'self.mathjax_src':
                return ('str', [hole('WF', src)])
            return None
        if isinstance(node, ast.Name):
            if node.id == 'align':
                facts = dict(st.env.get('__facts__', ()))
                if facts.get('token.align is None') is False and facts.get('token.align == 0') is False \
                        and facts.get('token.align == 1') is False:
                    raise PathInfeasible('TableCell.align in {None, 0, 1} (Table.parse_align, C12)')
            return None
        if isinstance(node, ast.Subscript):
            return None
        return None
    return typer


def stack_effects(node, st):
    """Recognise the tight-list <p> suppression stack and other allowed side effects."""
    if isinstance(node, ast.Call):
        s = ast.unparse(node)
        if s.startswith('self._suppress_ptag_stack.append('):
            st.effects.append('push')
            return True
        if s == 'self._suppress_ptag_stack.pop()':
            st.effects.append('pop')
            return True
        if s == 'self.footnotes.update(token.footnotes)':
            return True
        if s.startswith('elements.extend(') or s.startswith('elements.append('):
            cur = st.env.get('elements')
            arg = node.args[0]
            interp = TemplateInterp(st.env['__typer__'], effect_hook=stack_effects)
            v = interp.ev(arg, st)
            if cur is None or cur[0] != 'strseq':
                raise Unsupported('elements list', node)
            if v[0] == 'str':
                st.env['elements'] = ('strseq', cur[1] + [v[1]])
            elif v[0] == 'strlist':
                # a repeated group joined later with the same separator: keep as rep with '\n'
                st.env['elements'] = ('strseq', cur[1] + [[('rep', v[1], '\n')]])
            else:
                raise Unsupported('elements.extend argument', node)
            return True
        if s.startswith('self._headings.append('):
            return True
    return False


class Violation:
    def __init__(self, kind, detail, src=''):
        self.kind = kind
        self.detail = detail
        self.src = src


def scan_html(segs, method):
    """Check one flattened template (list of lit/hole segments).  Returns list of Violation."""
    out = []
    state = 'TEXT'
    stack = []
    name = ''
    closing = False
    attr_name = ''
    selfclose = False

    def end_tag():
        nonlocal name, closing, selfclose
        tag = name
        if tag not in VOCAB:
            out.append(Violation('skeleton', 'tag <%s> is outside the fixed vocabulary' % tag))
        if closing:
            if not stack or stack[-1] != tag:
                out.append(Violation('skeleton', 'closing </%s> does not match open %s' % (tag, stack[-1:] or None)))
            else:
                stack.pop()
        elif tag in VOID:
            if not selfclose:
                out.append(Violation('skeleton', 'void tag <%s> not written self-closing' % tag))
        elif selfclose:
            out.append(Violation('skeleton', 'non-void tag <%s/> self-closed' % tag))
        else:
            stack.append(tag)
        name = ''
        closing = False
        selfclose = False

    for seg in segs:
        if seg[0] == 'hole':
            t, src = seg[1], seg[2]
            if state == 'TEXT':
                if t in TEXT_OK:
                    pass
                elif t == 'RAW' and method in RAW_ALLOWED:
                    pass
                else:
                    out.append(Violation('text', 'hole of type %s in text position' % t, src))
            elif state == 'ATTRVAL':
                if t not in ATTR_OK:
                    out.append(Violation('attr-value', 'hole of type %s inside a double-quoted attribute value' % t, src))
            elif state == 'TAGNAME':
                if t == 'H16' and name == 'h':
                    name += '1'
                else:
                    out.append(Violation('tag', 'hole of type %s in a tag name' % t, src))
            else:
                out.append(Violation('tag', 'hole of type %s inside a tag' % t, src))
            continue
        text = seg[1]
        i = 0
        while i < len(text):
            c = text[i]
            if state == 'TEXT':
                if c == '<':
                    state = 'TAGNAME'
                    name = ''
                    closing = False
                    if text[i + 1:i + 2] == '/':
                        closing = True
                        i += 1
                elif c == '>':
                    out.append(Violation('text', 'literal > in text position'))
                elif c == '&':
                    if not any(text.startswith(r, i) for r in REFS):
                        out.append(Violation('text', 'literal bare & in text position'))
            elif state == 'TAGNAME':
                if c.isalnum():
                    name += c
                elif c == '>':
                    end_tag()
                    state = 'TEXT'
                elif c in ' \n':
                    state = 'INTAG'
                elif c == '/':
                    selfclose = True
                    state = 'INTAG'
                else:
                    out.append(Violation('skeleton', 'unexpected %r in tag name' % c))
            elif state == 'INTAG':
                if c == '>':
                    end_tag()
                    state = 'TEXT'
                elif c == '/':
                    selfclose = True
                elif c == '=':
                    if attr_name not in ATTRS:
                        out.append(Violation('skeleton', 'attribute %r outside the fixed set' % attr_name))
                    if text[i + 1:i + 2] != '"':
                        out.append(Violation('skeleton', 'attribute value not double-quoted'))
                    else:
                        i += 1
                        state = 'ATTRVAL'
                    attr_name = ''
                elif c in ' \n':
                    attr_name = ''
                else:
                    attr_name += c
            elif state == 'ATTRVAL':
                if c == '"':
                    state = 'INTAG'
                elif c in '<>':
                    out.append(Violation('attr-value', 'literal %r inside an attribute value' % c))
            i += 1
    if state != 'TEXT':
        out.append(Violation('skeleton', 'template ends inside a tag (state %s)' % state))
    if stack:
        out.append(Violation('skeleton', 'unclosed tags %s' % stack))
    return out


# API-level inputs that place a witness string into the sink named by the hole's source expression
API_TEMPLATES = {
    ('render_image', 'token.src'): ('![a](x"onerror="alert(1))', 'x"onerror="alert(1)"'),
    ('render_auto_link', 'token.target'): ('<ab:@"onmouseover="alert(1)>', '"onmouseover="alert(1)"'),
    ('render_block_code', 'token.language'): ('```a"b\nx\n```', 'language-a"b'),
    ('render_link', 'token.target'): ('[a](x"y)', 'href="x"y"'),
    ('render_link', 'token.title'): ('[a](x \'t"u\')', 'title="t"u"'),
}


# (document, text that must survive in the output)
BRACE_INPUTS = [('```{r}\nx\n```\n', 'language-{r}'), ('~~~ {.py}\nx\n~~~\n', 'language-{.py}'), ('[a](/u "{x}")\n', 'title="{x}"'),
                ('![a](/u "{0}")\n', 'title="{0}"'), ('[a]({x})\n', '>a</a>'), ('<http://a/{x}>\n', '</a>'), ('# {x}\n', '{x}'),
                ('`{x}`\n', '{x}'), ('{x}\n', '{x}'), ('[*a*](/u "{inner}")\n', 'title="{inner}"'), ('| {x} |\n|---|\n', '{x}')]


def format_replay(repo, renderer='mistletoe.HtmlRenderer'):
    """Native search for an input on which a format template that holds document text fails: documents with
    braces in every attribute / text position, rendered by the real renderer of the tree."""
    import subprocess
    import json
    code = ('import sys, json; sys.path.insert(0, %r); import mistletoe, importlib\n'
            'mod, cls = %r.rsplit(".", 1); R = getattr(importlib.import_module(mod), cls)\n'
            'out = None\n'
            'for md, needle in %r:\n'
            '    try:\n'
            '        r = mistletoe.markdown(md, R)\n'
            '        if needle not in r:\n'
            '            out = {"api_input": md, "output": r, "why": "brace text lost or replaced: expected " + needle}; break\n'
            '    except Exception as e:\n'
            '        out = {"api_input": md, "raised": type(e).__name__ + ": " + str(e)}; break\n'
            'print(json.dumps(out))' % (repo, renderer, BRACE_INPUTS))
    p = subprocess.run(['/venv/bin/python', '-c', code], capture_output=True, text=True)
    try:
        out = json.loads(p.stdout)
    except Exception:
        return {'reproduced': False, 'error': p.stderr[-400:]}
    if out is None:
        return {'reproduced': False, 'reason': 'no brace document of the replay list fails'}
    out['reproduced'] = True
    return out


def api_replay(repo, method, src):
    key = (method, src)
    if key not in API_TEMPLATES:
        return {'reproduced': False, 'reason': 'no API input template for sink %s in %s' % (src, method)}
    md, needle = API_TEMPLATES[key]
    import subprocess
    import json
    code = ('import sys, json; sys.path.insert(0, %r); import mistletoe;'
            'print(json.dumps(mistletoe.markdown(%r)))' % (repo, md))
    p = subprocess.run(['/venv/bin/python', '-c', code], capture_output=True, text=True)
    try:
        out = json.loads(p.stdout)
    except Exception:
        return {'reproduced': False, 'error': p.stderr[-400:]}
    return {'reproduced': needle in out, 'api_input': md, 'output': out, 'needle': needle}


def method_defs(engine, module, cls):
    src, tree = engine.module_ast(module)
    for n in tree.body:
        if isinstance(n, ast.ClassDef) and n.name == cls:
            return {f.name: f for f in n.body if isinstance(f, ast.FunctionDef)}, src
    return {}, src


def mk(name, verdict, ms, props, text='', detail=None, model=None, native=None, kind='lemma', fn=''):
    r = {'name': name, 'kind': kind, 'function': fn, 'line': 0, 'verdict': verdict, 'backend': 'pyvc-sinks',
         'ms': ms, 'props': props, 'text': text}
    if detail:
        r['detail'] = detail
    if model is not None:
        r['model'] = model
    if native is not None:
        r['native_replay'] = native
    return r


def text_safe(s):
    """s is in Gen_TEXT*: no raw < >, every & starts one of the five references."""
    if '<' in s or '>' in s:
        return False
    for m in re.finditer('&', s):
        if not any(s.startswith(r, m.start()) for r in REFS):
            return False
    return True


def homomorphism_lemma(repo):
    """escape_html_text: image of every single character lies in Gen_TEXT, for the 4 option combos."""
    eng = Engine(None, repo)
    props = ['C08']
    results = []
    t0 = time.time()
    try:
        fdef, seg = eng.find_def('mistletoe.html_renderer:HtmlRenderer.escape_html_text')
    except KeyError as e:
        return {'results': [mk('homo:escape_html_text:resolve', 'undecided', 0, props, detail=str(e), kind='resolve')]}
    sha = {'mistletoe.html_renderer:HtmlRenderer.escape_html_text': hashlib.sha256(seg.encode()).hexdigest()}
    param = fdef.args.args[1].arg
    for dq in (False, True):
        for sq in (False, True):
            opts = {'self.html_escape_double_quotes': dq, 'self.html_escape_single_quotes': sq}
            name = 'homo:HtmlRenderer.escape_html_text[dq=%d,sq=%d]' % (dq, sq)
            t1 = time.time()
            try:
                chain = []

                def walk(stmts):
                    for st in stmts:
                        if isinstance(st, ast.Expr) and isinstance(st.value, ast.Constant):
                            continue
                        if isinstance(st, ast.Assign) and len(st.targets) == 1 and isinstance(st.targets[0], ast.Name) \
                                and st.targets[0].id == param:
                            base, ch = sinks.replace_chain(st.value)
                            if not (isinstance(base, ast.Name) and base.id == param):
                                raise Unsupported('assignment is not a replace chain on the parameter', st)
                            chain.extend(ch)
                        elif isinstance(st, ast.If) and ast.unparse(st.test) in opts and not st.orelse:
                            if opts[ast.unparse(st.test)]:
                                walk(st.body)
                        elif isinstance(st, ast.Return) and isinstance(st.value, ast.Name) and st.value.id == param:
                            return
                        else:
                            raise Unsupported('statement outside the replace-chain form', st)
                walk(fdef.body)
                cases = sinks.apply_chain_symbolic(chain)
                bad = None
                for kind, a, b in cases:
                    if kind == 'eq' and not text_safe(b):
                        bad = (a, b)
                        break
                    if kind == 'other':
                        for f in '<>&':
                            if f not in a:
                                bad = (f, f)
                                break
                if bad is None:
                    results.append(mk(name, 'proved', (time.time() - t1) * 1000, props, fn='HtmlRenderer.escape_html_text',
                                      text='for every character c the image H(c) of the real replace chain is in Gen_TEXT '
                                           '(cases: %s)' % [(k, sorted(a) if not isinstance(a, str) else a, b) for k, a, b in cases]))
                else:
                    native = native_escape(repo, dq, sq, bad[0])
                    results.append(mk(name, 'refuted' if native['reproduced'] else 'undecided',
                                      (time.time() - t1) * 1000, props, fn='HtmlRenderer.escape_html_text',
                                      text='H(c) in Gen_TEXT for every character c',
                                      model={'witness_char': bad[0], 'image': bad[1]}, native=native))
            except Unsupported as e:
                results.append(mk(name, 'undecided', 0, props, detail='out-of-subset:%s' % e, fn='HtmlRenderer.escape_html_text'))
    return {'results': results, 'sha': sha,
            'assumptions': ['A2: s.replace(c, w) for a one-character c is the character-wise substitution (monoid homomorphism); '
                            'lemma D(i): H(c) in Gen for every c implies H(s) in Gen* (contracts/LEMMAS.md)']}


def native_escape(repo, dq, sq, ch):
    import subprocess
    import json
    code = ('import sys, json; sys.path.insert(0, %r); from mistletoe import HtmlRenderer\n'
            'with HtmlRenderer(html_escape_double_quotes=%r, html_escape_single_quotes=%r) as r:\n'
            '    print(json.dumps(r.escape_html_text(%r)))' % (repo, dq, sq, ch))
    p = subprocess.run(['/venv/bin/python', '-c', code], capture_output=True, text=True)
    try:
        out = json.loads(p.stdout)
    except Exception:
        return {'reproduced': False, 'error': p.stderr[-300:]}
    return {'reproduced': not text_safe(out), 'input': ch, 'output': out}


def sink_lemmas(repo):
    eng = Engine(None, repo)
    props = ['C08']
    results = []
    sha = {}
    targets = [('mistletoe.html_renderer', 'HtmlRenderer', None),
               ('mistletoe.contrib.toc_renderer', 'TocRenderer', ['render_heading']),
               ('mistletoe.contrib.github_wiki', 'GithubWikiRenderer', ['render_github_wiki'])]
    for module, cls, only in targets:
        try:
            defs, src = method_defs(eng, module, cls)
        except OSError as e:
            results.append(mk('sink:%s:resolve' % cls, 'undecided', 0, props, detail=str(e), kind='resolve'))
            continue
        names = [n for n in defs if n.startswith('render_') or n in ('escape_url',)]
        if only:
            names = [n for n in names if n in only]
        if cls == 'HtmlRenderer' and not names:
            results.append(mk('sink:HtmlRenderer:resolve', 'undecided', 0, props, detail='no render methods found', kind='resolve'))
        for mname in sorted(names):
            fdef = defs[mname]
            seg = ast.get_source_segment(src, fdef)
            sha['%s:%s.%s' % (module, cls, mname)] = hashlib.sha256(seg.encode()).hexdigest()
            t1 = time.time()
            base = 'sink:%s.%s' % (cls, mname)
            typer = html_typer(cls)
            if mname in RAW_ALLOWED:
                inner = typer

                def typer(node, st, inner=inner):
                    if isinstance(node, ast.Attribute) and ast.unparse(node) == 'token.content':
                        return ('str', [hole('RAW', 'token.content')])
                    return inner(node, st)
            if mname == 'render_to_plain':
                inner2 = typer

                def typer(node, st, inner2=inner2):
                    if isinstance(node, ast.Name) and node.id == 'inner':
                        return None
                    return inner2(node, st)
            interp = TemplateInterp(typer, effect_hook=stack_effects)
            try:
                viol = []
                npaths = 0
                st0 = PathState()
                st0.env['__typer__'] = typer
                if mname == 'render_quote':
                    pass
                stack_ok = True
                for st, val in run_method(interp, fdef, st0):
                    npaths += 1
                    if val is None or val[0] == 'const' and val[1] is None:
                        viol.append(Violation('skeleton', 'a path returns no string'))
                        continue
                    if val[0] != 'str':
                        raise Unsupported('return value of kind %s' % val[0], fdef)
                    depth = 0
                    for e in st.effects:
                        depth += 1 if e == 'push' else -1
                        if depth < 0:
                            stack_ok = False
                    if depth != 0:
                        stack_ok = False
                    if mname in ('escape_url', 'render_to_plain'):
                        for s in val[1]:
                            items = s[1] if s[0] == 'rep' else [s]
                            for it in items:
                                if it[0] == 'hole' and it[1] not in ATTR_OK:
                                    viol.append(Violation('attr-value', 'result is not of type ATTR (hole %s)' % it[1], it[2]))
                                if it[0] == 'lit' and (set(it[1]) & set('"<>\'')):
                                    viol.append(Violation('attr-value', 'literal %r not attribute-safe' % it[1]))
                        continue
                    for variant in flatten(val[1]):
                        viol.extend(scan_html(variant, mname))
                for htype, hsrc, hline in interp.format_on_holes:
                    if htype != 'CONST':
                        viol.append(Violation('format-template', 'str.format is called on a string that holds document text '
                                              '(hole %s, line %d): braces in it are parsed as format fields' % (htype, hline), hsrc))
                ms = (time.time() - t1) * 1000
                # one obligation per (kind, source) so that findings can be keyed precisely
                groups = {}
                for v in viol:
                    groups.setdefault((v.kind, v.src), v)
                if not groups:
                    results.append(mk(base, 'proved', ms, props, fn='%s.%s' % (cls, mname),
                                      text='%d path(s): every hole sits in a position its type is safe for; '
                                           'the literal skeleton is balanced and within the tag/attribute vocabulary' % npaths))
                else:
                    for (kind, srcx), v in sorted(groups.items()):
                        name = '%s:%s:%s' % (base, kind, srcx or '-')
                        native = api_replay(repo, mname, srcx) if kind != 'format-template' else format_replay(repo)
                        results.append(mk(name, 'refuted', ms, props + (['C01'] if kind == 'format-template' else []), fn='%s.%s' % (cls, mname),
                                          text='sink typing of %s' % mname, model={'violation': v.detail, 'hole': srcx},
                                          native=native))
                if mname in ('render_quote', 'render_list'):
                    results.append(mk('frame:%s.%s:suppress-stack' % (cls, mname), 'proved' if stack_ok else 'refuted',
                                      0, props, fn='%s.%s' % (cls, mname),
                                      text='_suppress_ptag_stack is left as found on every normal path (push/pop paired)',
                                      model=None if stack_ok else {'effects': 'unbalanced push/pop'},
                                      native=None if stack_ok else {'reproduced': False}))
            except Unsupported as e:
                results.append(mk(base, 'undecided', 0, props, detail='out-of-subset:%s' % e, fn='%s.%s' % (cls, mname)))
    return {'results': results, 'sha': sha,
            'assumptions': ['A7: html.escape(s) (quote=True) maps every string into ATTR; urllib.parse.quote is irrelevant to ATTR-ness because html.escape is applied last',
                            'A8: str.format on a literal template fills holes positionally/by name and copies literal text; str.join concatenates with the separator',
                            'lemma D(ii): WF is closed under concatenation and under wrapping in a matched tag pair (contracts/LEMMAS.md)',
                            'C12 ranges: Heading.level in 1..6 (width lemma), List.start a non-negative int, TableCell.align in {None,0,1}']}


def run_method(interp, fdef, st0):
    """Run a render method over all paths (paths contradicting a stated shape invariant are
    dropped inside the interpreter)."""
    yield from interp.run(list(fdef.body), st0)


LEMMAS = {
    'homo:escape_html_text': (homomorphism_lemma, ['C08']),
    'sink:html': (sink_lemmas, ['C08', 'C01']),
}
