"""Sidecar contracts for mistletoe/block_token.py readers (C01, C05, C13, C11 frames)."""
from pyvc.types import *  # noqa
from pyvc.model import Contract, Loop
from .m_block_tokenizer import FW, BLOCKCLS, READRES, PB, TRIPLE

MOD = 'mistletoe.block_token'
TOK = TRef('Token')

CLASSES = ['BlockToken', 'Document', 'Heading', 'SetextHeading', 'Quote', 'Paragraph', 'BlockCode',
           'CodeFence', 'List', 'ListItem', 'Table', 'TableRow', 'TableCell', 'Footnote',
           'ThematicBreak', 'HtmlBlock']

# READER obligations shared by every concrete read(): cursor discipline (C01 progress, C05 no look-behind)
READER_REQ = ['CURSOR_OK(lines)', 'lines._index + 1 < len(lines.lines)']
READER_ENS_SOME = ['CURSOR_OK(lines)', 'not is_none(result)', 'old(lines._index) < lines._index']
READER_ENS = ['CURSOR_OK(lines)',
              'implies(is_none(result), lines._index == old(lines._index))',
              'implies(not is_none(result), old(lines._index) < lines._index)']
P = ['C01', 'C05']


def cls_t(name):
    t = TObj('class')
    t.py = name
    return t


def build(m):
    ns = m.namespaces.setdefault(MOD, {})
    for c in CLASSES:
        ns[c] = ('class', c)
    ns['tokenizer'] = ('module', 'mistletoe.block_tokenizer')
    ns['span_token'] = ('module', 'mistletoe.span_token')
    ns['token'] = ('module', 'mistletoe.token')
    ns['_token_types'] = ('global', 'block_token._token_types')
    m.globals['block_token._token_types'] = TList(BLOCKCLS)
    m.globals['Paragraph.parse_setext'] = BOOL
    m.class_attrs[('Paragraph', 'parse_setext')] = ('global', 'Paragraph.parse_setext')
    m.globals['Heading.level'] = INT
    m.globals['Heading.content'] = STR
    m.globals['Heading.closing_sequence'] = STR
    for a in ('level', 'content', 'closing_sequence'):
        m.class_attrs[('Heading', a)] = ('global', 'Heading.' + a)
    OPENINFO = TTuple([INT, STR, STR, STR])
    m.globals['CodeFence._open_info'] = TOpt(OPENINFO)
    m.class_attrs[('CodeFence', '_open_info')] = ('global', 'CodeFence._open_info')
    m.globals['HtmlBlock._end_cond'] = TOpt(STR)
    m.class_attrs[('HtmlBlock', '_end_cond')] = ('global', 'HtmlBlock._end_cond')
    m.globals['Table.interrupt_paragraph'] = BOOL
    m.class_attrs[('Table', 'interrupt_paragraph')] = ('global', 'Table.interrupt_paragraph')
    for c in CLASSES:
        if c != 'BlockToken':
            m.subclass_of.setdefault(c, 'BlockToken')

    def method(cls, name, c, static=False, classmethod_=False):
        m.methods[(cls, name)] = c.key
        c.is_static = static
        c.is_classmethod = classmethod_
        m.add(c)
        return c

    # ---- protocol for paragraph-interruption tests on abstract token classes ------------
    m.methods[('BlockCls', 'check_interrupts_paragraph')] = 'protocol:BlockCls.check_interrupts_paragraph'
    m.add(Contract('protocol:BlockCls.check_interrupts_paragraph', [('self', BLOCKCLS), ('lines', FW)],
                   returns=BOOL, trusted=True, repeatable=True,
                   requires=['CURSOR_OK(lines)', 'lines._index + 1 < len(lines.lines)'],
                   ensures=['lines._index == old(lines._index)', 'CURSOR_OK(lines)'],
                   ensures_exc=['CURSOR_OK(lines)'],
                   modifies=['lines._index', 'G:SCRATCH'], may_raise=['CustomTokenError'],
                   note='INTERRUPTER protocol: may look ahead but must restore the cursor'))

    # ---- BlockToken.read (default reader) --------------------------------------------------
    method('BlockToken', 'read', Contract(
        MOD + ':BlockToken.read', [('lines', FW)], returns=TOpt(TList(STR)),
        requires=READER_REQ, ensures=READER_ENS_SOME, modifies=['lines._index'],
        loops={0: Loop(invariant=['CURSOR_OK(lines)', 'lines._index > old(lines._index)'],
                       decreases='len(lines.lines) - 1 - lines._index')},
        prop=P), static=True)

    # ---- Heading ------------------------------------------------------------------------------
    method('Heading', 'read', Contract(
        MOD + ':Heading.read', [('cls', cls_t('Heading')), ('lines', FW)],
        returns=TOpt(TTuple([INT, STR, STR])),
        requires=READER_REQ,
        ensures=READER_ENS_SOME + ['lines._index == old(lines._index) + 1',
                                   'some(result)[0] == old(Heading.level)'],
        modifies=['lines._index'], prop=P + ['C11']), classmethod_=True)

    # ---- ThematicBreak -----------------------------------------------------------------------
    method('ThematicBreak', 'read', Contract(
        MOD + ':ThematicBreak.read', [('lines', FW)], returns=TOpt(TList(STR)),
        requires=READER_REQ,
        ensures=READER_ENS_SOME + ['lines._index == old(lines._index) + 1', 'len(some(result)) == 1'],
        modifies=['lines._index'], prop=P), static=True)

    # ---- BlockCode ---------------------------------------------------------------------------
    m.predicate('INDENTED', ['l'], "l.replace('\\t', '    ', 1).startswith('    ')")
    method('BlockCode', 'strip', Contract(
        MOD + ':BlockCode.strip', [('string', STR)], returns=STR,
        ensures=['len(result) <= len(string)', 'string.endswith(result)'],
        prop=['C01']), static=True)
    method('BlockCode', 'read', Contract(
        MOD + ':BlockCode.read', [('cls', cls_t('BlockCode')), ('lines', FW)],
        returns=TOpt(TList(STR)),
        requires=READER_REQ + ['INDENTED(lines.lines[lines._index + 1])'],
        ensures=READER_ENS_SOME + [
            # C03 tight/loose: an indented code block never ends with an empty line - the empty lines after
            # its last code line are handed back, so that an enclosing list item sees them
            ("lines.lines[lines._index] != '\\n'", ['C03', 'C02'])],
        modifies=['lines._index'],
        body_types={'line_buffer': TList(STR)},
        loops={
            0: Loop(invariant=[
                'CURSOR_OK(lines)', 'lines._index == old(lines._index) + _k0',
                'len(line_buffer) == _k0', '0 <= trailing_blanks',
                'trailing_blanks <= (_k0 - 1 if _k0 >= 1 else 0)',
                # trailing_blanks counts exactly the empty lines at the end of what has been consumed
                "implies(_k0 >= 1 and lines._index - trailing_blanks > old(lines._index), "
                "lines.lines[lines._index - trailing_blanks] != '\\n')"],
                decreases='len(lines.lines) - 1 - lines._index'),
            1: Loop(invariant=[
                'CURSOR_OK(lines)',
                'lines._index == at_loop(1, lines._index) - _k1',
                'len(line_buffer) == at_loop(1, len(line_buffer)) - _k1',
                'lines._index >= old(lines._index) + 1 + (_n1 - _k1)',
                'len(line_buffer) >= _n1 - _k1',
                "lines.lines[at_loop(1, lines._index) - _n1] != '\\n'"]),
        }, prop=P + ['C03', 'C02']), classmethod_=True)

    # ---- CodeFence ---------------------------------------------------------------------------
    method('CodeFence', 'read', Contract(
        MOD + ':CodeFence.read', [('cls', cls_t('CodeFence')), ('lines', FW)],
        returns=TOpt(TTuple([TList(STR), OPENINFO])),
        requires=READER_REQ + ['not is_none(CodeFence._open_info)', 'len(some(CodeFence._open_info)[1]) >= 1'],
        ensures=READER_ENS_SOME,
        modifies=['lines._index'],
        body_types={'line_buffer': TList(STR)},
        loops={0: Loop(invariant=['CURSOR_OK(lines)', 'lines._index > old(lines._index)',
                                  'not is_none(CodeFence._open_info)', 'len(some(CodeFence._open_info)[1]) >= 1'],
                       decreases='len(lines.lines) - 1 - lines._index')},
        prop=P + ['C11']), classmethod_=True)

    # ---- HtmlBlock ---------------------------------------------------------------------------
    method('HtmlBlock', 'read', Contract(
        MOD + ':HtmlBlock.read', [('cls', cls_t('HtmlBlock')), ('lines', FW)],
        returns=TOpt(TList(STR)),
        requires=READER_REQ + ["lines.lines[lines._index + 1].strip() != ''"],
        ensures=READER_ENS_SOME + [
            # CommonMark 4.6 (start conditions 1-5): the block runs up to and including the FIRST line that
            # contains the end condition, compared case-insensitively (</PRE> ends a <pre> block) ...
            ("implies(not is_none(HtmlBlock._end_cond), forall(lambda j: implies(old(lines._index) + 1 <= j and j < lines._index, "
             "not (some(HtmlBlock._end_cond) in lines.lines[j].casefold())), 0, len(lines.lines)))", ['C03', 'C02']),
            # ... or to the end of the input
            ("implies(not is_none(HtmlBlock._end_cond), some(HtmlBlock._end_cond) in lines.lines[lines._index].casefold() "
             "or lines._index == len(lines.lines) - 1)", ['C03', 'C02'])],
        modifies=['lines._index'],
        body_types={'line_buffer': TList(STR)},
        loops={0: Loop(invariant=['CURSOR_OK(lines)', 'lines._index == old(lines._index) + _k0',
                                  'len(line_buffer) == _k0',
                                  "implies(not is_none(HtmlBlock._end_cond), forall(lambda j: implies(old(lines._index) + 1 <= j and j <= lines._index, "
                                  "not (some(HtmlBlock._end_cond) in lines.lines[j].casefold())), 0, len(lines.lines)))"],
                       decreases='len(lines.lines) - 1 - lines._index')},
        prop=P + ['C11', 'C03', 'C02']), classmethod_=True)

    # ---- Table -----------------------------------------------------------------------------
    m.ufunc('delimiter_row_fullmatch', [STR], BOOL)
    m.class_attrs[('Table', 'delimiter_row_pattern')] = ('const', mk_obj('pattern', 'Table.delimiter_row_pattern'))
    m.add(Contract('re:Table.delimiter_row_pattern.fullmatch', [('s', STR)], returns=BOOL, trusted=True, pure=True,
                   ensures=['result == delimiter_row_fullmatch(s)'],
                   note='A5 capture contract: only the truth value of fullmatch is used'))
    # a prefix match says less than a full match: a change from fullmatch to match fails the clause below
    # instead of leaving Table.read outside the subset
    m.ufunc('delimiter_row_prefixmatch', [STR], BOOL)
    m.add(Contract('re:Table.delimiter_row_pattern.match', [('s', STR)], returns=BOOL, trusted=True, pure=True,
                   ensures=['result == delimiter_row_prefixmatch(s)', 'implies(delimiter_row_fullmatch(s), result)'],
                   note='A5 capture contract: truth value of a prefix match (implied by, not equivalent to, the full match)'))
    method('Table', 'read', Contract(
        MOD + ':Table.read', [('cls', cls_t('Table')), ('lines', FW)],
        returns=TOpt(TTuple([TList(STR), INT])),
        requires=READER_REQ,
        ensures=READER_ENS + [
            'implies(not is_none(result), len(some(result)[0]) >= 2)',
            # C14 / C03 (GFM): a table needs a delimiter row - the WHOLE second line is one
            ('implies(not is_none(result), delimiter_row_fullmatch(some(result)[0][1]))', ['C14', 'C03']),
            # C13: the recorded start line is the line of the header row
            'implies(not is_none(result), some(result)[1] == lines.start_line + old(lines._index) + 1)',
            'implies(not is_none(result), lines._index == old(lines._index) + len(some(result)[0]))',
            # C03 / C14 (GFM): the rows are the lines read, and every row after the header - the delimiter row
            # first of all - has a pipe: a line of dashes without one ends a paragraph as a setext underline does
            ('implies(not is_none(result), forall(lambda i: some(result)[0][i] == lines.lines[old(lines._index) + 1 + i], '
             '0, len(some(result)[0])))', ['C03', 'C14', 'C05']),
            ("implies(not is_none(result), forall(lambda i: '|' in some(result)[0][i], 1, len(some(result)[0])))",
             ['C03', 'C14'])],
        modifies=['lines._index'],
        body_types={'line_buffer': TList(STR)},
        loops={0: Loop(invariant=['CURSOR_OK(lines)', 'len(line_buffer) >= 1',
                                  'lines._index == old(lines._index) + len(line_buffer)',
                                  'forall(lambda i: line_buffer[i] == lines.lines[old(lines._index) + 1 + i], 0, len(line_buffer))',
                                  "forall(lambda i: '|' in line_buffer[i], 1, len(line_buffer))"],
                       decreases='len(lines.lines) - 1 - lines._index')},
        prop=P + ['C13']), classmethod_=True)
    method('Table', 'check_interrupts_paragraph', Contract(
        MOD + ':Table.check_interrupts_paragraph', [('cls', cls_t('Table')), ('lines', FW)],
        returns=None,
        requires=READER_REQ,
        ensures=['lines._index == old(lines._index)', 'CURSOR_OK(lines)',
                 # C03 / C14: a paragraph is interrupted only by what Table.read accepts - a header line with a
                 # pipe followed by a delimiter row that has one too
                 ("implies(result, lines._index + 2 < len(lines.lines) and '|' in lines.lines[lines._index + 1] "
                  "and '|' in lines.lines[lines._index + 2] and delimiter_row_fullmatch(lines.lines[lines._index + 2]))",
                  ['C03', 'C14'])],
        modifies=['lines._index'], prop=P), classmethod_=True)


def build2(m):
    """Paragraph, ThematicBreak.start, Footnote."""
    def method(cls, name, c, static=False, classmethod_=False):
        m.methods[(cls, name)] = c.key
        c.is_static = static
        c.is_classmethod = classmethod_
        m.add(c)
        return c

    # regex wrappers: only the truth value of the match is used by the callers under proof
    for cls, pat, fn in [('ThematicBreak', 'pattern', 'match'), ('Paragraph', 'setext_pattern', 'match')]:
        uf = 're_%s_%s_%s' % (cls, pat, fn)
        m.ufunc(uf, [STR], BOOL)
        m.class_attrs[(cls, pat)] = ('const', mk_obj('pattern', '%s.%s' % (cls, pat)))
        m.add(Contract('re:%s.%s.%s' % (cls, pat, fn), [('s', STR)], returns=BOOL, trusted=True, pure=True,
                       ensures=['result == %s(s)' % uf],
                       note='A5: truth value of the regex match only'))
    method('ThematicBreak', 'start', Contract(
        MOD + ':ThematicBreak.start', [('cls', cls_t('ThematicBreak')), ('line', STR)], returns=BOOL,
        ensures=['result == re_ThematicBreak_pattern_match(line)'], pure=True, prop=['C01']), classmethod_=True)
    method('ThematicBreak', 'check_interrupts_paragraph', Contract(
        MOD + ':ThematicBreak.check_interrupts_paragraph', [('cls', cls_t('ThematicBreak')), ('lines', FW)],
        returns=BOOL, requires=['CURSOR_OK(lines)', 'lines._index + 1 < len(lines.lines)'],
        ensures=['lines._index == old(lines._index)'], pure=True, prop=['C01', 'C05']), classmethod_=True)
    method('Paragraph', 'is_setext_heading', Contract(
        MOD + ':Paragraph.is_setext_heading', [('cls', cls_t('Paragraph')), ('line', STR)], returns=BOOL,
        ensures=['result == re_Paragraph_setext_pattern_match(line)'], pure=True, prop=['C01']), classmethod_=True)
    method('Paragraph', 'start', Contract(
        MOD + ':Paragraph.start', [('line', STR)], returns=BOOL,
        ensures=["result == (line.strip() != '')"], pure=True, prop=['C01', 'C05']), static=True)
    m.classes['SetextHeadingTok'] = {}
    m.subclass_of['SetextHeadingTok'] = 'Token'
    method('SetextHeading', '__init__', Contract(
        MOD + ':SetextHeading.__init__', [('self', TRef('SetextHeadingTok')), ('lines', TList(STR))],
        trusted=True, requires=['len(lines) >= 2'],
        modifies=['G:INLINE_PHASE'], may_raise=['CustomTokenError'],
        note='constructor runs the inline phase (span_token.tokenize_inner); shape precondition: '
             'the buffer holds the text line(s) and the underline'))
    m.globals['INLINE_PHASE'] = INT
    NONBLANK = "forall(lambda j: lines.lines[j].strip() != '', old(lines._index) + 1, lines._index + 1)"
    method('Paragraph', 'read', Contract(
        MOD + ':Paragraph.read', [('cls', cls_t('Paragraph')), ('lines', FW)], returns=None,
        requires=READER_REQ + ["lines.lines[lines._index + 1].strip() != ''"],
        ensures=['CURSOR_OK(lines)', 'not is_none(result)', 'old(lines._index) < lines._index',
                 # C05 mechanism 1: a paragraph never consumes a blank line
                 NONBLANK],
        # C07 phase separation: a reader may not run the inline phase (INLINE_PHASE is not in its frame)
        modifies=['lines._index', 'G:SCRATCH'],
        allow_exc=['CustomTokenError'],
        ensures_exc=['CURSOR_OK(lines)'],
        body_types={'next_line': TOpt(STR), 'line_buffer': TList(STR)},
        loops={0: Loop(invariant=[
            'CURSOR_OK(lines)', 'lines._index > old(lines._index)', 'len(line_buffer) >= 1',
            'is_none(next_line) == (lines._index + 1 >= len(lines.lines))',
            'implies(not is_none(next_line), some(next_line) == lines.lines[lines._index + 1])',
            NONBLANK],
            decreases='len(lines.lines) - 1 - lines._index')},
        prop=P + ['C07']), classmethod_=True)


ENDS_NL = "forall(lambda j: lines.lines[j].endswith('\\n'), 0, len(lines.lines))"


def build3(m):
    """Quote."""
    def method(cls, name, c, static=False, classmethod_=False):
        m.methods[(cls, name)] = c.key
        c.is_static = static
        c.is_classmethod = classmethod_
        m.add(c)
        return c

    OPENINFO = TTuple([INT, STR, STR, STR])
    method('CodeFence', 'start', Contract(
        MOD + ':CodeFence.start', [('cls', cls_t('CodeFence')), ('line', STR)], returns=BOOL, trusted=True,
        ensures=['implies(result, not is_none(CodeFence._open_info) and len(some(CodeFence._open_info)[1]) >= 3)'],
        modifies=['G:CodeFence._open_info'],
        note='A5 capture contract for CodeFence.pattern: a truthy start() has stored the opener'),
        classmethod_=True)
    method('BlockCode', 'start', Contract(
        MOD + ':BlockCode.start', [('line', STR)], returns=BOOL, pure=True,
        ensures=["result == (line.strip() != '' and INDENTED(line))",
                 # CommonMark 2.1 / 4.4: a line of spaces and tabs is blank and cannot open an indented chunk
                 ("implies(result, line.strip() != '')", ['C03', 'C02', 'C13'])], prop=['C01']), static=True)
    method('Quote', 'start', Contract(
        MOD + ':Quote.start', [('line', STR)], returns=BOOL, pure=True,
        ensures=["implies(result, line.lstrip(' ').startswith('>'))",
                 # CommonMark 5.1: a block quote marker is '>' after at most three SPACES of indentation
                 # (a tab counts four columns, so a tab-indented '>' is not a marker)
                 ("result == (line.lstrip(' ').startswith('>') and len(line) - len(line.lstrip(' ')) <= 3)",
                  ['C14', 'C03', 'C02', 'C04'])],
        prop=['C01', 'C04', 'C14']), static=True)
    method('Quote', 'convert_leading_tabs', Contract(
        MOD + ':Quote.convert_leading_tabs', [('string', STR)], returns=STR, pure=True,
        requires=['len(string) >= 1'],
        ensures=['len(result) >= 1', 'implies(len(string) >= 2, len(result) >= 2)',
                 "implies(string.startswith('>'), result.startswith('>'))",
                 # a tab-free line that starts with the marker is left alone (C04)
                 "implies(string.startswith('>') and not ('\\t' in string), result == string)",
                 # LINES_NL: the line terminator survives the tab conversion
                 "implies(string.endswith('\\n'), result.endswith('\\n'))"],
        loops={0: Loop(invariant=['count >= 0',
                                  "implies(_k0 >= 1, string[0] == ' ' or string[0] == '\\t')"])},
        prop=['C01', 'C04']), static=True)
    method('Quote', 'read', Contract(
        MOD + ':Quote.read', [('cls', cls_t('Quote')), ('lines', FW)], returns=TOpt(PB),
        requires=READER_REQ + ["lines.lines[lines._index + 1].lstrip(' ').startswith('>')"],
        ensures=READER_ENS_SOME + [
            # C13 hand-off: nested tokenization starts at the quote's own first line and the
            # buffer holds exactly one element per consumed line
            ('start_line == lines.start_line + old(lines._index) + 1', 'C13'),
            ('len(line_buffer) == lines._index - old(lines._index)', 'C13'),
            # C11/C04: the setext switch is restored to what it was
            ('Paragraph.parse_setext == old(Paragraph.parse_setext)', ['C11', 'C03', 'C04', 'C14']),
        ],
        ensures_exc=['CURSOR_OK(lines)',
                     ('Paragraph.parse_setext == old(Paragraph.parse_setext)', ['C11', 'C03', 'C04', 'C14'])],
        modifies=['lines._index', 'G:SCRATCH', 'G:FOOTNOTES', 'G:CodeFence._open_info',
                  'G:Paragraph.parse_setext',
                  'N:FileWrapper._index', 'N:FileWrapper.lines', 'N:FileWrapper.start_line',
                  'N:FileWrapper._anchor', 'N:ParseBuffer.items', 'N:ParseBuffer.loose'],
        allow_exc=['CustomTokenError'],
        body_types={'next_line': TOpt(STR), 'line_buffer': TList(STR)},
        # stepping stones for LINES_NL (each is proved where it stands, then known)
        ghost_after={
            "line = cls.convert_leading_tabs(next(lines).lstrip()).split('>', 1)[1]": [
                ('__assert__', ("line.endswith('\\n')", ['C01', 'C04']))],
            'stripped = cls.convert_leading_tabs(next_line.lstrip())': [
                ('__assert__', ("stripped.endswith('\\n')", ['C01', 'C04']))],
            'stripped = stripped[prepend:]': [
                ('__assert__', ("stripped.endswith('\\n')", ['C01', 'C04']))],
        },
        loops={0: Loop(invariant=[
            'CURSOR_OK(lines)', 'lines._index > old(lines._index)',
            'len(line_buffer) == lines._index - old(lines._index)',
            'start_line == lines.start_line + old(lines._index) + 1',
            'is_none(next_line) == (lines._index + 1 >= len(lines.lines))',
            'implies(not is_none(next_line), some(next_line) == lines.lines[lines._index + 1])',
            'Paragraph.parse_setext == old(Paragraph.parse_setext)',
            # LINES_NL for the nested tokenization: every buffered line keeps its terminator
            "forall(lambda i: line_buffer[i].endswith('\\n'), 0, len(line_buffer))",
        ], decreases='len(lines.lines) - 1 - lines._index')},
        prop=P + ['C04']), classmethod_=True)


def build4(m):
    """ListItem.read, List.read (C01, C13)."""
    def method(cls, name, c, static=False, classmethod_=False):
        m.methods[(cls, name)] = c.key
        c.is_static = static
        c.is_classmethod = classmethod_
        m.add(c)
        return c

    MARKER = TTuple([INT, INT, STR, STR])        # indentation, prepend, leader, content
    m.ufunc('is_marker', [STR], BOOL)
    method('ListItem', 'parse_marker', Contract(
        MOD + ':ListItem.parse_marker', [('cls', cls_t('ListItem')), ('line', STR)], returns=TOpt(MARKER),
        trusted=True, pure=True,
        ensures=['is_none(result) == (not is_marker(line))',
                 'implies(not is_none(result), 0 <= some(result)[0] and len(some(result)[2]) >= 1)'],
        note='A5 capture contract for ListItem.pattern: None iff the pattern does not match; a leader has at least one character'),
        classmethod_=True)
    method('ListItem', 'parse_continuation', Contract(
        MOD + ':ListItem.parse_continuation', [('cls', cls_t('ListItem')), ('line', STR), ('prepend', INT)],
        returns=TOpt(STR), trusted=True, pure=True,
        note='A5 capture contract for ListItem.continuation_pattern (result used only for truthiness and as buffer content)'),
        classmethod_=True)
    ITEM = TTuple([PB, INT, INT, STR, INT])
    NESTED = ['N:FileWrapper._index', 'N:FileWrapper.lines', 'N:FileWrapper.start_line',
              'N:FileWrapper._anchor', 'N:ParseBuffer.items', 'N:ParseBuffer.loose']
    method('ListItem', 'read', Contract(
        MOD + ':ListItem.read', [('cls', cls_t('ListItem')), ('lines', FW), ('prev_marker', TOpt(MARKER), NONE_VAL)],
        returns=TTuple([ITEM, TOpt(MARKER)]),
        requires=READER_REQ + ['not is_none(prev_marker) or is_marker(lines.lines[lines._index + 1])',
                               'implies(not is_none(prev_marker), len(some(prev_marker)[2]) >= 1)',
                               # LINES_NL: a marker handed over by the previous item carries non-blank content with its terminator
                               "implies(not is_none(prev_marker), (some(prev_marker)[3].strip() == '' or some(prev_marker)[3].endswith('\\n')))"],
        ensures=['CURSOR_OK(lines)', 'old(lines._index) < lines._index',
                 "implies(not is_none(result[1]), (some(result[1])[3].strip() == '' or some(result[1])[3].endswith('\\n')))",
                 # the item records the line of its marker
                 ('result[0][4] == lines.start_line + old(lines._index) + 1', 'C13'),
                 'len(result[0][3]) >= 1',
                 'implies(not is_none(result[1]), lines._index + 1 < len(lines.lines) and is_marker(lines.lines[lines._index + 1]))',
                 'implies(not is_none(result[1]), len(some(result[1])[2]) >= 1)',
                 # tight/loose hand-back: an item that ends after trailing blank lines (and is not
                 # directly followed by a sibling marker) leaves the last of them unconsumed, so the
                 # enclosing tokenize_block sees the blank line that makes its container loose
                 ('implies(g_nc > 0 and is_none(result[1]), lines._index == g_idx - 1)', ['C03', 'C02']),
                 ('implies(g_nc == 0 and g_idx >= 0, lines._index == g_idx)', ['C03', 'C02'])],
        ensures_exc=['CURSOR_OK(lines)'],
        modifies=['lines._index', 'G:SCRATCH', 'G:FOOTNOTES'] + NESTED,
        allow_exc=['CustomTokenError'],
        body_types={'next_line': TOpt(STR), 'line_buffer': TList(STR), 'next_marker': TOpt(MARKER)},
        ghost_init={'g_first': (INT, '-1'), 'g_nc': (INT, '0'), 'g_idx': (INT, '-1')},
        ghost_after={
            'next(lines)': [('g_idx', 'lines._index')],
            "newline_count = newline_count + 1 if continuation == '\\n' else 0": [('g_nc', 'newline_count')],
            'line_buffer.append(content)': [('g_first', 'lines._index')],
            'line_buffer.append(continuation)': [('g_first', 'lines._index + 1 if len(line_buffer) == 1 else g_first')],
        },
        call_asserts={'mistletoe.block_tokenizer:tokenize_block': [
            # C13 hand-off: the nested tokenization is told the line of its first buffered line
            ('implies(len(arg_iterable) > 0, arg_start_line == lines.start_line + g_first)', 'C13'),
            # C03 tight/loose: unless a sibling marker follows (then the blank lines between the items
            # stay and make the list loose), the item's trailing blank lines are NOT part of its content
            ("implies(is_none(next_marker) and len(arg_iterable) >= 1, arg_iterable[len(arg_iterable) - 1] != '\\n')", ['C03', 'C02'])]},
        loops={
            0: Loop(invariant=['CURSOR_OK(lines)', 'lines._index > old(lines._index)',
                               'is_none(next_line) == (lines._index + 1 >= len(lines.lines))',
                               'implies(not is_none(next_line), some(next_line) == lines.lines[lines._index + 1])',
                               'blanks >= 1', 'lines._index == old(lines._index) + blanks',
                               'g_nc == 0', 'g_idx == -1 or g_idx == lines._index'],
                    decreases='len(lines.lines) - 1 - lines._index'),
            1: Loop(invariant=['CURSOR_OK(lines)', 'lines._index > old(lines._index)',
                               'is_none(next_line) == (lines._index + 1 >= len(lines.lines))',
                               'implies(not is_none(next_line), some(next_line) == lines.lines[lines._index + 1])',
                               '0 <= newline_count', 'newline_count <= len(line_buffer)',
                               'g_nc == newline_count', 'g_idx == -1 or g_idx == lines._index',
                               'implies(newline_count > 0, g_idx == lines._index)',
                               # a backstep after trailing blank lines cannot undo the marker line
                               'implies(newline_count >= 1, lines._index >= old(lines._index) + 2)',
                               'start_line == lines.start_line + old(lines._index) + 1',
                               'len(leader) >= 1',
                               'is_none(next_marker)',
                               'at_loop(1, lines._index) == old(lines._index) + 1',
                               'lines._index >= at_loop(1, lines._index)',
                               'len(line_buffer) >= at_loop(1, len(line_buffer)) + (lines._index - at_loop(1, lines._index))',
                               'implies(at_loop(1, len(line_buffer)) > 0 or lines._index > at_loop(1, lines._index), '
                               'g_first == (old(lines._index) + 1 if at_loop(1, len(line_buffer)) > 0 else old(lines._index) + 2))',
                               'implies(at_loop(1, len(line_buffer)) == 0 and lines._index == at_loop(1, lines._index), len(line_buffer) == 0)',
                               # newline_count counts exactly the trailing blank lines of the buffer
                               "forall(lambda k: implies(len(line_buffer) - newline_count <= k, line_buffer[k] == '\\n'), 0, len(line_buffer))",
                               "implies(len(line_buffer) > newline_count, line_buffer[len(line_buffer) - newline_count - 1] != '\\n')",
                               # LINES_NL for the nested tokenization
                               "forall(lambda i: line_buffer[i].endswith('\\n'), 0, len(line_buffer))",
                               ],
                    decreases='len(lines.lines) - 1 - lines._index'),
        }, prop=P + ['C13']), classmethod_=True)


def build5(m):
    """List.read, List.same_marker_type (C01)."""
    def method(cls, name, c, static=False, classmethod_=False):
        m.methods[(cls, name)] = c.key
        c.is_static = static
        c.is_classmethod = classmethod_
        m.add(c)
        return c
    MARKER = TTuple([INT, INT, STR, STR])
    ITEM = TTuple([PB, INT, INT, STR, INT])
    NESTED = ['N:FileWrapper._index', 'N:FileWrapper.lines', 'N:FileWrapper.start_line',
              'N:FileWrapper._anchor', 'N:ParseBuffer.items', 'N:ParseBuffer.loose']
    method('List', 'same_marker_type', Contract(
        MOD + ':List.same_marker_type', [('leader', STR), ('other', STR)], returns=BOOL, pure=True,
        requires=['len(leader) >= 1', 'len(other) >= 1'], prop=['C01']), static=True)
    method('List', 'read', Contract(
        MOD + ':List.read', [('cls', cls_t('List')), ('lines', FW)], returns=TOpt(TList(ITEM)),
        requires=READER_REQ + ['is_marker(lines.lines[lines._index + 1])'],
        ensures=READER_ENS_SOME + ['len(some(result)) >= 1',
                                   # C13: the list starts on the line of its first item
                                   ('some(result)[0][4] == lines.start_line + old(lines._index) + 1', 'C13')],
        ensures_exc=['CURSOR_OK(lines)'],
        modifies=['lines._index', 'G:SCRATCH', 'G:FOOTNOTES', 'F:ParseBuffer.loose'] + NESTED,
        allow_exc=['CustomTokenError'],
        body_types={'leader': TOpt(STR), 'next_marker': TOpt(MARKER), 'matches': TList(ITEM)},
        loops={0: Loop(invariant=[
            'CURSOR_OK(lines)', 'lines._index >= old(lines._index)',
            '(len(matches) == 0) == (lines._index == old(lines._index))',
            '(len(matches) == 0) == is_none(leader)',
            'implies(not is_none(leader), len(some(leader)) >= 1)',
            'implies(len(matches) == 0, is_none(next_marker))',
            'implies(len(matches) > 0, not is_none(next_marker) and lines._index + 1 < len(lines.lines) '
            'and is_marker(lines.lines[lines._index + 1]) and len(some(next_marker)[2]) >= 1)',
            "implies(not is_none(next_marker), (some(next_marker)[3].strip() == '' or some(next_marker)[3].endswith('\\n')))",
            'implies(len(matches) > 0, matches[0][4] == lines.start_line + old(lines._index) + 1)',
        ], decreases='len(lines.lines) - 1 - lines._index')},
        prop=P + ['C13']), classmethod_=True)


def build6(m):
    """Footnote.read (C01, C13, C07)."""
    def method(cls, name, c, static=False, classmethod_=False):
        m.methods[(cls, name)] = c.key
        c.is_static = static
        c.is_classmethod = classmethod_
        m.add(c)
        return c
    REF5 = TTuple([STR, STR, STR, STR, TOpt(STR)])
    method('Footnote', 'match_reference', Contract(
        MOD + ':Footnote.match_reference', [('cls', cls_t('Footnote')), ('string', STR), ('offset', INT)],
        returns=TOpt(TTuple([INT, REF5])), trusted=True, pure=True,
        requires=['0 <= offset', 'offset < len(string)'],
        ensures=["implies(not is_none(result), offset < some(result)[0] and some(result)[0] <= len(string) "
                 "and string[some(result)[0] - 1] == '\\n')"],
        note='scanner contract: a recognised definition ends just after a line ending beyond the offset '
             '(checked against the spec grammar in the bounded tier b07)'), classmethod_=True)
    method('Footnote', 'append_footnotes', Contract(
        MOD + ':Footnote.append_footnotes', [('matches', TList(REF5)), ('root', TRef('Token'))],
        trusted=True, modifies=['G:FOOTNOTES'],
        note='first-wins insertion into root.footnotes (dict semantics, A8)'), static=True)
    m.namespaces[MOD]['token'] = ('module', 'mistletoe.token')
    method('Footnote', 'read', Contract(
        MOD + ':Footnote.read', [('cls', cls_t('Footnote')), ('lines', FW)], returns=TOpt(TList(REF5)),
        requires=READER_REQ + ["lines.lines[lines._index + 1].strip() != ''", 'not is_none(token._root_node)',
                               'len(lines.lines[lines._index + 1]) >= 2'],
        ensures=READER_ENS + [
            # C04 / C05 / C07: a run of definitions never reaches across a blank line - blank as every other reader
            # tests it (white space only), so that the same text finds the same definitions at any nesting depth
            ("forall(lambda j: implies(old(lines._index) + 1 <= j and j <= lines._index, lines.lines[j].strip() != ''), 0, len(lines.lines))",
             ['C04', 'C05', 'C07'])],
        modifies=['lines._index', 'G:FOOTNOTES'],
        body_types={'next_line': TOpt(STR), 'line_buffer': TList(STR), 'matches': TList(REF5)},
        ghost_after={"string = ''.join(line_buffer)": [
            ('__assume__', "string.count('\\n') == len(line_buffer)")]},
        loops={
            0: Loop(invariant=['CURSOR_OK(lines)', 'len(line_buffer) == lines._index - old(lines._index)',
                               'implies(len(line_buffer) >= 1, line_buffer[0] == lines.lines[old(lines._index) + 1])',
                               'is_none(next_line) == (lines._index + 1 >= len(lines.lines))',
                               'implies(not is_none(next_line), some(next_line) == lines.lines[lines._index + 1])',
                               "forall(lambda j: implies(old(lines._index) + 1 <= j and j <= lines._index, lines.lines[j].strip() != ''), 0, len(lines.lines))"],
                    decreases='len(lines.lines) - 1 - lines._index'),
            1: Loop(invariant=['0 <= offset', 'offset <= len(string)',
                               '(offset == 0) == (len(matches) == 0)',
                               "implies(offset > 0, string[offset - 1] == '\\n')",
                               'lines._index == at_loop(1, lines._index)',
                               "forall(lambda j: implies(old(lines._index) + 1 <= j and j <= lines._index, lines.lines[j].strip() != ''), 0, len(lines.lines))"],
                    decreases='len(string) - offset'),
        },
        prop=P + ['C07', 'C04'],
        note="assumed lemma (A4): the joined buffer contains exactly one '\\n' per buffered line (LINES_OK)"),
        classmethod_=True)


def build7(m):
    """C04: Quote.read strips exactly the marker from marked, tab-free lines and keeps one buffer
    line per source line (second view of Quote.read; cursor obligations are in the main view)."""
    NESTED = ['N:FileWrapper._index', 'N:FileWrapper.lines', 'N:FileWrapper.start_line',
              'N:FileWrapper._anchor', 'N:ParseBuffer.items', 'N:ParseBuffer.loose']
    m.predicate('QLINE', ['l'], "l.startswith('>') and not ('\\t' in l)")
    m.predicate('STRIPQ', ['l'], "l[2:] if l.startswith('> ') else l[1:]")
    FIRST = 'lines.lines[old(lines._index) + 1]'
    m.add(Contract(MOD + ':Quote.read#strip', [('cls', cls_t('Quote')), ('lines', FW)], returns=TOpt(PB),
                   requires=READER_REQ + ["lines.lines[lines._index + 1].lstrip(' ').startswith('>')"],
                   assume_callee_pre=True,
                   ensures=[('len(line_buffer) == lines._index - old(lines._index)', 'C04')],
                   ghost_after={
                       # first line: exactly the marker (and one optional space) is removed
                       'line_buffer = [line]': [
                           ('__assert__', ('implies(QLINE(%s), line == STRIPQ(%s))' % (FIRST, FIRST), 'C04'))],
                       # every later marked line likewise; the buffer is append-only, one element per source line
                       'line_buffer.append(stripped)': [
                           ('__assert__', ('implies(QLINE(lines.lines[lines._index + 1]), '
                                           'stripped == STRIPQ(lines.lines[lines._index + 1]))', 'C04'))],
                   },
                   call_asserts={'mistletoe.block_tokenizer:tokenize_block': [
                       # the nested tokenization gets exactly the buffer of stripped lines
                       ('same(arg_iterable, line_buffer)', 'C04')]},
                   modifies=['lines._index', 'G:SCRATCH', 'G:FOOTNOTES', 'G:CodeFence._open_info',
                             'G:Paragraph.parse_setext'] + NESTED,
                   allow_exc=['CustomTokenError'],
                   body_types={'next_line': TOpt(STR), 'line_buffer': TList(STR)},
                   loops={0: Loop(invariant=[
                       'CURSOR_OK(lines)', 'lines._index > old(lines._index)',
                       'len(line_buffer) == lines._index - old(lines._index)',
                       'is_none(next_line) == (lines._index + 1 >= len(lines.lines))',
                       'implies(not is_none(next_line), some(next_line) == lines.lines[lines._index + 1])'])},
                   prop=['C04'], options={'tier': 'thorough'}))


def build8(m):
    """parse_marker verified against a regex *capture* contract (A5) instead of being trusted as a
    whole; constructor shape obligations of List/Table (C01, C12)."""
    def method(cls, name, c, static=False, classmethod_=False):
        m.methods[(cls, name)] = c.key
        c.is_static = static
        c.is_classmethod = classmethod_
        m.add(c)
        return c
    MARKER = TTuple([INT, INT, STR, STR])
    ML = TRef('MatchLI')
    m.classes['MatchLI'] = {}
    m.ufunc('li_group', [ML, INT], STR)
    m.class_attrs[('ListItem', 'pattern')] = ('const', mk_obj('pattern', 'ListItem.pattern'))
    # capture contract of ListItem.pattern = ( {0,3})(marker)($|\\s+): the three groups concatenate to
    # group 0, which is a prefix of the line; group 1 is 0-3 spaces; the marker is not empty
    m.add(Contract('re:ListItem.pattern.match', [('s', STR)], returns=TOpt(ML), trusted=True, pure=True,
                   ensures=['is_none(result) == (not is_marker(s))',
                            'implies(not is_none(result), li_group(some(result), 0) == li_group(some(result), 1) + '
                            'li_group(some(result), 2) + li_group(some(result), 3))',
                            'implies(not is_none(result), s.startswith(li_group(some(result), 0)))',
                            'implies(not is_none(result), len(li_group(some(result), 1)) <= 3 and len(li_group(some(result), 2)) >= 1)'],
                   note='A5 capture contract (group structure of ListItem.pattern; the group languages are those of the '
                        'sub-patterns, checked by the language lemmas; leftmost/greedy choice assumed)'))
    m.methods[('MatchLI', 'group')] = 're:MatchLI.group'
    m.add(Contract('re:MatchLI.group', [('self', ML), ('n', INT)], returns=STR, trusted=True, pure=True,
                   ensures=['result == li_group(self, n)']))
    m.methods[('MatchLI', 'end')] = 're:MatchLI.end'
    m.add(Contract('re:MatchLI.end', [('self', ML), ('n', INT)], returns=INT, trusted=True, pure=True,
                   ensures=['result == (len(li_group(self, 0)) if n == 0 else '
                            '(len(li_group(self, 1)) if n == 1 else len(li_group(self, 1)) + len(li_group(self, 2))))'],
                   note='end(k) for the consecutive groups 1,2 of a match that starts at position 0'))
    # the call-site contract of parse_marker is no longer trusted: its body is verified against
    # the capture contract above
    c = m.contracts[MOD + ':ListItem.parse_marker']
    c.trusted = False
    c.pure = True
    c.ensures = ['is_none(result) == (not is_marker(line))',
                 'implies(not is_none(result), 0 <= some(result)[0] and some(result)[0] <= 3 and len(some(result)[2]) >= 1)',
                 # C12 / C09 / C10: the content offset lies behind indentation + leader
                 'implies(not is_none(result), some(result)[1] >= some(result)[0] + len(some(result)[2]))',
                 # LINES_NL: non-blank content of the marker line is a suffix of the line, terminator included
                 "implies(not is_none(result) and line.endswith('\\n') and some(result)[3].strip() != '', some(result)[3].endswith('\\n'))"]
    # C04 (list-indenting wraps the parse, marker line): on a tab-free line whose marker is followed by at most
    # four blanks, the leader is the text at the indentation, the content offset is indentation + leader +
    # padding, and the content handed to the item is the line with exactly that many characters removed
    c.ensures = c.ensures + [
        ("implies(not is_none(result) and not ('\\t' in line) and g_ns <= 4, "
         "some(result)[1] == some(result)[0] + len(some(result)[2]) + g_ns and some(result)[1] <= len(line))", ['C04', 'C03']),
        ("implies(not is_none(result) and not ('\\t' in line) and g_ns <= 4, "
         "some(result)[3] == line[some(result)[1]:])", ['C04', 'C03']),
        ("implies(not is_none(result), "
         "some(result)[2] == line[some(result)[0]:some(result)[0] + len(some(result)[2])])", ['C04', 'C03']),
        # more than four: one blank separates, the rest belongs to the content (an indented code block)
        ("implies(not is_none(result) and not ('\\t' in line) and g_ns > 4, "
         "some(result)[1] == some(result)[0] + len(some(result)[2]) + 1)", ['C04', 'C03'])]
    c.ghost_init = {'g_ns': (INT, '0')}
    c.ghost_after = {'n_spaces = prepend - match_obj.end(2)': [('g_ns', 'n_spaces')]}
    c.prop = ['C01', 'C12', 'C09', 'C10', 'C13', 'C04', 'C03']
    c.options = dict(c.options or {}, blank_axiom=True)
    c.note = 'verified against the capture contract re:ListItem.pattern.match'


def build9(m):
    """CodeFence.start and Heading.start verified against capture contracts (C11 typestate source,
    C12 level range)."""
    def method(cls, name, c, static=False, classmethod_=False):
        m.methods[(cls, name)] = c.key
        c.is_static = static
        c.is_classmethod = classmethod_
        m.add(c)
        return c
    MCF = TRef('MatchCF')
    m.classes['MatchCF'] = {}
    m.ufunc('codefence_matches', [STR], BOOL)
    m.ufunc('cf_groups', [MCF], TTuple([STR, STR, STR, STR]))
    m.class_attrs[('CodeFence', 'pattern')] = ('const', mk_obj('pattern', 'CodeFence.pattern'))
    m.add(Contract('re:CodeFence.pattern.match', [('s', STR)], returns=TOpt(MCF), trusted=True, pure=True,
                   ensures=['is_none(result) == (not codefence_matches(s))',
                            'implies(not is_none(result), len(cf_groups(some(result))[0]) <= 3 and '
                            'len(cf_groups(some(result))[1]) >= 3)'],
                   note='A5 capture contract of CodeFence.pattern: ( {0,3})(`{3,}|~{3,})(info): indentation at most 3, fence at least 3'))
    m.methods[('MatchCF', 'groups')] = 're:MatchCF.groups'
    m.add(Contract('re:MatchCF.groups', [('self', MCF)], returns=TTuple([STR, STR, STR, STR]), trusted=True, pure=True,
                   ensures=['result == cf_groups(self)']))
    c = m.contracts[MOD + ':CodeFence.start']
    c.trusted = False
    c.note = 'verified against the capture contract re:CodeFence.pattern.match'
    c.prop = ['C01', 'C11', 'C05']
    # Heading
    MH = TRef('MatchH')
    m.classes['MatchH'] = {}
    m.ufunc('heading_matches', [STR], BOOL)
    m.ufunc('h_group', [MH, INT], TOpt(STR))
    m.class_attrs[('Heading', 'pattern')] = ('const', mk_obj('pattern', 'Heading.pattern'))
    m.add(Contract('re:Heading.pattern.match', [('s', STR)], returns=TOpt(MH), trusted=True, pure=True,
                   ensures=['is_none(result) == (not heading_matches(s))',
                            'implies(not is_none(result), not is_none(h_group(some(result), 1)) and '
                            '1 <= len(some(h_group(some(result), 1))) and len(some(h_group(some(result), 1))) <= 6)',
                            # groups 2 and 3 stand in the same alternative: both take part in a match or neither does
                            'implies(not is_none(result), is_none(h_group(some(result), 2)) == is_none(h_group(some(result), 3)))'],
                   note='A5 capture contract of Heading.pattern; the width of group 1 (#{1,6}) is the lemma width:Heading.pattern.g1'))
    m.methods[('MatchH', 'group')] = 're:MatchH.group'
    m.add(Contract('re:MatchH.group', [('self', MH), ('n', INT)], returns=TOpt(STR), trusted=True, pure=True,
                   ensures=['result == h_group(self, n)']))
    m.methods[('MatchH', 'groups')] = 're:MatchH.groups'
    m.add(Contract('re:MatchH.groups', [('self', MH)], returns=TTuple([TOpt(STR), TOpt(STR), TOpt(STR)]), trusted=True,
                   pure=True,
                   ensures=['result[0] == h_group(self, 1) and result[1] == h_group(self, 2) and result[2] == h_group(self, 3)'],
                   note='groups() is (group(1), group(2), group(3)) (re documentation)'))
    c = method('Heading', 'start', Contract(
        MOD + ':Heading.start', [('cls', cls_t('Heading')), ('line', STR)], returns=BOOL,
        ensures=['result == heading_matches(line)',
                 # C12 / C08: a started heading has a level between 1 and 6
                 ('implies(result, 1 <= Heading.level and Heading.level <= 6)', ['C12', 'C08']),
                 # C11 / C05 / C09: every piece of scratch state the following read() uses is written by this call,
                 # from this line only - nothing of an earlier heading survives a successful start()
                 ('implies(result, Heading.level == len(some(h_group(some(g_m), 1))))', ['C11', 'C05', 'C09']),
                 ("implies(result, Heading.closing_sequence == (some(h_group(some(g_m), 3)).strip() "
                  "if not is_none(h_group(some(g_m), 3)) else ''))", ['C11', 'C05', 'C09'])],
        modifies=['G:Heading.level', 'G:Heading.content', 'G:Heading.closing_sequence'],
        prop=['C01', 'C12', 'C11']), classmethod_=True)
    c.ghost_init = {'g_m': (TOpt(MH), 'None')}
    c.ghost_after = {'match_obj = cls.pattern.match(line)': [('g_m', 'match_obj')]}


def build10(m):
    """Footnote.append_footnotes: first definition wins, the stored key is the normalised label (C07)."""
    def method(cls, name, c, static=False, classmethod_=False):
        m.methods[(cls, name)] = c.key
        c.is_static = static
        c.is_classmethod = classmethod_
        m.add(c)
        return c
    REF5 = TTuple([STR, STR, STR, STR, TOpt(STR)])
    ROOT = TRef('RootDoc')
    m.classes['RootDoc'] = {'footnotes': TDict(STR, TTuple([STR, STR]))}
    m.ufunc('norm_label', [STR], STR)
    m.ufunc('esc_strip', [STR], STR)
    ns = m.namespaces[MOD]
    ns['normalize_label'] = ('func', 'mistletoe.core_tokens:normalize_label#uf')
    m.add(Contract('mistletoe.core_tokens:normalize_label#uf', [('text', STR)], returns=STR, trusted=True, pure=True,
                   ensures=['result == norm_label(text)'],
                   note="label normalisation ' '.join(text.split()).casefold() as an uninterpreted function (A4); "
                        'the same function is used at the store and at every lookup site (syntactic check in phase lemma)'))
    m.methods[('EscapeSequence', 'strip')] = 'mistletoe.span_token:EscapeSequence.strip#uf'
    m.add(Contract('mistletoe.span_token:EscapeSequence.strip#uf', [('string', STR)], returns=STR, trusted=True, pure=True,
                   ensures=['result == esc_strip(string)'], is_static=True))
    m.namespaces.setdefault('mistletoe.span_token', {})['EscapeSequence'] = ('class', 'EscapeSequence')
    KEY = 'norm_label(matches[j][0])'
    VAL = '(esc_strip(matches[j][1].strip()), esc_strip(matches[j][2]))'
    c = Contract(
        MOD + ':Footnote.append_footnotes#firstwins', [('matches', TList(REF5)), ('root', ROOT)],
        ensures=[
            # (a) an existing definition is never overwritten
            ('forall_str(lambda k: implies(k in old(root.footnotes), k in root.footnotes and '
             'root.footnotes[k] == old(root.footnotes)[k]))', 'C07'),
            # (b) every processed label is defined afterwards, under its normalised key
            ('forall(lambda j: %s in root.footnotes, 0, len(matches))' % KEY, 'C07'),
            # (c) a label that was new gets the value of its FIRST occurrence in matches
            ('forall(lambda j: implies(not (%s in old(root.footnotes)) and '
             'forall(lambda i: norm_label(matches[i][0]) != %s, 0, j), root.footnotes[%s] == %s), 0, len(matches))'
             % (KEY, KEY, KEY, VAL), 'C07'),
        ],
        modifies=['root.footnotes'],
        loops={0: Loop(invariant=[
            'forall_str(lambda k: implies(k in old(root.footnotes), k in root.footnotes and root.footnotes[k] == old(root.footnotes)[k]))',
            'forall(lambda j: %s in root.footnotes, 0, _k0)' % KEY,
            'forall(lambda j: implies(not (%s in old(root.footnotes)) and '
            'forall(lambda i: norm_label(matches[i][0]) != %s, 0, j), root.footnotes[%s] == %s), 0, _k0)' % (KEY, KEY, KEY, VAL),
            # nothing but processed labels has been added
            'forall_str(lambda k: implies(k in root.footnotes and not (k in old(root.footnotes)), '
            'exists(lambda j: norm_label(matches[j][0]) == k, 0, _k0)))',
        ])},
        prop=['C07'])
    c.is_static = True
    m.add(c)


def build11(m):
    """Scratch typestate (C05, C11, C03): every truthy exit of a scratch-writing start() has written
    all of its scratch fields on that very path, so read() never sees a value left by an earlier block."""
    def method(cls, name, c, static=False, classmethod_=False):
        m.methods[(cls, name)] = c.key
        c.is_static = static
        c.is_classmethod = classmethod_
        m.add(c)
        return c
    hs = m.contracts[MOD + ':Heading.start']
    hs.ensures.append(("implies(result, written('Heading.level') and written('Heading.content') "
                       "and written('Heading.closing_sequence'))", ['C05', 'C11', 'C03']))
    hs.prop = sorted(set(hs.prop) | {'C05', 'C03'})
    cf = m.contracts[MOD + ':CodeFence.start']
    cf.ensures.append(("implies(result, written('CodeFence._open_info'))", ['C05', 'C11', 'C03']))
    cf.prop = sorted(set(cf.prop) | {'C05', 'C03'})
    # HtmlBlock.start: three patterns, only match / group(1) are used
    MHB = TRef('MatchHB')
    m.classes['MatchHB'] = {}
    m.ufunc('hb_group1', [MHB], STR)
    for pat in ('multiblock', 'predefined', 'custom_tag'):
        uf = 'hb_%s_matches' % pat
        m.ufunc(uf, [STR], BOOL)
        m.class_attrs[('HtmlBlock', pat)] = ('const', mk_obj('pattern', 'HtmlBlock.' + pat))
        m.add(Contract('re:HtmlBlock.%s.match' % pat, [('s', STR)], returns=TOpt(MHB), trusted=True, pure=True,
                       ensures=['is_none(result) == (not %s(s))' % uf,
                                "implies(not is_none(result), s.startswith('<'))"],
                       note='A5: truth value and group(1) of the match only; every HtmlBlock pattern begins with "<"'))
    m.methods[('MatchHB', 'group')] = 're:MatchHB.group'
    m.add(Contract('re:MatchHB.group', [('self', MHB), ('n', INT)], returns=STR, trusted=True, pure=True,
                   ensures=['result == hb_group1(self)']))
    m.namespaces['mistletoe.span_token'] = m.namespaces.get('mistletoe.span_token', {})
    m.namespaces['mistletoe.span_token']['_tags'] = ('charset', 'html_tags')
    m.ufunc('in_html_tags', [STR], BOOL)
    method('HtmlBlock', 'start', Contract(
        MOD + ':HtmlBlock.start', [('cls', cls_t('HtmlBlock')), ('line', STR)], returns=INT,
        requires=["line.endswith('\\n')"],
        ensures=['0 <= result', 'result <= 7',
                 ("implies(result, written('HtmlBlock._end_cond'))", ['C05', 'C11', 'C03']),
                 # a started HTML block begins on a non-blank line (HtmlBlock.read relies on it)
                 ("implies(result, line.strip() != '')", ['C01'])],
        modifies=['G:HtmlBlock._end_cond'],
        prop=['C01', 'C05', 'C11', 'C03']), classmethod_=True)


def build12(m):
    """The link-reference-definition scanner: returned offsets lie in the string and move forward
    (C01 termination of Footnote.read, C07)."""
    def method(cls, name, c, static=False, classmethod_=False):
        m.methods[(cls, name)] = c.key
        c.is_static = static
        c.is_classmethod = classmethod_
        m.add(c)
        return c
    ns = m.namespaces[MOD]
    ns['whitespace'] = ('charset', frozenset({' ', '\t', '\n', '\x0b', '\x0c', '\r'}))
    ns['is_control_char'] = ('func', 'mistletoe.core_tokens:is_control_char')
    ns['follows'] = ('func', 'mistletoe.core_tokens:follows')
    ns['shift_whitespace'] = ('func', 'mistletoe.core_tokens:shift_whitespace')
    SPAN3 = TTuple([INT, INT, STR])
    method('Footnote', 'match_link_label', Contract(
        MOD + ':Footnote.match_link_label', [('cls', cls_t('Footnote')), ('string', STR), ('offset', INT)],
        returns=TOpt(SPAN3), pure=True,
        requires=['0 <= offset', 'offset <= len(string)'],
        ensures=['implies(not is_none(result), offset <= some(result)[0] and some(result)[0] < some(result)[1] '
                 "and some(result)[1] <= len(string) and string[some(result)[1] - 1] == ']')",
                 # C07: a label starts at its opening bracket -- never before the offset
                 ("implies(not is_none(result), string[some(result)[0]] == '[')", 'C07'),
                 # C09 / C07: the label is the text between the brackets, verbatim (escapes kept)
                 ("implies(not is_none(result), some(result)[2] == string[some(result)[0] + 1:some(result)[1] - 1])",
                  ['C09', 'C07'])],
        loops={0: Loop(invariant=['start == -1 or (offset <= start and start < offset + _k0)',
                                  "implies(start != -1, string[start] == '[')"])},
        prop=['C01', 'C07']), classmethod_=True)
    method('Footnote', 'match_link_dest', Contract(
        MOD + ':Footnote.match_link_dest', [('cls', cls_t('Footnote')), ('string', STR), ('offset', INT)],
        returns=TOpt(SPAN3), pure=True,
        requires=['0 <= offset', 'offset < len(string)'],
        ensures=['implies(not is_none(result), some(result)[0] == offset and offset <= some(result)[1] '
                 'and some(result)[1] <= len(string))',
                 # C09: the destination is the source spelling, verbatim (escapes kept; pointy brackets dropped)
                 ("implies(not is_none(result), some(result)[2] == (string[offset + 1:some(result)[1] - 1] "
                  "if string[offset] == '<' else string[offset:some(result)[1]]))", ['C09', 'C07'])],
        loops={0: Loop(invariant=[]), 1: Loop(invariant=[])},
        prop=['C01', 'C07']), classmethod_=True)
    method('Footnote', 'match_link_title', Contract(
        MOD + ':Footnote.match_link_title', [('cls', cls_t('Footnote')), ('string', STR), ('offset', INT)],
        returns=TOpt(SPAN3), pure=True,
        requires=['0 <= offset', 'offset <= len(string)'],
        ensures=['implies(not is_none(result), some(result)[0] == offset and offset < some(result)[1] '
                 'and some(result)[1] <= len(string))',
                 # C09: the title is the text between the delimiters, verbatim
                 ("implies(not is_none(result), some(result)[2] == string[offset + 1:some(result)[1] - 1])",
                  ['C09', 'C07']),
                 ("implies(not is_none(result), offset + 2 <= some(result)[1] and (string[offset] == '\"' or string[offset] == \"'\" "
                  "or string[offset] == '('))", ['C09', 'C07'])],
        loops={0: Loop(invariant=[])},
        prop=['C01', 'C07']), classmethod_=True)
    mr = m.contracts[MOD + ':Footnote.match_reference']
    mr.trusted = False
    mr.note = 'verified: a recognised definition ends just after a line ending beyond the offset'
    mr.prop = ['C01', 'C07']
    # C09: what a definition hands to the Markdown renderer (and to append_footnotes, which does the unescaping)
    # is the source spelling: label, destination and title are slices of the scanned text
    mr.ensures = mr.ensures + [
        ("implies(not is_none(result), offset <= g_ls and g_ls + 2 <= g_le and g_le < g_ds and g_ds <= g_de "
         "and g_de <= len(string) and some(result)[1][0] == string[g_ls + 1:g_le - 1])", ['C09', 'C07']),
        ("implies(not is_none(result), some(result)[1][1] == (string[g_ds + 1:g_de - 1] "
         "if some(result)[1][3] == 'angle_uri' else string[g_ds:g_de]))", ['C09', 'C07']),
        ("implies(not is_none(result), some(result)[1][2] == '' or (g_de < g_ts and g_ts + 2 <= g_te and g_te <= len(string) "
         "and some(result)[1][2] == string[g_ts + 1:g_te - 1]))", ['C09', 'C07']),
        ("implies(not is_none(result), (some(result)[1][3] == 'angle_uri' or some(result)[1][3] == 'uri') and "
         "(some(result)[1][3] == 'angle_uri') == (string[g_ds] == '<') and "
         "implies(not is_none(some(result)[1][4]), some(some(result)[1][4]) == string[g_ts] and (string[g_ts] == '\"' or "
         "string[g_ts] == \"'\" or string[g_ts] == '(')))", ['C09', 'C07'])]
    mr.ghost_init = {'g_ls': (INT, '0'), 'g_le': (INT, '0'), 'g_ds': (INT, '0'), 'g_de': (INT, '0'),
                     'g_ts': (INT, '0'), 'g_te': (INT, '0')}
    mr.ghost_after = {'_, label_end, label = match_info': [('g_ls', 'some(match_info)[0]'), ('g_le', 'label_end')],
                      '_, dest_end, dest = match_info': [('g_ds', 'dest_start'), ('g_de', 'dest_end')],
                      '_, title_end, title = match_info': [('g_ts', 'title_start'), ('g_te', 'title_end')]}
    mr.loops = {0: Loop(invariant=['title_end <= line_end', 'line_end <= len(string)'], decreases='len(string) - line_end')}
    mr.body_types = {}


def build13(m):
    """Closing condition of a code fence (C03, C02) and the paragraph-interruption rule of lists (C14, C03)."""
    def method(cls, name, c, static=False, classmethod_=False):
        m.methods[(cls, name)] = c.key
        c.is_static = static
        c.is_classmethod = classmethod_
        m.add(c)
        return c
    cf = m.contracts[MOD + ':CodeFence.read']
    # spec 4.5: the closing fence is indented at most 3 spaces, starts with the opening fence (same
    # character, at least as long) and is followed by nothing but blanks
    cf.ghost_before = {'break': [
        ('__assert__', ('diff < 4', ['C03', 'C02'])),
        ('__assert__', ('stripped_line.startswith(some(CodeFence._open_info)[1])', ['C03', 'C02'])),
        ('__assert__', ("stripped_line.rstrip().strip(some(CodeFence._open_info)[1][0]) == ''", ['C03', 'C02'])),
    ]}
    cf.prop = sorted(set(cf.prop) | {'C03', 'C02'})
    method('List', 'check_interrupts_paragraph', Contract(
        MOD + ':List.check_interrupts_paragraph', [('cls', cls_t('List')), ('lines', FW)], returns=BOOL,
        requires=['CURSOR_OK(lines)', 'lines._index + 1 < len(lines.lines)'],
        ensures=['lines._index == old(lines._index)',
                 # spec 5.2: only a non-empty item that is a bullet or an ordered item numbered 1 may interrupt a paragraph
                 ('implies(result, is_marker(lines.lines[lines._index + 1]))', ['C14', 'C03']),
                 ("implies(result, g_content.strip() != '' and (not g_leader[0].isdigit() or g_leader == '1.' or g_leader == '1)'))",
                  ['C14', 'C03'])],
        ghost_init={'g_leader': (STR, "'-'"), 'g_content': (STR, "''")},
        ghost_after={'_, _, leader, content = marker_tuple': [('g_leader', 'leader'), ('g_content', 'content')]},
        pure=True, prop=['C01', 'C14', 'C03']), classmethod_=True)


def build14(m):
    """parse_continuation verified against the capture contract of continuation_pattern (C01)."""
    MCP = TRef('MatchCP')
    m.classes['MatchCP'] = {}
    m.ufunc('cp_matches', [STR], BOOL)
    m.ufunc('cp_group', [MCP, INT], STR)
    m.class_attrs[('ListItem', 'continuation_pattern')] = ('const', mk_obj('pattern', 'ListItem.continuation_pattern'))
    m.add(Contract('re:ListItem.continuation_pattern.match', [('s', STR)], returns=TOpt(MCP), trusted=True, pure=True,
                   ensures=['is_none(result) == (not cp_matches(s))',
                            # group 2 runs from the first non-blank character to the end of the matched line
                            'implies(not is_none(result), s.endswith(cp_group(some(result), 2)))',
                            # on a line with a single, final newline the match covers the whole line:
                            # group 1 (the blanks) followed by group 2
                            "implies(not is_none(result) and not ('\\n' in s[:-1]), "
                            's == cp_group(some(result), 1) + cp_group(some(result), 2))'],
                   note='A5 capture contract of ([ \\t]*)(\\S.*\\n|\\n): the pattern does NOT match every line '
                        '(a line that continues with non-ASCII whitespace after the blanks has no match)'))
    m.methods[('MatchCP', 'group')] = 're:MatchCP.group'
    m.add(Contract('re:MatchCP.group', [('self', MCP), ('n', INT)], returns=STR, trusted=True, pure=True,
                   ensures=['result == cp_group(self, n)',
                            # group 2 is (\\S.*\\n|\\n): it ends with the line terminator
                            "implies(n == 2, result.endswith('\\n'))"]))
    c = m.contracts[MOD + ':ListItem.parse_continuation']
    c.trusted = False
    c.note = 'verified against the capture contract re:ListItem.continuation_pattern.match'
    c.prop = ['C01']
    # LINES_NL: a continuation line handed to the nested tokenization ends with its terminator
    c.ensures = list(c.ensures) + ["implies(not is_none(result), some(result).endswith('\\n'))",
                                   # C04: only the indentation is rewritten (tabs to columns, the item's offset removed);
                                   # the text of the line from its first non-blank character on is kept verbatim
                                   ("implies(not is_none(result), line.endswith(g_g2) and some(result).endswith(g_g2))", ['C04', 'C03']),
                                   ("implies(not is_none(result), len(g_g2) >= 1)", ['C04', 'C03']),
                                   # C04 (list-indenting wraps the parse): a non-blank, tab-free line indented by at least
                                   # the item's content offset is handed on with exactly that offset removed
                                   ("implies(not is_none(result) and not ('\\t' in line) and not ('\\n' in line[:-1]) and g_g2 != '\\n' "
                                    "and prepend >= 0, some(result) == line[prepend:])", 'C04')]
    c.ghost_init = {'g_g2': (STR, "''")}
    c.ghost_after = {'match_obj = cls.continuation_pattern.match(line)': [
        ('g_g2', "cp_group(some(match_obj), 2) if not is_none(match_obj) else ''")]}
    c.prop = ['C01', 'C04', 'C03']


def build15(m):
    """Table.__init__ (C13): the header row reports the table's line, body row i the line
    start + 2 + i - also for rows with identical text.  The rows are built by a comprehension of
    constructor calls (pyvc listcomp_ctor)."""
    def method(cls, name, c, static=False, classmethod_=False):
        m.methods[(cls, name)] = c.key
        c.is_static = static
        c.is_classmethod = classmethod_
        m.add(c)
        return c
    ROW = TRef('TableRow')
    ALIGN = TList(TOpt(INT))
    m.classes['TableRow'] = {'line_number': INT}
    m.classes['Table'] = {'column_align': ALIGN, 'header': ROW, 'children': TList(ROW)}
    ns = m.namespaces[MOD]
    ns['TableRow'] = ('class', 'TableRow')
    method('TableRow', '__init__', Contract(
        MOD + ':TableRow.__init__', [('self', ROW), ('line', STR), ('row_align', TOpt(ALIGN), NONE_VAL), ('line_number', INT, mk_int(0))],
        trusted=True, ensures=['self.line_number == line_number'], modifies=['self.line_number'],
        note='TableRow.__init__ stores its line_number argument (first statements of the constructor); its cell '
             'comprehension over zip_longest is outside the subset'))
    method('Table', 'split_delimiter', Contract(
        MOD + ':Table.split_delimiter', [('cls', cls_t('Table')), ('delimiter_row', STR)], returns=TList(STR),
        trusted=True, pure=True, ensures=['forall(lambda i: len(result[i]) >= 1, 0, len(result))'],
        note='A5: column_align_pattern.findall returns non-empty matches of :?-+:?'), classmethod_=True)
    method('Table', 'parse_align', Contract(
        MOD + ':Table.parse_align', [('column', STR)], returns=TOpt(INT), pure=True,
        requires=['len(column) >= 1'],
        ensures=[('is_none(result) or some(result) == 0 or some(result) == 1', ['C12', 'C08'])],
        prop=['C01']), static=True)
    method('Table', '__init__', Contract(
        MOD + ':Table.__init__', [('self', TRef('Table')), ('match', TTuple([TList(STR), INT]))],
        requires=['len(match[0]) >= 2'],
        ensures=[("implies('-' in match[0][1], self.header.line_number == match[1])", 'C13'),
                 ("implies('-' in match[0][1], len(self.children) == len(match[0]) - 2)", 'C13'),
                 ("implies('-' in match[0][1], forall(lambda i: self.children[i].line_number == match[1] + 2 + i, 0, len(self.children)))", 'C13'),
                 ("implies(not ('-' in match[0][1]), len(self.children) == len(match[0]) and "
                  "forall(lambda i: self.children[i].line_number == match[1] + i, 0, len(self.children)))", 'C13')],
        modifies=['self.column_align', 'self.header', 'self.children', 'N:TableRow.line_number'],
        prop=['C01', 'C13'],
        note='requires: Table.read returns at least the header and the delimiter row'))


def build16(m):
    """TableRow.__init__ (C13): the row and every cell built for it report the row's line; the row
    has one cell per column or per source cell, whichever is more."""
    def method(cls, name, c, static=False, classmethod_=False):
        m.methods[(cls, name)] = c.key
        c.is_static = static
        c.is_classmethod = classmethod_
        m.add(c)
        return c
    ROW = TRef('TableRow')
    CELL = TRef('TableCell')
    ALIGN = TList(TOpt(INT))
    m.classes['TableRow'] = {'line_number': INT, 'row_align': ALIGN, 'children': TList(CELL)}
    m.classes['TableCell'] = {'line_number': INT}
    ns = m.namespaces[MOD]
    ns['TableCell'] = ('class', 'TableCell')
    ns['zip_longest'] = ('builtin_like', 'zip_longest')
    m.class_attrs[('TableRow', 'split_pattern')] = ('const', mk_obj('pattern', 'TableRow.split_pattern'))
    m.class_attrs[('TableRow', 'escaped_pipe_pattern')] = ('const', mk_obj('pattern', 'TableRow.escaped_pipe_pattern'))
    m.add(Contract('re:TableRow.split_pattern.split', [('s', STR)], returns=TList(STR), trusted=True, pure=True,
                   ensures=['len(result) >= 1'], note='A5: re.split returns at least one piece'))
    m.add(Contract('re:TableRow.escaped_pipe_pattern.sub', [('repl', STR), ('s', STR)], returns=STR, trusted=True, pure=True,
                   note='A5: re.sub returns a string'))
    method('TableCell', '__init__', Contract(
        MOD + ':TableCell.__init__', [('self', CELL), ('content', STR), ('align', TOpt(INT), NONE_VAL), ('line_number', INT, mk_int(0))],
        trusted=True, ensures=['self.line_number == line_number'], modifies=['self.line_number'],
        note='TableCell.__init__ stores its line_number argument; its inline content is parsed by span_token.tokenize_inner'))
    c = m.contracts[MOD + ':TableRow.__init__']
    c.trusted = False
    c.note = 'verified (comprehension of TableCell constructors over zip_longest)'
    c.ensures = ['self.line_number == line_number',
                 ('forall(lambda i: self.children[i].line_number == line_number, 0, len(self.children))', 'C13'),
                 ('len(self.children) >= len(self.row_align)', 'C12')]
    c.modifies = ['self.line_number', 'self.row_align', 'self.children', 'N:TableCell.line_number']
    c.prop = ['C01', 'C13']
    c.body_types = {}


def build17(m):
    """The remaining paragraph interrupters refine the INTERRUPTER protocol (C01, C05): they look at
    the next line only and leave the cursor where it was; Footnote.start."""
    def method(cls, name, c, static=False, classmethod_=False):
        m.methods[(cls, name)] = c.key
        c.is_static = static
        c.is_classmethod = classmethod_
        m.add(c)
        return c
    REQ = ['CURSOR_OK(lines)', 'lines._index + 1 < len(lines.lines)']
    ENS = ['lines._index == old(lines._index)', 'CURSOR_OK(lines)']
    method('Heading', 'check_interrupts_paragraph', Contract(
        MOD + ':Heading.check_interrupts_paragraph', [('cls', cls_t('Heading')), ('lines', FW)], returns=BOOL,
        requires=REQ, ensures=ENS + ['result == heading_matches(lines.lines[lines._index + 1])'],
        modifies=['G:Heading.level', 'G:Heading.content', 'G:Heading.closing_sequence'],
        prop=['C01', 'C05']), classmethod_=True)
    method('Quote', 'check_interrupts_paragraph', Contract(
        MOD + ':Quote.check_interrupts_paragraph', [('cls', cls_t('Quote')), ('lines', FW)], returns=BOOL,
        requires=REQ, ensures=ENS + ["implies(result, lines.lines[lines._index + 1].lstrip(' ').startswith('>'))"],
        prop=['C01', 'C05', 'C14']), classmethod_=True)
    method('CodeFence', 'check_interrupts_paragraph', Contract(
        MOD + ':CodeFence.check_interrupts_paragraph', [('cls', cls_t('CodeFence')), ('lines', FW)], returns=BOOL,
        requires=REQ, ensures=ENS, modifies=['G:CodeFence._open_info'],
        prop=['C01', 'C05']), classmethod_=True)
    method('HtmlBlock', 'check_interrupts_paragraph', Contract(
        MOD + ':HtmlBlock.check_interrupts_paragraph', [('cls', cls_t('HtmlBlock')), ('lines', FW)], returns=None,
        requires=REQ, ensures=ENS, modifies=['G:HtmlBlock._end_cond'],
        prop=['C01', 'C05']), classmethod_=True)
    method('Table', 'start', Contract(
        MOD + ':Table.start', [('line', STR)], returns=BOOL, pure=True,
        ensures=["result == ('|' in line)"], prop=['C01', 'C14']), static=True)
    method('Footnote', 'start', Contract(
        MOD + ':Footnote.start', [('cls', cls_t('Footnote')), ('line', STR)], returns=BOOL, pure=True,
        ensures=["result == line.lstrip().startswith('[')",
                 # C14: only a line whose first non-blank character is '[' is tried as a definition
                 ("implies(result, '[' in line)", 'C14')],
        prop=['C01', 'C14']), classmethod_=True)
