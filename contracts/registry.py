"""Which contracts / lemma generators serve which property, with levels and trusted base."""
import importlib
import json
import os

MODULES = ['m_block_tokenizer', 'm_block_token', 'm_span_tokenizer', 'm_core_tokens', 'm_state', 'm_toc', 'm_markdown', 'm_contrib']
LEMMA_MODULES = ['l_patterns', 'l_html', 'l_latex', 'l_classes', 'l_redos']          # modules exporting LEMMAS = {key: (fn, [props])}

_model = None


def model():
    global _model
    if _model is None:
        from pyvc.model import Model
        m = Model()
        for name in MODULES:
            mod = importlib.import_module('contracts.' + name)
            for fn in ['build'] + ['build%d' % i for i in range(2, 20)]:
                if hasattr(mod, fn):
                    getattr(mod, fn)(m)
        kf = os.path.join(os.path.dirname(os.path.dirname(__file__)), 'known_findings.json')
        if os.path.exists(kf):
            for f in json.load(open(kf)).get('findings', []):
                if f.get('kind') == 'obligation':
                    m.unassumed.add(f['obligation'])
        _model = m
    return _model


def _clause_props(c):
    """Every property a contract serves: its own tags and the tags of each tagged clause, wherever
    the clause sits (post, exceptional post, call assert, yield assert, ghost assert)."""
    out = set(c.prop)

    def tag(e):
        if isinstance(e, tuple) and len(e) == 2 and isinstance(e[1], (str, list, tuple)):
            t = [e[1]] if isinstance(e[1], str) else list(e[1])
            if all(isinstance(x, str) and len(x) == 3 and x[0] == 'C' and x[1:].isdigit() for x in t):
                out.update(t)
    for e in list(c.ensures) + list(c.ensures_exc) + list(c.yield_asserts) + list(c.requires):
        tag(e)
    for lst in (c.call_asserts or {}).values():
        for e in lst:
            tag(e)
    for d in (c.ghost_after or {}, c.ghost_before or {}):
        for upd in d.values():
            for g, e in upd:
                if g in ('__assert__', '__assume__'):
                    tag(e)
    return out


_lemmas = None


def lemmas():
    global _lemmas
    if _lemmas is None:
        _lemmas = {}
        for name in LEMMA_MODULES:
            mod = importlib.import_module('contracts.' + name)
            _lemmas.update(mod.LEMMAS)
    return _lemmas


def lemma(key):
    return lemmas()[key][0]


def tasks(pid, tier='quick'):
    m = model()
    out = []
    for key, c in m.contracts.items():
        if c.trusted or key.startswith(('protocol:', 're:', 'stdlib:')):
            continue
        if c.options.get('tier') == 'thorough' and tier != 'thorough':
            continue      # expensive quantified proofs run in the thorough tier only
        if pid in _clause_props(c):
            out.append(('pyvc', key))
    for key, (fn, props) in lemmas().items():
        if pid in props:
            out.append(('lemma', key))
    return out


def trusted_contracts(pid):
    m = model()
    return sorted(k for k, c in m.contracts.items() if c.trusted or k.startswith(('protocol:', 're:', 'stdlib:')))


GENERAL_ASSUMPTIONS = [
    'encoding: Python int as mathematical Int (exact); single-threaded; no MemoryError/KeyboardInterrupt; RecursionError outside the model',
    'encoding: attribute lookup follows the statically known class (no monkey-patching during a call); list iteration in index order',
    'A1: str operations mapped to SMT-LIB strings behave as SMT-LIB defines them on code-point sequences (cross-checked against CPython by vlib.crosscheck)',
    'A3: str.strip/lstrip/rstrip characterised by instance facts that are consequences of "s = p ++ r ++ q, p,q in C*" (light axioms; see pyvc/engine.py strip_like)',
    'A5: regex call sites are replaced by assumed capture contracts (keys re:*); only what each contract states is used',
    'data invariant LINES_NL: every element of a FileWrapper line list ends with "\\n" (established by Document.__init__; assumed for nested readers)',
    'protocol contracts (keys protocol:*) for dynamically dispatched token classes are assumed at call sites; each bundled class is separately checked to refine them where it is under contract',
    'no two live l-values alias the same list within one function under contract (lists are encoded as values with write-back)',
]


def assumptions(pid):
    out = list(GENERAL_ASSUMPTIONS)
    out += list(PROPS[pid].get('assumptions', []))
    return out


def trusted_base(pid):
    return ['z3 4.x/5.1 (Python API) and /usr/bin/cvc5 1.0.3 as SMT back ends',
            'pyvc VC generator (this repository: /verif/pyvc), cross-checked against CPython and by mutation self-test',
            'CPython ast module for reading the function bodies from the working tree'] + \
           ['trusted contract: ' + k for k in trusted_contracts(pid)][:200]


def expected_count(pid):
    p = os.path.join(os.path.dirname(__file__), 'EXPECTED_COUNTS.json')
    if os.path.exists(p):
        return json.load(open(p)).get(pid, 0)
    return 0


def P(level, explanation, **kw):
    d = {'level': level, 'explanation': explanation}
    d.update(kw)
    return d


PROPS = {
    'C01': P('other', 'deductive: cursor progress, loop variants and index/None safety of the block readers and tokenizers under contract; bounded: no-raise contract on the whole pipeline over enumerated inputs x 11 renderers'),
    'C02': P('other', 'bounded (exhaustive over the finite corpus): all 652 vendored examples compared with the spec normalisation; deductive part limited to pattern-language lemmas'),
    'C03': P('other', 'bounded: generated trees x spellings vs HTML written from the tree; deductive: pattern/capture lemmas'),
    'C04': P('other', 'deductive: marker-strip and buffer/cursor correspondence in Quote.read/ListItem.read; bounded: wrap law over enumerated texts'),
    'C05': P('other', 'deductive: no look-behind, exact hand-over at blank lines, line-number shift; bounded: pair law over enumerated (A,B)'),
    'C06': P('other', 'deductive: flanking tables, rule-of-three arithmetic, delimiter invariant; bounded: exhaustive strings against an independent spec model'),
    'C07': P('other', 'deductive: first-wins frame, same normaliser at store and lookup, phase separation; bounded: scanner vs spec grammar and placements'),
    'C08': P('proof', 'deductive: escapers as character homomorphisms, sink typing of every HTML template, skeleton balance, suppress-stack frame; bounded: well-formedness monitor'),
    'C09': P('other', 'bounded: round-trip contracts over spec corpus and generated documents; deductive: helper lemmas of line assembly'),
    'C10': P('other', 'deductive: greedy-fill postcondition and budget arithmetic; bounded: meaning/limit/idempotence over documents x L'),
    'C11': P('proof', 'deductive: restore-on-every-exit for each global (normal and exceptional postconditions), reset on context exit; bounded: history enumeration'),
    'C12': P('other', 'deductive: parent stamping, child-kind typing, ranges, traverse invariant; bounded: well_formed(doc) monitor'),
    'C13': P('proof', 'deductive: line_number == start_line + index of the first consumed line through every nested hand-off; bounded: generator with known line numbers'),
    'C14': P('other', 'deductive: block-start pattern languages against the specification; bounded: inert-paragraph enumeration'),
    'C15': P('other', 'deductive: one line-normal form for str/list/file input; bounded: CLI subprocess runs'),
    'C16': P('proof', 'deductive: relation case analysis, precedence rule, children sorted/disjoint/nested invariant; bounded: 13 Allen relations x precedences with real custom tokens'),
    'C17': P('proof', 'deductive: LaTeX text escaper as homomorphism, sink typing, brace/environment skeleton balance; bounded: balance monitor'),
    'C18': P('proof', 'deductive: override-set frame per subclass, pass-through VCs, extension-cannot-fire language lemmas; bounded: differential on enumerated inputs'),
    'C19': P('other', 'deductive: render_heading collection postcondition; bounded: outline enumeration'),
}
