"""Function-level replay of refuted obligations on the real code (DESIGN.md section 4).

The solver's counter-model (entry values of parameters and of the heap fields reachable from
them) is turned into real objects, the real function from the working tree is called, and the
failed contract clause is evaluated natively on the observed result.  `reproduced` is True only
if the clause is false natively (or the real call raised where the contract forbids it)."""
import ast
import copy
import importlib
import sys
import traceback


def _use_repo(repo):
    if repo not in sys.path:
        sys.path.insert(0, repo)
    for k in list(sys.modules):
        if k == 'mistletoe' or k.startswith('mistletoe.'):
            f = getattr(sys.modules[k], '__file__', '') or ''
            if not f.startswith(repo):
                del sys.modules[k]


class Namespace(dict):
    pass


def forall(fn, *rng):
    import itertools
    n = fn.__code__.co_argcount
    ranges = [range(rng[2 * i], rng[2 * i + 1]) for i in range(n)] if len(rng) >= 2 * n else None
    if ranges is None:
        raise ValueError('unbounded forall cannot be evaluated natively')
    return all(fn(*xs) for xs in itertools.product(*ranges))


def base_ns(model):
    ns = {
        'implies': lambda a, b: (not a) or b,
        'iff': lambda a, b: bool(a) == bool(b),
        'ite': lambda c, a, b: a if c else b,
        'forall': forall,
        'is_none': lambda v: v is None,
        'some': lambda v: v,
        'same': lambda a, b: a == b,
        'len': len, 'max': max, 'min': min,
    }
    for name, (params, body) in model.predicates.items():
        try:
            ns[name] = eval('lambda %s: %s' % (', '.join(params), body), ns)
        except SyntaxError:
            pass
    return ns


def eval_clause(clause, model, pre_ns, post_ns):
    """Evaluate a contract clause natively; old(e) is evaluated in pre_ns."""
    tree = ast.parse(clause.strip(), mode='eval')
    olds = {}

    class R(ast.NodeTransformer):
        def visit_Call(self, node):
            if isinstance(node.func, ast.Name) and node.func.id == 'old':
                name = '__old_%d' % len(olds)
                expr = ast.Expression(node.args[0])
                ast.fix_missing_locations(expr)
                ns = base_ns(model)
                ns.update(pre_ns)
                olds[name] = eval(compile(expr, '<old>', 'eval'), ns)
                return ast.copy_location(ast.Name(id=name, ctx=ast.Load()), node)
            return self.generic_visit(node)
    tree = R().visit(tree)
    ast.fix_missing_locations(tree)
    ns = base_ns(model)
    ns.update(post_ns)
    ns.update(olds)
    return eval(compile(tree, '<clause>', 'eval'), ns)


# ---- object builders -------------------------------------------------------------------------
def build_parse_token(m, prefix, mods):
    st = mods['mistletoe.span_tokenizer']
    pt = st.ParseToken.__new__(st.ParseToken)
    for f in ('start', 'end', 'parse_start', 'parse_end', 'rank'):
        setattr(pt, f, m.get('%s.%s' % (prefix, f), 0))
    pt.string = m.get(prefix + '.string', '')
    pt.children = []
    pt.match = None
    pt.fallback_token = None
    return pt


def build_file_wrapper(m, prefix, mods):
    bt = mods['mistletoe.block_tokenizer']
    lines = m.get(prefix + '.lines') or []
    lines = [l for l in lines if isinstance(l, str) and not l.startswith('... (')]
    fw = bt.FileWrapper(list(lines), start_line=m.get(prefix + '.start_line', 1))
    fw._index = m.get(prefix + '._index', -1)
    return fw


def build_rtok(m, prefix, depth=0):
    """A token as the contrib renderers see it (model class RTok): attributes the methods branch on,
    children as further stand-in tokens (a counter-model only fixes the child count and identities)."""
    import types
    kids = m.get(prefix + '.children')
    n = len([k for k in (kids or []) if not (isinstance(k, str) and k.startswith('... ('))]) if isinstance(kids, list) else 0
    tok = types.SimpleNamespace(children=[], start=m.get(prefix + '.start'), soft=bool(m.get(prefix + '.soft', False)),
                                content=m.get(prefix + '.content', ''), footnotes={})
    if depth < 2:
        tok.children = [types.SimpleNamespace(children=[], start=None, soft=False, content='', footnotes={}) for _ in range(min(n, 8))]
    if m.get(prefix + '.__has_header'):
        tok.header = types.SimpleNamespace(children=[], start=None, soft=False, content='', footnotes={})
    return tok


def build_contrib_renderer(m, prefix, module, qual):
    """A real JiraRenderer / XWiki20Renderer whose context stacks hold what the counter-model says;
    render(child) of the stand-in children returns '' (the induction hypothesis of the contract)."""
    owner = importlib.import_module(module)
    cls = getattr(owner, qual.split('.')[0])
    r = cls()
    for f in ('listTokens', 'lastChildOfQuotes', 'firstChildOfListItems'):
        v = m.get('%s.%s' % (prefix, f))
        if hasattr(r, f) and isinstance(v, list):
            setattr(r, f, [x if isinstance(x, str) and not x.startswith('... (') else None for x in v][:64])
    r.render = lambda token: ''
    return r


def native_search(c, target, clause, model, cm, max_len=3, budget=40000):
    """Smallest input (strings over a small alphabet, small ints) on which the real function breaks
    the clause while every precondition holds natively.  A replay aid only: never a verdict."""
    import itertools
    chars = set(' \t\n>a-1.')
    for v in cm.values():
        if isinstance(v, str):
            chars |= set(v[:6])
    chars = sorted(chars)[:10]
    strings = ['']
    for n in range(1, max_len + 1):
        strings += [''.join(t) for t in itertools.product(chars, repeat=n)]
    doms = []
    names = []
    for (pn, pt, *_r) in c.params:
        k = pt.key()
        if k.startswith('Obj['):
            continue
        names.append(pn)
        doms.append(strings if k == 'Str' else ([0, 1, 2, 3, -1] if k == 'Int' else [False, True]))
    tried = 0
    for combo in itertools.product(*doms):
        tried += 1
        if tried > budget:
            return None
        args = dict(zip(names, combo))
        try:
            if not all(eval_clause(rq[0] if isinstance(rq, tuple) else rq, model, args, args) for rq in c.requires):
                continue
            observed = target(**args)
            post = dict(args)
            post['result'] = observed
            if not eval_clause(clause, model, args, post):
                return {'args': args, 'observed': observed}
        except Exception:
            continue
    return None


def replay(pid, ob, repo):
    from contracts import registry
    model = registry.model()
    key = ob.get('function') or ''
    cm = ob.get('model') or {}
    base = key.split('#')[0]
    if base not in model.contracts and key not in model.contracts:
        return {'reproduced': False, 'reason': 'no contract record for %s' % key}
    c = model.contracts.get(key) or model.contracts[base]
    _use_repo(repo)
    try:
        mods = {}
        for mn in ('mistletoe.block_tokenizer', 'mistletoe.span_tokenizer', 'mistletoe.block_token',
                   'mistletoe.core_tokens', 'mistletoe.span_token'):
            mods[mn] = importlib.import_module(mn)
        module, qual = base.split(':')
        target = importlib.import_module(module)
        for part in qual.split('.'):
            target = getattr(target, part)
        args = {}
        classes = {}
        for (pn, pt, *rest) in c.params:
            tk = pt.key() if pt is not None else ''
            pre = 'entry:' + pn
            if tk == 'Ref[ParseToken]':
                pt_obj = build_parse_token(cm, pre, mods)
                cid = cm.get(pre + '.cls', 0)
                if cid not in classes:
                    classes[cid] = type('ReplayCls%s' % cid, (), {
                        'precedence': cm.get(pre + '.cls.precedence', 5),
                        'parse_inner': cm.get(pre + '.cls.parse_inner', True),
                        'parse_group': cm.get(pre + '.cls.parse_group', 1)})
                pt_obj.cls = classes[cid]
                args[pn] = pt_obj
            elif tk == 'Ref[FileWrapper]':
                args[pn] = build_file_wrapper(cm, pre, mods)
            elif tk in ('Ref[JiraR]', 'Ref[XWikiR]'):
                args[pn] = build_contrib_renderer(cm, pre, module, qual)
            elif tk == 'Ref[RTok]':
                args[pn] = build_rtok(cm, pre)
            elif pn == 'self' and qual.endswith('.__init__') and tk.startswith('Ref['):
                # constructor replay: a blank instance of the real class, then the real __init__
                owner = importlib.import_module(module)
                for part in qual.split('.')[:-1]:
                    owner = getattr(owner, part)
                args[pn] = object.__new__(owner)
            elif tk.startswith('Obj['):
                continue
            elif pre in cm and not isinstance(cm[pre], dict):
                args[pn] = cm[pre]
            else:
                return {'reproduced': False, 'reason': 'no native constructor for parameter %s: %s' % (pn, tk)}
        # abstract class attributes of SpanCls objects are not in the entry model: take the
        # values the solver chose for them if present
        for cid, cls in classes.items():
            for f in ('precedence', 'parse_inner', 'parse_group'):
                v = cm.get('cls%s.%s' % (cid, f))
                if v is not None:
                    setattr(cls, f, v)
        pre_ns = copy.deepcopy(args)
        if ob.get('candidate_input'):
            # a candidate input (not a solver counterexample) must satisfy every precondition natively,
            # otherwise a failure on it says nothing about the contract
            for rq in c.requires:
                rq_text = rq[0] if isinstance(rq, tuple) else rq
                try:
                    ok_pre = eval_clause(rq_text, model, pre_ns, pre_ns)
                except Exception as e:  # noqa
                    return {'reproduced': False, 'reason': 'precondition not evaluable natively on the candidate input: %s (%r)' % (rq_text[:80], e)}
                if not ok_pre:
                    return {'reproduced': False, 'reason': 'candidate input violates the precondition %s' % rq_text[:120]}
        call_args = dict(args)
        observed = None
        raised = None
        try:
            observed = target(**call_args)
        except Exception as e:  # noqa
            raised = '%s: %s' % (type(e).__name__, e)
        clause = ob.get('text') or ''
        def _r(v):
            try:
                return repr(v)[:300]
            except Exception:
                return '<%s instance>' % type(v).__name__
        info = {'function': base, 'inputs': {k: _r(v) for k, v in args.items() if k != 'self' or not qual.endswith('.__init__')},
                'observed': repr(observed)[:300], 'raised': raised, 'clause': clause}
        if raised is not None:
            info['reproduced'] = ob.get('kind') in ('noraise', 'post', 'pre')
            return info
        if ob.get('kind') not in ('post', 'post-exc') or not clause:
            info['reproduced'] = False
            info['reason'] = 'obligation kind %s has no native predicate' % ob.get('kind')
            return info
        post_ns = dict(args)
        post_ns['result'] = observed
        for pn in [mm[2:] for mm in c.modifies if mm.startswith('P:')]:
            post_ns['new_' + pn] = args[pn]
            post_ns[pn] = pre_ns[pn]
        try:
            ok = eval_clause(clause, model, pre_ns, post_ns)
        except Exception as e:
            info['reproduced'] = False
            info['reason'] = 'clause not evaluable natively: %r' % (e,)
            return info
        info['clause_value'] = bool(ok)
        info['reproduced'] = not ok
        if ok and all((pt is not None and pt.key() in ('Str', 'Int', 'Bool')) or (pt is not None and pt.key().startswith('Obj['))
                      for (_pn, pt, *_r) in c.params):
            # the counter-model does not replay (string functions such as strip are only partially
            # axiomatised, so a model may choose results CPython never gives): look for a real failing
            # input of the real function among short strings over the model's characters
            found = native_search(c, target, clause, model, cm)
            if found is not None:
                info['solver_model_replayed'] = False
                info['inputs'] = {k: repr(v) for k, v in found['args'].items()}
                info['observed'] = repr(found['observed'])[:300]
                info['clause_value'] = False
                info['reproduced'] = True
                info['found_by'] = 'native enumeration of short inputs after the counter-model failed to replay'
        return info
    except Exception:
        return {'reproduced': False, 'error': traceback.format_exc()[-1200:]}
