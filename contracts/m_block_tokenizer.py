"""Sidecar contracts for mistletoe/block_tokenizer.py (C01, C05, C13)."""
from pyvc.types import *  # noqa
from pyvc.model import Contract, Loop

MOD = 'mistletoe.block_tokenizer'
FW = TRef('FileWrapper')
BLOCKCLS = TRef('BlockCls')
READRES = TRef('ReadResult')
TRIPLE = TTuple([BLOCKCLS, READRES, INT])
PB = TRef('ParseBuffer')


def build(m):
    m.classes['FileWrapper'] = {'lines': TList(STR), 'start_line': INT, '_index': INT, '_anchor': INT}
    # data-structure invariant of the reader (LINES_OK, newline part): every line ends with '\n'
    m.elem_inv[('FileWrapper', 'lines')] = "x.endswith('\\n')"
    m.classes['ParseBuffer'] = {'items': TList(TRIPLE), 'loose': BOOL}
    m.listlike['ParseBuffer'] = 'items'
    m.classes['BlockCls'] = {}
    m.classes['ReadResult'] = {}
    m.classes['Token'] = {'line_number': INT}
    m.namespaces[MOD] = {
        'FileWrapper': ('class', 'FileWrapper'),
        'ParseBuffer': ('class', 'ParseBuffer'),
        'tokenize_block': ('func', MOD + ':tokenize_block'),
        'make_tokens': ('func', MOD + ':make_tokens'),
    }

    # ---- shape predicates ---------------------------------------------------------------
    m.predicate('CURSOR_OK', ['fw'], '-1 <= fw._index and fw._index < len(fw.lines)')
    m.predicate('LINE_OK', ['l'], "l.endswith('\\n') and not ('\\n' in l[:-1])")
    m.predicate('LINES_OK', ['ls'], 'forall(lambda i: LINE_OK(ls[i]), 0, len(ls))')
    # ghost: the index (in the reader's line list) of the first line a read result covers
    m.ufunc('first_line', [READRES], INT)
    # ghost: start(line) of token class c returned truthy
    m.ufunc('started', [BLOCKCLS, STR], BOOL)

    P = ['C01', 'C05', 'C13']
    m.methods[('FileWrapper', '__init__')] = MOD + ':FileWrapper.__init__'
    m.add(Contract(MOD + ':FileWrapper.__init__',
                   [('self', FW), ('lines', TList(STR)), ('start_line', INT, mk_int(1))],
                   # data invariant LINES_NL is established here: whoever wraps a line list proves it
                   requires=[("forall(lambda i: lines[i].endswith('\\n'), 0, len(lines))", ['C01', 'C04', 'C15'])],
                   ensures=['same(self.lines, lines)', 'self.start_line == start_line',
                            'self._index == -1', 'CURSOR_OK(self)'],
                   modifies=['self.lines', 'self.start_line', 'self._index', 'self._anchor'], prop=P))
    m.methods[('FileWrapper', '__next__')] = MOD + ':FileWrapper.__next__'
    m.add(Contract(MOD + ':FileWrapper.__next__', [('self', FW)], returns=STR,
                   requires=['CURSOR_OK(self)'],
                   raises={'StopIteration': 'self._index + 1 >= len(self.lines)'},
                   ensures=['self._index == old(self._index) + 1',
                            'result == self.lines[self._index]', 'CURSOR_OK(self)'],
                   ensures_exc=['self._index == old(self._index)'],
                   modifies=['self._index'], prop=P))
    m.methods[('FileWrapper', 'peek')] = MOD + ':FileWrapper.peek'
    m.add(Contract(MOD + ':FileWrapper.peek', [('self', FW)], returns=TOpt(STR),
                   requires=['CURSOR_OK(self)'], pure=True,
                   ensures=['is_none(result) == (self._index + 1 >= len(self.lines))',
                            'implies(not is_none(result), some(result) == self.lines[self._index + 1])'],
                   prop=P))
    m.methods[('FileWrapper', 'backstep')] = MOD + ':FileWrapper.backstep'
    m.add(Contract(MOD + ':FileWrapper.backstep', [('self', FW)],
                   requires=['CURSOR_OK(self)'],
                   ensures=['self._index == (old(self._index) - 1 if old(self._index) != -1 else -1)',
                            'CURSOR_OK(self)'],
                   modifies=['self._index'], prop=P))
    m.methods[('FileWrapper', 'get_pos')] = MOD + ':FileWrapper.get_pos'
    m.add(Contract(MOD + ':FileWrapper.get_pos', [('self', FW)], returns=INT, pure=True,
                   ensures=['result == self._index'], prop=P))
    m.methods[('FileWrapper', 'set_pos')] = MOD + ':FileWrapper.set_pos'
    m.add(Contract(MOD + ':FileWrapper.set_pos', [('self', FW), ('pos', INT)],
                   requires=['-1 <= pos and pos < len(self.lines)'],
                   ensures=['self._index == pos', 'CURSOR_OK(self)'],
                   modifies=['self._index'], prop=P))
    m.methods[('FileWrapper', 'line_number')] = MOD + ':FileWrapper.line_number'
    m.add(Contract(MOD + ':FileWrapper.line_number', [('self', FW)], returns=INT, pure=True,
                   ensures=['result == self.start_line + self._index'], prop=['C13', 'C05']))

    # ---- ParseBuffer (a list subclass): trusted list semantics -----------------------------
    m.methods[('ParseBuffer', '__init__')] = MOD + ':ParseBuffer.__init__'
    m.add(Contract(MOD + ':ParseBuffer.__init__', [('self', PB)], trusted=True,
                   ensures=['len(self.items) == 0', 'self.loose == False'],
                   modifies=['self.items', 'self.loose'],
                   note='ParseBuffer subclasses list; list.__init__/append have their documented meaning (A8)'))
    m.methods[('ParseBuffer', 'append')] = MOD + ':ParseBuffer.append'
    m.add(Contract(MOD + ':ParseBuffer.append', [('self', PB), ('item', TRIPLE)], trusted=True,
                   ensures=['len(self.items) == len(old(self.items)) + 1',
                            'self.items[len(old(self.items))] == item',
                            'forall(lambda j: self.items[j] == old(self.items)[j], 0, len(old(self.items)))'],
                   modifies=['self.items']))

    # ---- the protocol every block token class must refine (READER / STARTER) ---------------
    m.methods[('BlockCls', 'start')] = 'protocol:BlockCls.start'
    m.add(Contract('protocol:BlockCls.start', [('self', BLOCKCLS), ('line', STR)], returns=BOOL,
                   trusted=True, ensures=['result == started(self, line)'],
                   modifies=['G:SCRATCH'], may_raise=['CustomTokenError'],
                   note='protocol contract; every bundled start() is proved to refine it'))
    m.methods[('BlockCls', 'read')] = 'protocol:BlockCls.read'
    m.add(Contract('protocol:BlockCls.read', [('self', BLOCKCLS), ('lines', FW)], returns=TOpt(READRES),
                   trusted=True,
                   requires=['CURSOR_OK(lines)', 'lines._index + 1 < len(lines.lines)',
                             'started(self, lines.lines[lines._index + 1])'],
                   ensures=['CURSOR_OK(lines)',
                            'implies(is_none(result), lines._index == old(lines._index))',
                            'implies(not is_none(result), old(lines._index) < lines._index)',
                            'implies(not is_none(result), first_line(some(result)) == old(lines._index) + 1)'],
                   ensures_exc=['CURSOR_OK(lines)'],
                   modifies=['lines._index', 'G:SCRATCH', 'G:FOOTNOTES'], may_raise=['CustomTokenError'],
                   note='READER protocol (DESIGN 5); every bundled read() is proved to refine it'))
    m.globals['SCRATCH'] = INT
    m.globals['FOOTNOTES'] = INT

    m.add(Contract(MOD + ':tokenize_block',
                   [('iterable', TList(STR)), ('token_types', TList(BLOCKCLS)), ('start_line', INT, mk_int(1))],
                   returns=PB,
                   requires=[("forall(lambda i: iterable[i].endswith('\\n'), 0, len(iterable))", ['C01', 'C04', 'C15'])],
                   ensures=[
                       # C13: every recorded line number is start_line + index of the first line
                       # consumed by that block's read()
                       'forall(lambda j: result.items[j][2] == start_line + first_line(result.items[j][1]), 0, len(result.items))',
                   ],
                   modifies=['N:FileWrapper._index', 'N:FileWrapper.lines', 'N:FileWrapper.start_line',
                             'N:FileWrapper._anchor', 'N:ParseBuffer.items', 'N:ParseBuffer.loose',
                             'G:SCRATCH', 'G:FOOTNOTES'],
                   allow_exc=['CustomTokenError'],
                   body_types={'line': TOpt(STR)},
                   loops={
                       0: Loop(invariant=[
                           'CURSOR_OK(lines)', 'same(lines.lines, iterable)', 'lines.start_line == start_line',
                           'is_none(line) == (lines._index + 1 >= len(lines.lines))',
                           'implies(not is_none(line), some(line) == lines.lines[lines._index + 1])',
                           'forall(lambda j: parse_buffer.items[j][2] == start_line + first_line(parse_buffer.items[j][1]), 0, len(parse_buffer.items))',
                       ], decreases='len(lines.lines) - 1 - lines._index'),
                       1: Loop(invariant=[
                           'CURSOR_OK(lines)', 'same(lines.lines, iterable)', 'lines.start_line == start_line',
                           'lines._index == at_loop(1, lines._index)',
                           'same(parse_buffer.items, at_loop(1, parse_buffer.items))',
                       ]),
                   }, prop=P))
