"""Sidecar contracts for mistletoe/span_tokenizer.py (C16, C01)."""
from pyvc.types import *  # noqa
from pyvc.model import Contract, Loop

MOD = 'mistletoe.span_tokenizer'
PT = TRef('ParseToken')
SPANCLS = TRef('SpanCls')
P = ['C16']


def build(m):
    m.classes['SpanCls'] = {'precedence': INT, 'parse_inner': BOOL, 'parse_group': INT}
    m.classes.setdefault('Match', {})
    m.classes['ParseToken'] = {'start': INT, 'end': INT, 'parse_start': INT, 'parse_end': INT,
                               'cls': SPANCLS, 'children': TList(PT), 'string': STR,
                               'match': TRef('Match'), 'fallback_token': SPANCLS}
    m.namespaces[MOD] = {
        'relation': ('func', MOD + ':relation'),
        'eval_tokens': ('func', MOD + ':eval_tokens'),
        'eval_new_child': ('func', MOD + ':eval_new_child'),
    }
    m.predicate('PT_OK', ['p'], '0 <= p.start and p.start <= p.parse_start and p.parse_start <= p.parse_end '
                                'and p.parse_end <= p.end')
    # children of p: in source order, pairwise disjoint, inside p's parse group
    m.predicate('KIDS_OK', ['p'],
                'forall(lambda i: PT_OK(p.children[i]) and p.parse_start <= p.children[i].start '
                'and p.children[i].end <= p.parse_end, 0, len(p.children)) and '
                'forall(lambda i: p.children[i].end <= p.children[i + 1].start, 0, len(p.children) - 1)')
    m.predicate('INSIDE_GROUP', ['x', 'y'], 'x.parse_start <= y.start and y.end <= x.parse_end')

    m.add(Contract(MOD + ':relation', [('x', PT), ('y', PT)], returns=INT, pure=True,
                   requires=['PT_OK(x)', 'PT_OK(y)', 'x.start <= y.start'],
                   ensures=[
                       # statement: disjoint <=> 0 ; inside the parse group <=> 2 (nests)
                       '(result == 0) == (x.end <= y.start)',
                       '(result == 2) == (not (x.end <= y.start) and INSIDE_GROUP(x, y))',
                       # what the code's fourth outcome means
                       '(result == 3) == (not (x.end <= y.start) and not INSIDE_GROUP(x, y) and x.parse_end <= y.start and y.end <= x.end)',
                       'result == 0 or result == 1 or result == 2 or result == 3',
                   ], prop=P))
    # ghost rank: position of the candidate in the sorted candidate list.  RANKED: children always
    # have a larger rank than their parent (so the child relation is acyclic and a call on a token
    # cannot touch tokens of smaller rank).
    m.classes['ParseToken']['rank'] = INT
    m.predicate('RANKED', [], "forall_ref('ParseToken', lambda p: forall(lambda i: p.children[i].rank > p.rank, 0, len(p.children)))")
    m.predicate('LAST_BEFORE', ['p', 'c'],
                'implies(len(p.children) > 0, p.children[len(p.children) - 1].start <= c.start)')
    # c is newer than every token that is already somebody's child
    m.predicate('NEWEST', ['c'], "forall_ref('ParseToken', lambda p: forall(lambda i: p.children[i].rank < c.rank, 0, len(p.children)))")
    # every existing child is an earlier candidate than c: smaller rank, start not after c's
    m.predicate('KIDS_BEFORE', ['c'], "forall_ref('ParseToken', lambda p: forall(lambda i: p.children[i].rank < c.rank and p.children[i].start <= c.start, 0, len(p.children)))")
    m.predicate('KIDS_UPTO', ['c'], "forall_ref('ParseToken', lambda p: forall(lambda i: p.children[i].rank <= c.rank and p.children[i].start <= c.start, 0, len(p.children)))")
    m.predicate('ALL_KIDS_OK', [], "forall_ref('ParseToken', lambda p: KIDS_OK(p) and PT_OK(p))")
    FRAME = "forall_ref('ParseToken', lambda p: implies(p.rank < self.rank, same(p.children, old(p.children))))"
    m.methods[('ParseToken', 'append_child')] = MOD + ':ParseToken.append_child'
    m.add(Contract(MOD + ':ParseToken.append_child', [('self', PT), ('child', PT)],
                   requires=['ALL_KIDS_OK()', 'RANKED()', 'KIDS_BEFORE(child)', 'INSIDE_GROUP(self, child)', 'child.rank > self.rank'],
                   ensures=['ALL_KIDS_OK()', 'RANKED()', 'KIDS_UPTO(child)', FRAME,
                            'implies(not self.cls.parse_inner, same(self.children, old(self.children)))'],
                   modifies=['F:ParseToken.children'], prop=P,
                   note='recursion through eval_new_child -> last_child.append_child is modular: the '
                        'recursive call is checked against this contract'))
    m.add(Contract(MOD + ':eval_new_child', [('parent', PT), ('child', PT)],
                   requires=['ALL_KIDS_OK()', 'RANKED()', 'KIDS_BEFORE(child)', 'len(parent.children) > 0',
                             'INSIDE_GROUP(parent, child)', 'child.rank > parent.rank'],
                   ensures=['ALL_KIDS_OK()', 'RANKED()', 'KIDS_UPTO(child)', FRAME.replace('self', 'parent')],
                   modifies=['F:ParseToken.children'], prop=P))
    # second view of eval_new_child: the precedence rule among the children of one parent, quantifier-free
    # (a counterexample to it is then found by the solver instead of timing out under the tree invariants)
    m.add(Contract(MOD + ':eval_new_child#precedence', [('parent', PT), ('child', PT)],
                   requires=['PT_OK(parent)', 'PT_OK(child)', 'len(parent.children) > 0',
                             'PT_OK(parent.children[len(parent.children) - 1])',
                             'parent.children[len(parent.children) - 1].start <= child.start'],
                   assume_callee_pre=True,
                   ensures=[
                            # C16, among the children of one parent: a match behind the last child is appended; on a
                            # conflict the higher precedence wins and a tie goes to the earlier match (the last child)
                            ('implies(old(parent.children)[len(old(parent.children)) - 1].end <= child.start, '
                             'len(parent.children) == len(old(parent.children)) + 1 and '
                             'parent.children[len(parent.children) - 1] == child)', ['C16', 'C02']),
                            ('implies(not (LASTC.end <= child.start) and not INSIDE_GROUP(LASTC, child) '
                             'and not (LASTC.parse_end <= child.start and child.end <= LASTC.end), '
                             'len(parent.children) == len(old(parent.children)) and parent.children[len(parent.children) - 1] == '
                             '(child if LASTC.cls.precedence < child.cls.precedence else LASTC))'.replace(
                                 'LASTC', 'old(parent.children)[len(old(parent.children)) - 1]'), ['C16', 'C02'])],
                   modifies=['F:ParseToken.children'], prop=P))
    m.add(Contract(MOD + ':eval_tokens', [('x', PT), ('y', PT), ('token_buffer', TList(PT))], returns=PT,
                   requires=['ALL_KIDS_OK()', 'RANKED()', 'KIDS_BEFORE(y)', 'x.start <= y.start', 'y.rank > x.rank'],
                   ensures=[
                       'implies(x.end <= y.start, result == y and len(new_token_buffer) == len(token_buffer) + 1 '
                       'and new_token_buffer[len(token_buffer)] == x)',
                       'implies(not (x.end <= y.start), same(new_token_buffer, token_buffer))',
                       'forall(lambda i: new_token_buffer[i] == token_buffer[i], 0, len(token_buffer))',
                       # nesting
                       'implies(not (x.end <= y.start) and INSIDE_GROUP(x, y), result == x)',
                       # conflict: higher precedence wins, ties go to the earlier match
                       # (C02 as well: code spans, autolinks and raw HTML bind equally in CommonMark 6.1 - the leftmost wins)
                       ('implies(not (x.end <= y.start) and not INSIDE_GROUP(x, y) and not (x.parse_end <= y.start and y.end <= x.end), '
                        'result == (x if x.cls.precedence >= y.cls.precedence else y))', P + ['C02']),
                       'result == x or result == y', 'ALL_KIDS_OK()', 'RANKED()', 'KIDS_UPTO(y)',
                       FRAME.replace('self', 'x'),
                   ],
                   modifies=['P:token_buffer', 'F:ParseToken.children'], prop=P))

    # second view of eval_tokens: the statement's precedence rule, quantifier-free
    CASE3 = '(x.parse_end <= y.start and y.end <= x.end)'
    m.add(Contract(MOD + ':eval_tokens#precedence', [('x', PT), ('y', PT), ('token_buffer', TList(PT))], returns=PT,
                   requires=['PT_OK(x)', 'PT_OK(y)', 'x.start <= y.start'], assume_callee_pre=True,
                   ensures=[
                       ('implies(not (x.end <= y.start) and not INSIDE_GROUP(x, y) and not %s, '
                        'result == (x if x.cls.precedence >= y.cls.precedence else y))' % CASE3, ['C16', 'C02']),
                       # the same rule where y lies inside x but outside its parse group (the code
                       # ignores y there whatever its precedence): known finding relation-case-3
                       ('implies(not (x.end <= y.start) and not INSIDE_GROUP(x, y) and %s, '
                        'result == (x if x.cls.precedence >= y.cls.precedence else y))' % CASE3, 'C16'),
                       ('implies(not (x.end <= y.start) and INSIDE_GROUP(x, y), result == x)', 'C16'),
                       ('implies(x.end <= y.start, result == y)', 'C16')],
                   modifies=['P:token_buffer', 'F:ParseToken.children'], prop=P))
    LAST = 'old(parent.children)[len(old(parent.children)) - 1]'
    NEWLAST = 'parent.children[len(parent.children) - 1]'
    DISJ = '(%s.end <= child.start)' % LAST
    INS = 'INSIDE_GROUP(%s, child)' % LAST
    C3 = '(%s.parse_end <= child.start and child.end <= %s.end)' % (LAST, LAST)
    m.add(Contract(MOD + ':eval_new_child#precedence', [('parent', PT), ('child', PT)],
                   requires=['len(parent.children) > 0', 'PT_OK(child)', 'PT_OK(%s)' % 'parent.children[len(parent.children) - 1]',
                             'parent.children[len(parent.children) - 1].start <= child.start',
                             'parent.children[len(parent.children) - 1] != parent'],
                   assume_callee_pre=True,
                   ensures=[
                       ('implies(%s, len(parent.children) == len(old(parent.children)) + 1 and %s == child)' % (DISJ, NEWLAST), 'C16'),
                       ('implies(not %s, len(parent.children) == len(old(parent.children)))' % DISJ, 'C16'),
                       ('implies(not %s and not %s and not %s, %s == (%s if %s.cls.precedence >= child.cls.precedence else child))'
                        % (DISJ, INS, C3, NEWLAST, LAST, LAST), 'C16'),
                       ('implies(not %s and %s, %s == %s)' % (DISJ, INS, NEWLAST, LAST), 'C16'),
                       ('forall(lambda i: parent.children[i] == old(parent.children)[i], 0, len(old(parent.children)) - 1)', 'C16'),
                   ],
                   modifies=['F:ParseToken.children'], prop=P))


def build2(m):
    """tokenize: global-state discipline (C11) and the buffer invariant (C16)."""
    SPT = TRef('Token')
    MATCH = TRef('Match')
    m.classes.setdefault('Match', {})
    m.classes.setdefault('Token', {'line_number': INT})
    m.globals['html._charref'] = INT
    m.globals['core_tokens._code_matches'] = TList(MATCH)
    ns = m.namespaces[MOD]
    ns['html'] = ('module', 'html')
    ns['core_tokens'] = ('module', 'mistletoe.core_tokens')
    ns['_markdown_charref'] = ('const', mk_int(1))
    ns['_stdlib_charref'] = ('const', mk_int(0))
    ns['find_tokens'] = ('func', MOD + ':find_tokens')
    ns['make_tokens'] = ('func', MOD + ':make_tokens')
    m.namespaces.setdefault('html', {})['_charref'] = ('global', 'html._charref')
    m.namespaces.setdefault('mistletoe.core_tokens', {})['_code_matches'] = ('global', 'core_tokens._code_matches')
    m.globals.setdefault('INLINE_PHASE', INT)
    SORTED = 'forall(lambda i, j: implies(i <= j, result[i].start <= result[j].start), 0, len(result), 0, len(result))'
    m.add(Contract(MOD + ':find_tokens', [('string', STR), ('token_types', TList(SPANCLS)), ('fallback_token', SPANCLS)],
                   returns=TList(PT), trusted=True, may_raise=['CustomTokenError'],
                   ensures=[SORTED,
                            'forall(lambda i: PT_OK(result[i]) and result[i].rank == i and len(result[i].children) == 0 '
                            'and result[i].end <= len(string), 0, len(result))',
                            'ALL_KIDS_OK()', 'RANKED()',
                            "forall_ref('ParseToken', lambda p: len(p.children) == 0)"],
                   modifies=['G:core_tokens._code_matches', 'F:ParseToken.children'],
                   note='candidate collection: sorted() is stable (A8); match offsets of the (assumed) finder protocol '
                        'lie within the string; rank is the ghost position in the sorted list. Quantification over all '
                        'ParseToken references is read over the candidates of the current call (older ParseToken objects '
                        'are unreachable garbage)'))
    m.add(Contract(MOD + ':make_tokens', [('tokens', TList(PT)), ('start', INT), ('end', INT), ('string', STR),
                                          ('fallback_token', SPANCLS)], returns=TList(SPT), trusted=True,
                   may_raise=['CustomTokenError'], modifies=['G:INLINE_PHASE'],
                   requires=['forall(lambda i: tokens[i].end <= tokens[i + 1].start, 0, len(tokens) - 1)',
                             'forall(lambda i: start <= tokens[i].start and tokens[i].end <= end, 0, len(tokens))'],
                   note='trusted at this call site; its own body is verified separately (make_tokens#tiling)'))
    # the code-span hand-over list is empty again on every exit: a match left behind would be spliced into the
    # NEXT string that is tokenized (C11), which then is no longer tiled by its own tokens (C16, C14)
    STATE_POST = [('html._charref == 0', 'C11'), ('len(core_tokens._code_matches) == 0', ['C11', 'C16', 'C14'])]
    m.add(Contract(MOD + ':tokenize#state', [('string', STR), ('token_types', TList(SPANCLS))], returns=TList(SPT),
                   requires=['len(token_types) >= 1'], assume_callee_pre=True,
                   ensures=list(STATE_POST), ensures_exc=list(STATE_POST),
                   modifies=['G:html._charref', 'G:core_tokens._code_matches', 'G:INLINE_PHASE', 'F:ParseToken.children'],
                   allow_exc=['CustomTokenError'],
                   body_types={'token_buffer': TList(PT)},
                   loops={0: Loop(invariant=['html._charref == 1'])},
                   prop=['C11']))


def build3(m):
    """make_tokens: the gaps given to the fallback token and the tokens tile [start, end] (C16, C14)."""
    SPT = TRef('Token')
    m.classes.setdefault('Token', {'line_number': INT})
    m.classes['Token'].setdefault('children', TList(SPT))
    m.namespaces[MOD]['html'] = ('module', 'html')
    m.namespaces.setdefault('html', {})['unescape'] = ('func', 'stdlib:html.unescape')
    m.ufunc('html_unescape', [STR], STR)
    m.add(Contract('stdlib:html.unescape', [('s', STR)], returns=STR, trusted=True, pure=True,
                   ensures=['result == html_unescape(s)'],
                   note='A7: html.unescape as an uninterpreted function (identity on strings without a character reference)'))
    m.methods[('SpanCls', '__call__')] = 'protocol:SpanCls.__call__'
    m.add(Contract('protocol:SpanCls.__call__', [('self', SPANCLS), ('content', None)], returns=TOpt(SPT), trusted=True,
                   may_raise=['CustomTokenError'], modifies=['G:INLINE_PHASE'],
                   ensures=['not is_none(result)', 'is_fresh(result)', 'allocated(some(result))'],
                   note='span token constructor protocol: cls(match) / fallback_token(text) returns a new token'))
    m.methods[('ParseToken', 'make')] = MOD + ':ParseToken.make#protocol'
    m.add(Contract(MOD + ':ParseToken.make#protocol', [('self', PT)], returns=TOpt(SPT), trusted=True,
                   may_raise=['CustomTokenError'], modifies=['G:INLINE_PHASE'],
                   note='token construction; its nested make_tokens call is checked in ParseToken.make#nesting'))
    m.add(Contract(MOD + ':make_tokens#tiling',
                   [('tokens', TList(PT)), ('start', INT), ('end', INT), ('string', STR), ('fallback_token', SPANCLS)],
                   returns=TList(SPT),
                   requires=['0 <= start', 'start <= end', 'end <= len(string)',
                             'forall(lambda i: PT_OK(tokens[i]) and start <= tokens[i].start and tokens[i].end <= end, 0, len(tokens))',
                             'forall(lambda i: tokens[i].end <= tokens[i + 1].start, 0, len(tokens) - 1)'],
                   ensures=[('g_cover == end', ['C16', 'C14'])],
                   ghost_init={'g_cover': (INT, 'start')},
                   ghost_after={
                       r're:t = fallback_token\(html\.unescape\(string\[.*\]\)\)': [
                           ('__assert__', ('_slice_lo == g_cover and _slice_hi == token.start and g_cover < _slice_hi', ['C16', 'C14'])),
                           ('g_cover', 'token.start')],
                       't = token.make()': [
                           ('__assert__', ('g_cover == token.start', ['C16', 'C14'])),
                           ('g_cover', 'token.end')],
                       r're:result\.append\(fallback_token\(html\.unescape\(string\[.*\]\)\)\)': [
                           ('__assert__', ('_slice_lo == g_cover and _slice_hi == end and g_cover < end', ['C16', 'C14'])),
                           ('g_cover', 'end')],
                   },
                   modifies=['G:INLINE_PHASE'], allow_exc=['CustomTokenError'],
                   body_types={'result': TList(SPT)},
                   loops={0: Loop(invariant=[
                       'prev_end == (start if _k0 == 0 else tokens[_k0 - 1].end)', 'g_cover == prev_end',
                       'start <= prev_end', 'prev_end <= end'])},
                   prop=['C16', 'C14']))
    m.add(Contract(MOD + ':ParseToken.make#nesting', [('self', PT)], returns=TOpt(SPT),
                   requires=['PT_OK(self)', 'KIDS_OK(self)', 'self.parse_end <= len(self.string)'],
                   call_asserts={MOD + ':make_tokens': [
                       # the children (and the raw text between them) tile exactly the parse group
                       ('arg_start == self.parse_start and arg_end == self.parse_end and same(arg_tokens, self.children) '
                        'and arg_string == self.string', 'C16')]},
                   modifies=['G:INLINE_PHASE', 'N:Token.children'], allow_exc=['CustomTokenError'],
                   prop=['C16']))


def build4(m):
    """tokenize: the candidate buffer stays sorted and disjoint (C16)."""
    SPT = TRef('Token')
    BUF_OK = ('forall(lambda i: PT_OK(token_buffer[i]) and token_buffer[i].end <= len(string), 0, len(token_buffer)) and '
              'forall(lambda i: token_buffer[i].end <= token_buffer[i + 1].start, 0, len(token_buffer) - 1)')
    m.add(Contract(MOD + ':tokenize#buffer', [('string', STR), ('token_types', TList(SPANCLS))], returns=TList(SPT),
                   requires=['len(token_types) >= 1'],
                   modifies=['G:html._charref', 'G:core_tokens._code_matches', 'G:INLINE_PHASE', 'F:ParseToken.children'],
                   allow_exc=['CustomTokenError'],
                   body_types={'token_buffer': TList(PT)},
                   loops={0: Loop(invariant=[
                       'ALL_KIDS_OK()', 'RANKED()',
                       '0 <= prev.rank', 'prev.rank <= _k0', 'tokens[prev.rank] == prev',
                       # every child so far is one of the candidates already visited
                       "forall_ref('ParseToken', lambda p: forall(lambda i: p.children[i].rank <= _k0 and "
                       "p.children[i].start <= tokens[_k0].start, 0, len(p.children)))",
                       BUF_OK,
                       'forall(lambda i: token_buffer[i].end <= prev.start, 0, len(token_buffer))',
                   ])},
                   prop=['C16'],
                   note='sortedness / rank facts about `tokens` come from the trusted find_tokens contract'))


def build5(m):
    """find_tokens and ParseToken.__init__ verified against the finder / match protocols (C16)."""
    MATCH = TRef('Match')
    m.classes.setdefault('Match', {})
    m.ufunc('m_start', [MATCH, INT], INT)
    m.ufunc('m_end', [MATCH, INT], INT)
    # match protocol (re.Match and core_tokens.MatchObj): group g lies inside the match, the match inside the string
    m.methods[('Match', 'start')] = 'protocol:Match.start'
    m.add(Contract('protocol:Match.start', [('self', MATCH), ('n', INT, mk_int(0))], returns=INT, trusted=True, pure=True,
                   ensures=['result == m_start(self, n)']))
    m.methods[('Match', 'end')] = 'protocol:Match.end'
    m.add(Contract('protocol:Match.end', [('self', MATCH), ('n', INT, mk_int(0))], returns=INT, trusted=True, pure=True,
                   ensures=['result == m_end(self, n)']))
    m.predicate('MATCH_OK', ['mo', 'g', 'string'],
                '0 <= m_start(mo, 0) and m_start(mo, 0) <= m_start(mo, g) and m_start(mo, g) <= m_end(mo, g) '
                'and m_end(mo, g) <= m_end(mo, 0) and m_end(mo, 0) <= len(string)')
    m.methods[('SpanCls', 'find')] = 'protocol:SpanCls.find'
    m.add(Contract('protocol:SpanCls.find', [('self', SPANCLS), ('string', STR)], returns=TList(MATCH), trusted=True,
                   may_raise=['CustomTokenError'], modifies=['G:core_tokens._code_matches'],
                   ensures=['forall(lambda i: MATCH_OK(result[i], self.parse_group, string), 0, len(result))'],
                   note='finder protocol: every match (re.Match from finditer, or MatchObj from the core scanner) lies '
                        'inside the string and its parse group inside the match (A5)'))
    m.namespaces[MOD]['ParseToken'] = ('class', 'ParseToken')
    m.methods[('ParseToken', '__init__')] = MOD + ':ParseToken.__init__'
    m.add(Contract(MOD + ':ParseToken.__init__',
                   [('self', PT), ('start', INT), ('end', INT), ('match', MATCH), ('string', STR), ('cls', SPANCLS),
                    ('fallback_token', SPANCLS)],
                   requires=['start == m_start(match, 0)', 'end == m_end(match, 0)', 'MATCH_OK(match, cls.parse_group, string)'],
                   ensures=['PT_OK(self)', 'self.end <= len(string)', 'len(self.children) == 0', 'self.string == string',
                            'self.cls == cls', 'self.start == start', 'self.end == end',
                            # C16: the span in which other candidates nest is the class's parse group of THIS match -
                            # for every token class, whether or not its contents are parsed (the conflict rules of
                            # `relation` compare against it)
                            ('self.parse_start == m_start(match, cls.parse_group) and self.parse_end == m_end(match, cls.parse_group)', 'C16')],
                   modifies=['self.start', 'self.end', 'self.parse_start', 'self.parse_end', 'self.match', 'self.string',
                             'self.cls', 'self.fallback_token', 'self.children'],
                   prop=P))
    m.add(Contract('builtin:sorted#ParseToken', [('xs', TList(PT))], returns=TList(PT), trusted=True,
                   ensures=['len(result) == len(xs)',
                            'forall(lambda i, j: implies(i <= j, result[i].start <= result[j].start), 0, len(result), 0, len(result))',
                            'forall(lambda i: exists(lambda j: xs[j] == result[i], 0, len(xs)), 0, len(result))',
                            'forall(lambda i: result[i].rank == i, 0, len(result))'],
                   modifies=['F:ParseToken.rank'],
                   note='sorted() with ParseToken.__lt__ (by start) returns a stable permutation in ascending start order (A8); '
                        'rank is the ghost position in the sorted list'))
    ELEM_OK = 'PT_OK(%s[i]) and %s[i].end <= len(string) and len(%s[i].children) == 0'
    m.add(Contract(MOD + ':find_tokens#body', [('string', STR), ('token_types', TList(SPANCLS)), ('fallback_token', SPANCLS)],
                   returns=TList(PT),
                   ensures=[('forall(lambda i: %s, 0, len(result))' % (ELEM_OK % ('result', 'result', 'result')), 'C16'),
                            ('forall(lambda i, j: implies(i <= j, result[i].start <= result[j].start), 0, len(result), 0, len(result))', 'C16'),
                            ('forall(lambda i: result[i].rank == i, 0, len(result))', 'C16')],
                   modifies=['G:core_tokens._code_matches', 'F:ParseToken.rank',
                             'N:ParseToken.start', 'N:ParseToken.end', 'N:ParseToken.parse_start', 'N:ParseToken.parse_end',
                             'N:ParseToken.match', 'N:ParseToken.string', 'N:ParseToken.cls', 'N:ParseToken.fallback_token',
                             'N:ParseToken.children'],
                   allow_exc=['CustomTokenError'],
                   body_types={'tokens': TList(PT)},
                   loops={0: Loop(invariant=['forall(lambda i: %s and is_fresh(tokens[i]) and allocated(tokens[i]), 0, len(tokens))'
                                             % (ELEM_OK % ('tokens', 'tokens', 'tokens'))]),
                          1: Loop(invariant=['forall(lambda i: %s and is_fresh(tokens[i]) and allocated(tokens[i]), 0, len(tokens))'
                                             % (ELEM_OK % ('tokens', 'tokens', 'tokens'))])},
                   prop=P))
