#!/usr/bin/env python3
"""Render the seeded-change table of DESIGN.md section 8.6.

First-run columns come from /verif/seeded/<seed>/meta.json (what the checks reported when the seed was
delivered, before any strengthening); the final columns from /verif/seeded/SELFTEST.json, written by
`./check --selftest` (every seed re-applied to a scratch copy of /repo's HEAD)."""
import glob
import json
import os

st_path = '/verif/seeded/SELFTEST.json'
selftest = json.load(open(st_path)) if os.path.exists(st_path) else {}
rows = []
for d in sorted(glob.glob('/verif/seeded/*/meta.json')):
    m = json.load(open(d))
    sid = m.get('seed')
    first = os.path.join(os.path.dirname(d), 'meta.first_run.json')
    m0 = json.load(open(first)) if os.path.exists(first) else m
    first_det = bool(m0.get('detected'))
    first_ded = bool(m0.get('detected_by_deductive'))
    s = selftest.get(sid)
    title = ''
    notes = os.path.join(os.path.dirname(d), 'agent_notes.md')
    patch = os.path.join(os.path.dirname(d), 'patch.diff')
    files = []
    if os.path.exists(patch):
        for l in open(patch, errors='replace'):
            if l.startswith('+++ b/'):
                files.append(l[6:].strip().replace('mistletoe/', ''))
    rows.append((sid, m.get('confirmed'), first_det, first_ded, s, ', '.join(files)))

print('| seed | file(s) changed | when delivered | now (selftest on HEAD) | named obligation(s) | bounded class(es) |')
print('|---|---|---|---|---|---|')
n_now = n_ob = n_first = 0
for sid, conf, fd, fded, s, files in rows:
    when = ('detected' + (' (deductive)' if fded else ' (bounded)')) if fd else '**missed**'
    n_first += bool(fd)
    if s is None:
        now, ob, bc = 'not re-run', '—', '—'
    else:
        det = s['exit'] == 1
        n_now += det
        n_ob += bool(s['obligations'])
        now = 'detected' if det else ('patch no longer applies' if s['exit'] < 0 else '**missed**')
        ob = '<br>'.join('`%s`' % o for o in s['obligations'][:3]) or '—'
        bc = '<br>'.join('`%s`' % b for b in s['bounded_classes'][:2]) or '—'
    print('| %s | %s | %s | %s | %s | %s |' % (sid, files, when, now, ob, bc))
print()
print('%d seeded changes (all confirmed: test suite passes, demonstration fails); %d detected when delivered; '
      '%d detected by the final checks, %d of them by a named obligation of the deductive tier.' % (
          len(rows), n_first, n_now, n_ob))
