#!/usr/bin/env python3
"""Render /verif/seeded/*/meta.json as the markdown table of DESIGN.md section 8.6."""
import json, glob, os, re
rows = []
for d in sorted(glob.glob('/verif/seeded/*/meta.json')):
    m = json.load(open(d))
    sid = m.get('seed')
    notes = ''
    np_ = os.path.join(os.path.dirname(d), 'agent_notes.md')
    what = ''
    ob, bd = [], []
    for p, r in (m.get('checks') or {}).items():
        for v in r['violation_lines']:
            if 'obligation=' in v:
                ob.append(v.split('obligation=')[1].split()[0])
            elif 'contract=' in v:
                bd.append(v.split('contract=')[1].split()[0] + ('/' + v.split('class=')[1].split()[0] if 'class=' in v else ''))
            elif 'class=' in v:
                bd.append(v.split('class=')[1].split()[0])
    first = os.path.join(os.path.dirname(d), 'meta.first_run.json')
    missed_first = False
    if os.path.exists(first):
        missed_first = not json.load(open(first)).get('detected')
    rows.append((sid, m.get('confirmed'), m.get('detected'), sorted(set(ob))[:2], sorted(set(bd))[:2], missed_first))
print('| seed | confirmed | detected | named obligation(s) (deductive tier) | bounded contract/class | note |')
print('|---|---|---|---|---|---|')
for sid, conf, det, ob, bd, mf in rows:
    print('| %s | %s | %s | %s | %s | %s |' % (sid, 'yes' if conf else 'NO', 'yes' if det else '**no**',
          '<br>'.join('`%s`' % o for o in ob) or '—', '<br>'.join('`%s`' % b for b in bd) or '—',
          'missed on first run; checks strengthened' if mf else ''))
print()
print('%d seeded changes, %d confirmed, %d detected, %d by a named obligation of the deductive tier.' % (
    len(rows), sum(1 for r in rows if r[1]), sum(1 for r in rows if r[2]), sum(1 for r in rows if r[3])))
