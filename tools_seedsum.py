#!/usr/bin/env python3
import json,glob,os
rows=[]
for d in sorted(glob.glob('/verif/seeded/*/meta.json')):
    m=json.load(open(d))
    sid=m.get('seed')
    ob=[]; bd=[]
    for p,r in (m.get('checks') or {}).items():
        for v in r['violation_lines']:
            if 'obligation=' in v: ob.append(v.split('obligation=')[1].split()[0])
            elif 'contract=' in v: bd.append(v.split('contract=')[1].split()[0]+'/'+(v.split('class=')[1].split()[0] if 'class=' in v else ''))
            elif 'class=' in v: bd.append('class:'+v.split('class=')[1].split()[0])
        und=r.get('undecided',[])
    rows.append((sid,m.get('confirmed'),m.get('detected'),sorted(set(ob))[:3],sorted(set(bd))[:2],[u[:80] for u in und][:2]))
for r in rows: print(r)
print(len(rows),'seeds;',sum(1 for r in rows if r[1]),'confirmed;',sum(1 for r in rows if r[2]),'detected;',sum(1 for r in rows if r[3]),'by a named obligation')
