"""Greedy shrinking of a failing (tree, spelling) pair of the DOCS generator.

`shrink(tree, spelling, fails)` returns (tree', spelling', written') with `fails(written')` still
true and no single simplification step applicable any more (or the evaluation budget exhausted).
Used only to attribute failures to a root-cause class and to show a small reproducer; the failure
itself is always reported for the original input.  No mistletoe imports.
"""
import copy

from runtime.docs_tree import Node, T, number, valid_tree, nodefs, block_children
from runtime.docs_write import write, canonical_spelling
from runtime.docs_html import norm_label


def _sibling_lists(tree):
    """All mutable lists of sibling blocks in the tree (top level first)."""
    out = [tree]
    for b in tree:
        for ch in block_children(b):
            out.extend(_sibling_lists(ch))
    return out


def _inline_holders(tree):
    """(node, attr) pairs where attr is a list of inline nodes, at any depth."""
    out = []

    def inl(node, attr):
        out.append((node, attr))
        for x in getattr(node, attr):
            if hasattr(x, 'children') and x.kind not in ('quote',):
                inl(x, 'children')

    def walk(blocks):
        for b in blocks:
            if b.kind in ('para', 'atx', 'setext'):
                inl(b, 'inl')
            elif b.kind == 'table':
                for r in [b.header] + b.rows:
                    for c in r.cells:
                        inl(c, 'inl')
            for ch in block_children(b):
                walk(ch)
    walk(tree)
    return out


def _refs_ok(tree):
    defs = set()
    uses = set()

    def walk(blocks):
        for b in blocks:
            if b.kind == 'linkdef':
                defs.add(norm_label(b.label))
            for ch in block_children(b):
                walk(ch)
    walk(tree)
    for node, attr in _inline_holders(tree):
        for x in getattr(node, attr):
            if x.kind in ('reflink', 'refimage'):
                uses.add(norm_label(x.label))
    return uses <= defs


def _clean_inl(inl):
    """Re-establish the inline invariants after an edit (merge texts, trim edges)."""
    out = []
    for x in inl:
        if x.kind == 'text' and out and out[-1].kind == 'text':
            out[-1] = T(out[-1].s + x.s)
        else:
            out.append(x)
    while out and out[0].kind in ('soft', 'hard'):
        out.pop(0)
    while out and out[-1].kind in ('soft', 'hard'):
        out.pop()
    if out and out[0].kind == 'text':
        out[0] = T(out[0].s.lstrip(' '))
    if out and out[-1].kind == 'text':
        out[-1] = T(out[-1].s.rstrip(' '))
    out = [x for x in out if not (x.kind == 'text' and x.s == '')]
    return out or [T('foo')]


def _candidates(tree):
    """Yield functions that apply one simplification to a deep copy of the tree."""
    lists = _sibling_lists(tree)
    for li, sibs in enumerate(lists):
        for i, b in enumerate(sibs):
            yield ('del', li, i)
            if b.kind in ('quote', 'list'):
                yield ('hoist', li, i)
            if b.kind == 'list':
                for k in range(len(b.items)):
                    if len(b.items) > 1:
                        yield ('delitem', li, i, k)
            if b.kind == 'table':
                for k in range(len(b.rows)):
                    yield ('delrow', li, i, k)
            if b.kind in ('fence', 'icode'):
                for k in range(len(b.lines)):
                    yield ('delline', li, i, k)
    holders = _inline_holders(tree)
    for hi, (node, attr) in enumerate(holders):
        inl = getattr(node, attr)
        if not (len(inl) == 1 and inl[0].kind == 'text' and inl[0].s == 'foo'):
            yield ('plain', hi)
        for k, x in enumerate(inl):
            if x.kind != 'text':
                yield ('atom2text', hi, k)
            if x.kind in ('soft', 'hard') or (x.kind == 'text' and len(inl) > 1):
                yield ('cut_after', hi, k)
                yield ('cut_before', hi, k)


def _apply(tree, cand):
    t = copy.deepcopy(tree)
    op = cand[0]
    if op in ('del', 'hoist', 'delitem', 'delrow', 'delline'):
        sibs = _sibling_lists(t)[cand[1]]
        b = sibs[cand[2]]
        if op == 'del':
            del sibs[cand[2]]
        elif op == 'hoist':
            inner = b.children if b.kind == 'quote' else [c for it in b.items for c in it.children]
            sibs[cand[2]:cand[2] + 1] = inner
        elif op == 'delitem':
            del b.items[cand[3]]
        elif op == 'delrow':
            del b.rows[cand[3]]
        elif op == 'delline':
            del b.lines[cand[3]]
            if b.kind == 'icode':
                while b.lines and b.lines[0] == '':
                    b.lines.pop(0)
                while b.lines and b.lines[-1] == '':
                    b.lines.pop()
                if not b.lines:
                    return None
                b.lines[0] = b.lines[0].lstrip(' ') or 'x'
    else:
        node, attr = _inline_holders(t)[cand[1]]
        inl = getattr(node, attr)
        if op == 'plain':
            new = [T('foo')]
        elif op == 'atom2text':
            new = inl[:cand[2]] + [T('y')] + inl[cand[2] + 1:]
        elif op == 'cut_after':
            new = inl[:cand[2]]
        else:
            new = inl[cand[2] + 1:]
        new = _clean_inl(new)
        if new[0].kind == 'rawhtml':
            new.insert(0, T('z '))
        for j in range(1, len(new)):
            if new[j].kind == 'rawhtml' and new[j - 1].kind in ('soft', 'hard'):
                return None
        if node.kind in ('reflink', 'refimage') and node.form != 'full':
            return None
        for j, x in enumerate(new):
            if x.kind in ('text', 'esc', 'ent', 'soft', 'hard') or getattr(x, 'glued', False):
                continue
            for nb, edge in ((new[j - 1] if j else None, -1), (new[j + 1] if j + 1 < len(new) else None, 0)):
                if nb is None or nb.kind in ('soft', 'hard'):
                    continue
                if nb.kind != 'text' or nb.s[edge] != ' ':
                    return None
        if node.kind == 'cell' and op in ('cut_after', 'cut_before'):
            pass
        setattr(node, attr, new)
    if not nodefs(t) or not valid_tree(t) or not _refs_ok(t):
        return None
    return number(t)


def shrink(tree, spelling, fails, budget=600, keep=None):
    """Greedy one-step-at-a-time minimisation.  `fails(written) -> bool`; `keep(tree) -> bool`
    can veto candidates (used to stop the search from sliding into a different failure)."""
    best = (tree, spelling, write(tree, spelling))
    canon = canonical_spelling(tree)
    try:
        w = write(tree, canon)
        if fails(w):
            best = (tree, canon, w)
    except Exception:
        pass
    evals = 0
    progress = True
    while progress and evals < budget:
        progress = False
        for cand in _candidates(best[0]):
            if evals >= budget:
                break
            try:
                t = _apply(best[0], cand)
            except Exception:
                t = None
            if t is None or (keep is not None and not keep(t)):
                continue
            for sp in ([canon] if best[1].canonical else [canon, best[1]]):
                evals += 1
                try:
                    w = write(t, sp)
                    bad = fails(w)
                except Exception:
                    bad = False
                if bad:
                    best = (t, sp, w)
                    progress = True
                    break
            if progress:
                break
    return best
