"""C11 (bounded tier): results depend only on input and renderer, never on earlier library use.

Operations of a history (JSON-able tuples):
  ('E', R)        construct bundled renderer R and enter its context              (idle -> in R)
  ('X',)          the matching __exit__                                           (in R -> idle)
  ('R', d)        renderer.render(Document(DOCS[d])) with the entered renderer    (in R)
  ('M', d, R)     mistletoe.markdown(DOCS[d], R)                                  (idle)
  ('P', d)        bare parse: structural dump of Document(DOCS[d]), no renderer   (idle)
  ('F', spec)     faulty parse: a custom block/span token whose start/read/__init__/
                  check_interrupts_paragraph/find raises RuntimeError('boom') is registered through a
                  small renderer subclass (passed as an extra, then moved to position `pos` of
                  block_token._token_types / span_token._token_types), a document that triggers it
                  is parsed inside `with`, the exception is caught outside           (idle)
  ('N', d)        render DOCS[d] with a renderer subclass whose span-token list lacks InlineCode
                  (a custom span-token list)                                          (idle)
Histories are properly bracketed and never nested.

Oracle: after history h every observation o (idle: ('P', d) and ('M', d, R) for every probe d and
all 11 renderers; inside a context: ('R', d) for every probe) must give the outcome the same
operation gives in a FRESH interpreter (one `/venv/bin/python -c` subprocess per observation,
computed once and cached).  Every history runs in its own forked child of a process that has only
imported the library, so nothing leaks between histories.  Before each observation the *known*
global parser state (and the entered renderer's instance attributes) is put back to what it was
right after h, so that each observation sees the state h left behind and not what the previous
observation did to it; a reported mismatch is re-confirmed by replaying exactly h + [o] in another
fresh child without that step (if it does not reproduce there, the observation chain actually
executed is replayed and reported instead).

Contracts:
  history-independence     outcome(o after h) == outcome(o in a fresh interpreter)
  idle-state:<name>        after every op that leaves no renderer entered (every exit, every
                           markdown(), faulty parse, bare parse):
                             block_types / span_types  == the classes named by __all__, in order
                             charref                   html._charref is the stdlib regex
                             root_node                 token._root_node is None
                             code_matches              core_tokens._code_matches == []
                             parse_setext              Paragraph.parse_setext is True
"""
import html as _html

_STD_CHARREF = _html._charref  # captured before the library can touch it

import copy  # noqa: E402
import functools  # noqa: E402
import json  # noqa: E402
import os  # noqa: E402
import pickle  # noqa: E402
import random  # noqa: E402
import re  # noqa: E402
import subprocess  # noqa: E402
import sys  # noqa: E402
import zlib  # noqa: E402

from runtime.common import use_repo, pool_map, chunks, REPO, VERIF  # noqa: E402

use_repo()

import mistletoe  # noqa: E402
from mistletoe import Document, block_token, span_token, core_tokens, token as token_mod  # noqa: E402
from mistletoe.base_renderer import BaseRenderer  # noqa: E402
from mistletoe.html_renderer import HtmlRenderer  # noqa: E402
from mistletoe.markdown_renderer import MarkdownRenderer  # noqa: E402
from mistletoe.latex_renderer import LaTeXRenderer  # noqa: E402
from mistletoe.ast_renderer import AstRenderer  # noqa: E402
from mistletoe.contrib.toc_renderer import TocRenderer  # noqa: E402
from mistletoe.contrib.github_wiki import GithubWikiRenderer  # noqa: E402
from mistletoe.contrib.mathjax import MathJaxRenderer  # noqa: E402
from mistletoe.contrib.pygments_renderer import PygmentsRenderer  # noqa: E402
from mistletoe.contrib.jira_renderer import JiraRenderer  # noqa: E402
from mistletoe.contrib.xwiki20_renderer import XWiki20Renderer  # noqa: E402

PY = '/venv/bin/python'

REN = {
    'Html': HtmlRenderer,
    'HtmlNoTok': functools.partial(HtmlRenderer, process_html_tokens=False),
    'Markdown': MarkdownRenderer,
    'LaTeX': LaTeXRenderer,
    'Ast': AstRenderer,
    'Toc': TocRenderer,
    'GithubWiki': GithubWikiRenderer,
    'MathJax': MathJaxRenderer,
    'Pygments': PygmentsRenderer,
    'Jira': JiraRenderer,
    'XWiki20': XWiki20Renderer,
}
RNAMES = list(REN)

# ------------------------------------------------------------------------------------------------
# documents: probes (observed after every history) -- one or more per piece of parser scratch state

PROBES = {
    'plain': 'hello world\n',
    'setext': 'Foo\n===\n\nbar\nbaz\n---\n',
    'setext_q': '> Foo\n> ===\n\n> bar\n---\n',
    'nested_q': '> > a\n>\n> b\n> ===\n',
    'q_then_setext': '> q\n\nFoo\n===\n',
    'atx': '## Title ##\n#\n### b #x\n###### six ######\n',
    'fence': '```py info string\n  x = 1\n```\n\n  ~~~ sh\n   echo\n  ~~~\n',
    'fence_bare': 'p\n````\n  unclosed\n```\n',
    'html1': '<pre>\n*a*\n\nb</pre>\n\n*c*\n',
    'html2': '<!-- c\n\nd -->\n*e*\n',
    'html3': '<?php\n\necho; ?>\nok\n',
    'html4': '<!DOCTYPE html>\n*x*\n',
    'html5': '<![CDATA[\n\nx]]>\n*y*\n',
    'html6': '<div>\n*a*\n\n*b*\n\n</div>\n',
    'html7': '<custom-tag attr="1">\n*a*\n\n*b*\n',
    'code_span': 'a `code` b ``c ` d`` e\n',
    'refdef': '[k]: /u "t"\n\n[k] and [K][] and [x][k] and [nope]\n',
    'charref': '&copy; &amp; &#35; &#x22; &bogus; &copy &ouml;\n\n[a](/u&ouml; "&quot;")\n',
    'table': '| a | b |\n|---|:-:|\n| 1 | `2` |\n\npara\n| x |\n|---|\n',
    'list': '- a\n- b\n\n  c\n\n1. x\n2. y\n   - z\n',
    'math': '$math$ and $$m + n$$ and $ 5\n',
    'wiki': '[[a|b]] and [[ c | d ]]\n',
    'inline': '*a* **b** ~~c~~ <http://x.y> <a@b.c> \\* <b>t</b> line  \nbreak\\\nend\n',
    'blockcode': '    indented\n\n    code\n\nx\n',
    'hr': '***\n\n---\n___\n',
    'xwiki': '{{macro a="b"}}\ntext\n{{/macro}}\n',
    'img': '![img](/src "t") [link](</u v> \'t\') ![r][k]\n\n[k]: /i\n',
    # every kind of block start directly after paragraph text (which token types may interrupt a
    # paragraph depends on the active token list -- and must not depend on an earlier renderer)
    'interrupt': ('text\n<div>\nmore\n\ntext\n# h\n\ntext\n> q\n\ntext\n```\nc\n```\n\ntext\n- i\n\n'
                  'text\n| a |\n|---|\n\ntext\n***\n\n> lazy\n<div>\n\n- item\n<div>\n'),
}
PNAMES = list(PROBES)

# documents used inside histories only
DOCS = dict(PROBES)
DOCS.update({
    'mix': ('Title\n=====\n\n> quoted `q`\n> ===\n\n```py\nx\n```\n\n<div>\nh\n</div>\n\n[k]: /u\n\n'
            '[k] ~~s~~ `c` &amp; $m$ [[a|b]] ![i](/i)\n\n| a |\n|---|\n| b |\n\n- i\n'),
    'code': 'x `c` y\n',
})
DNAMES = list(DOCS)

FAULT_DOCS = {
    ('block', 'top'): 'para `c`\n!boom\n\n!boom\n',
    ('block', 'quote'): '> para `c`\n> !boom\n>\n> !boom\n',
    ('block', 'list'): '- para `c`\n  !boom\n\n  !boom\n',
    ('span', 'top'): 'a `c` !boom b\n',
    ('span', 'quote'): '> a `c` !boom\n',
    ('span', 'heading'): '# `c` !boom\n',
    ('span', 'list'): '- a `c` !boom\n',
    ('span', 'cell'): '| `c` !boom |\n|---|\n',
}
BLOCK_WHERE = ['start', 'read', 'init', 'interrupt']
SPAN_WHERE = ['find', 'init']


def all_faults():
    out = []
    nb = len(block_token.__all__)
    ns = len(span_token.__all__)
    for where in BLOCK_WHERE:
        for ctx in ('top', 'quote', 'list'):
            for pos in range(nb + 1):
                out.append(('block', where, pos, ctx))
    for where in SPAN_WHERE:
        for ctx in ('top', 'quote', 'heading', 'list', 'cell'):
            for pos in range(ns + (1 if where == 'init' else 0)):
                out.append(('span', where, pos, ctx))
    return out


def boom():
    raise RuntimeError('boom')


def make_boom_block(where):
    def trig(line):
        return line is not None and line.lstrip().startswith('!boom')

    def start(cls, line):
        if where == 'interrupt' or not trig(line):
            return False
        if where == 'start':
            boom()
        return True

    def read(cls, lines):
        if where == 'read':
            boom()
        return [next(lines)]

    def __init__(self, lines):
        if where == 'init':
            boom()
        self.children = []

    ns = {'start': classmethod(start), 'read': classmethod(read), '__init__': __init__}
    if where == 'interrupt':
        def check_interrupts_paragraph(cls, lines):
            if trig(lines.peek()):
                boom()
            return False
        ns['check_interrupts_paragraph'] = classmethod(check_interrupts_paragraph)
    return type('BoomBlock', (block_token.BlockToken,), ns)


def make_boom_span(where):
    def find(cls, string):
        if where == 'find' and '!boom' in string:
            boom()
        return cls.pattern.finditer(string)

    def __init__(self, match):
        if where == 'init':
            boom()
        self.content = '!boom'

    return type('BoomSpan', (span_token.SpanToken,), {
        'pattern': re.compile(r'!boom'), 'parse_inner': False, 'parse_group': 0,
        'find': classmethod(find), '__init__': __init__})


class FaultRenderer(BaseRenderer):
    def __init__(self, cls, pos):
        super().__init__(cls)
        mod = span_token if issubclass(cls, span_token.SpanToken) else block_token
        mod._token_types.remove(cls)
        mod._token_types.insert(pos, cls)

    def render_boom_block(self, token):
        return '!BOOM!'

    def render_boom_span(self, token):
        return '!boom!'


class NoInlineCodeRenderer(HtmlRenderer):
    """A renderer with a custom span-token list: everything HtmlRenderer has, minus InlineCode."""

    def __init__(self):
        super().__init__()
        span_token.remove_token(span_token.InlineCode)


# ------------------------------------------------------------------------------------------------
# structural dump of a parsed document

def dump(tok):
    d = {'type': type(tok).__name__}
    for k, v in sorted(vars(tok).items()):
        if k in ('_parent', '_children'):
            continue
        d[k] = dump_val(v)
    ch = tok.children
    if ch is not None:
        d['children'] = [dump(c) for c in ch]
    return d


def dump_val(v):
    if isinstance(v, token_mod.Token):
        return dump(v)
    if isinstance(v, (list, tuple)):
        return [dump_val(x) for x in v]
    if isinstance(v, dict):
        return {str(k): dump_val(x) for k, x in v.items()}
    if v is None or isinstance(v, (str, int, float, bool)):
        return v
    return '<%s>' % type(v).__name__


# ------------------------------------------------------------------------------------------------
# known global state

_ABSENT = object()
SCRATCH = [(block_token.Heading, 'level'), (block_token.Heading, 'content'),
           (block_token.Heading, 'closing_sequence'), (block_token.CodeFence, '_open_info'),
           (block_token.HtmlBlock, '_end_cond'), (block_token.Table, 'interrupt_paragraph'),
           (block_token.Paragraph, 'parse_setext')]


def snap(sess):
    s = {
        'block': list(block_token._token_types),
        'span': list(span_token._token_types),
        'code': list(core_tokens._code_matches),
        'root': token_mod._root_node,
        'charref': _html._charref,
        'scratch': [cls.__dict__.get(a, _ABSENT) for cls, a in SCRATCH],
        'pyg_style': PygmentsRenderer.formatter.style,
        'inst': None,
    }
    if sess.cur is not None:
        inst = sess.cur[1]
        s['inst'] = copy.deepcopy({k: v for k, v in vars(inst).items() if k != 'render_map'})
    return s


def restore(sess, s):
    block_token._token_types = list(s['block'])
    span_token._token_types = list(s['span'])
    core_tokens._code_matches = list(s['code'])
    token_mod._root_node = s['root']
    _html._charref = s['charref']
    for (cls, a), v in zip(SCRATCH, s['scratch']):
        if v is _ABSENT:
            if a in cls.__dict__:
                delattr(cls, a)
        else:
            setattr(cls, a, v)
    PygmentsRenderer.formatter.style = s['pyg_style']
    if sess.cur is not None and s['inst'] is not None:
        inst = sess.cur[1]
        for k in [k for k in vars(inst) if k != 'render_map' and k not in s['inst']]:
            delattr(inst, k)
        vars(inst).update(copy.deepcopy(s['inst']))


def idle_violations():
    """The six idle-state contracts; returns {name: observed} for the violated ones."""
    bad = {}
    if block_token._token_types != [getattr(block_token, n) for n in block_token.__all__]:
        bad['block_types'] = [c.__name__ for c in block_token._token_types]
    if span_token._token_types != [getattr(span_token, n) for n in span_token.__all__]:
        bad['span_types'] = [c.__name__ for c in span_token._token_types]
    if _html._charref is not _STD_CHARREF:
        bad['charref'] = _html._charref.pattern
    if token_mod._root_node is not None:
        bad['root_node'] = type(token_mod._root_node).__name__ + ' footnotes=%r' % (
            getattr(token_mod._root_node, 'footnotes', None),)
    if core_tokens._code_matches != []:
        bad['code_matches'] = [m.group(0) for m in core_tokens._code_matches]
    if block_token.Paragraph.parse_setext is not True:
        bad['parse_setext'] = block_token.Paragraph.parse_setext
    return bad


N_IDLE_CONTRACTS = 6


# ------------------------------------------------------------------------------------------------
# interpreter for operations

class Session:
    def __init__(self):
        self.cur = None  # (renderer name, instance)
        self.faults = [0, 0]  # raised 'boom', executed


def outcome(fn):
    try:
        return ['ok', fn()]
    except Exception as ex:  # noqa
        return ['exc', type(ex).__name__ + ': ' + str(ex)[:80]]


def apply_op(sess, op):
    k = op[0]
    if k == 'E':
        def enter():
            inst = REN[op[1]]()
            inst.__enter__()
            sess.cur = (op[1], inst)
        return outcome(enter)
    if k == 'X':
        inst = sess.cur[1]
        sess.cur = None
        return outcome(lambda: inst.__exit__(None, None, None))
    if k == 'R':
        inst = sess.cur[1]
        return outcome(lambda: inst.render(Document(DOCS[op[1]])))
    if k == 'M':
        return outcome(lambda: mistletoe.markdown(DOCS[op[1]], REN[op[2]]))
    if k == 'P':
        return outcome(lambda: dump(Document(DOCS[op[1]])))
    if k == 'N':
        return outcome(lambda: mistletoe.markdown(DOCS[op[1]], NoInlineCodeRenderer))
    if k == 'F':
        kind, where, pos, ctx = op[1]
        cls = make_boom_block(where) if kind == 'block' else make_boom_span(where)
        doc = FAULT_DOCS[(kind, ctx)]

        def go():
            with FaultRenderer(cls, pos) as r:
                return r.render(Document(doc))
        res = outcome(go)
        sess.faults[1] += 1
        if res[0] == 'exc' and res[1].startswith('RuntimeError: boom'):
            sess.faults[0] += 1
        return res
    raise ValueError(op)


def canon(x):
    return json.dumps(x, sort_keys=True, ensure_ascii=True)


def baseline_main():
    """Entry point of the fresh-interpreter subprocess: execute ONE observation, print its outcome."""
    op = json.loads(sys.argv[1])
    op = tuple(tuple(x) if isinstance(x, list) else x for x in op)
    sess = Session()
    sys.stdout.write(canon(apply_op(sess, op)))


def baseline_one(op):
    env = dict(os.environ)
    env['PYTHONPATH'] = REPO + os.pathsep + VERIF
    env['VERIF_REPO'] = REPO
    pr = subprocess.run([PY, '-c', 'from runtime import b11; b11.baseline_main()', json.dumps(op)],
                        cwd=VERIF, env=env, stdout=subprocess.PIPE, stderr=subprocess.PIPE, timeout=300)
    if pr.returncode != 0:
        raise RuntimeError('baseline subprocess failed for %r: %s' % (op, pr.stderr.decode()[-500:]))
    return pr.stdout.decode()


BASE = {}  # observation op -> canonical outcome in a fresh interpreter (filled by run())


# Pygments' guess_lexer (code blocks without a language) costs ~30 ms per call: more than all other
# observations of a history together.  Mode 'lite' keeps PygmentsRenderer on every other probe.
PYG_SLOW = ('fence_bare', 'blockcode')


def idle_observations(mode, h):
    obs = []
    if mode in ('full', 'lite'):
        rset = RNAMES
    else:
        extra = RNAMES[zlib.crc32(repr(h).encode()) % len(RNAMES)]
        rset = list(dict.fromkeys(['Html', extra]))
    for d in PNAMES:
        obs.append(('P', d))
        for r in rset:
            if r == 'Pygments' and mode != 'full' and d in PYG_SLOW:
                continue
            obs.append(('M', d, r))
    return obs


def base_key(o, sess_r=None):
    return ('M', o[1], sess_r) if o[0] == 'R' else o


# ------------------------------------------------------------------------------------------------
# running one history (always inside a forked child)

def valid(h):
    inside = False
    for op in h:
        if op[0] == 'E':
            if inside:
                return False
            inside = True
        elif op[0] in ('X', 'R'):
            if not inside:
                return False
            if op[0] == 'X':
                inside = False
        elif inside:
            return False
    return True


def run_history(h, mode='full', obs_list=None, do_restore=True):
    sess = Session()
    res = {'inv': [], 'obs': [], 'n_obs': 0, 'n_inv': 0, 'dev': [], 'faults': None}
    seen_inv = set()
    for i, op in enumerate(h):
        apply_op(sess, op)
        if sess.cur is None:
            res['n_inv'] += N_IDLE_CONTRACTS
            for name, observed in idle_violations().items():
                if name not in seen_inv:
                    seen_inv.add(name)
                    res['inv'].append((i, name, observed))
    res['faults'] = tuple(sess.faults)
    # what did the history leave behind (attribution only)
    dev = idle_violations() if sess.cur is None else {
        k: v for k, v in idle_violations().items() if k in ('charref', 'root_node', 'code_matches', 'parse_setext')}
    res['dev'] = sorted(dev)
    if sess.cur is not None and sess.cur[0] in ('LaTeX',) and getattr(sess.cur[1], 'packages', None):
        res['dev'].append('latex_packages')
    if obs_list is None:
        if sess.cur is None:
            obs_list = idle_observations(mode, h)
        else:
            obs_list = [('R', d) for d in PNAMES]
    s_h = snap(sess) if do_restore else None
    rname = sess.cur[0] if sess.cur else None
    for o in obs_list:
        if do_restore:
            restore(sess, s_h)
        got = canon(apply_op(sess, o))
        res['n_obs'] += 1
        want = BASE[base_key(o, rname)]
        if got != want:
            res['obs'].append((o, short(got)))
    return res


def in_child(fn, *args, **kw):
    """Run fn in a forked child; return its (picklable) result."""
    r, w = os.pipe()
    pid = os.fork()
    if pid == 0:
        code = 0
        try:
            os.close(r)
            try:
                data = pickle.dumps(('ok', fn(*args, **kw)))
            except BaseException as ex:  # noqa
                import traceback
                data = pickle.dumps(('err', traceback.format_exc()))
            with os.fdopen(w, 'wb') as f:
                f.write(data)
        except BaseException:  # noqa
            code = 1
        finally:
            os._exit(code)
    os.close(w)
    with os.fdopen(r, 'rb') as f:
        data = f.read()
    os.waitpid(pid, 0)
    if not data:
        return ('err', 'child died')
    return pickle.loads(data)


INV_CLASS = {
    'root_node': 'root-node-not-reset-on-exception',
    'parse_setext': 'parse-setext-not-restored-on-exception',
}


def classify_inv(name, prefix):
    if name == 'code_matches':
        return ('code-matches-not-consumed-without-inlinecode' if prefix[-1][0] == 'N'
                else 'code-matches-not-cleared-on-exception' if prefix[-1][0] == 'F' else None)
    if name in INV_CLASS and prefix[-1][0] == 'F':
        return INV_CLASS[name]
    return None


def classify_obs(h, dev):
    if 'code_matches' in dev:
        last = [op for op in h if op[0] in ('F', 'N')]
        if last and last[-1][0] == 'N':
            return 'code-matches-not-consumed-without-inlinecode'
        if last:
            return 'code-matches-not-cleared-on-exception'
    if 'parse_setext' in dev and any(op[0] == 'F' for op in h):
        return 'parse-setext-not-restored-on-exception'
    if 'latex_packages' in dev:
        return 'latex-packages-accumulate-on-instance'
    return None


def short(s, n=240):
    return s if len(s) <= n else s[:n] + '...+%d' % (len(s) - n)


def process_history(job):
    """Returns (stats, inv_failures, obs_failures) with failures as light tuples
    (contract, class, history, observation|None, observed, extra)."""
    h, mode = job
    stats = {'evaluations': 1, 'contract_evaluations': 0, 'nontrivial': 0, 'faults': (0, 0), 'unconfirmed': 0}
    inv, obsf = [], []
    st, res = in_child(run_history, h, mode)
    if st != 'ok':
        inv.append(('noraise', None, h, None, res, None))
        return stats, inv, obsf
    stats['contract_evaluations'] = res['n_obs'] + res['n_inv']
    stats['faults'] = res['faults']
    stats['nontrivial'] = 1 if any(op[0] in 'RMPFN' for op in h) else 0
    for (i, name, observed) in res['inv']:
        prefix = h[:i + 1]
        inv.append(('idle-state:' + name, classify_inv(name, prefix), prefix, None, observed, None))
    if res['obs']:
        # confirm by exact replay of h + [first failing observation], without the restore step
        o0, got0 = res['obs'][0]
        st2, res2 = in_child(run_history, h, mode, [o0], False)
        confirmed = st2 == 'ok' and res2['obs'] and res2['obs'][0][1] == got0
        cls = classify_obs(h, res['dev'])
        rname = ctx_renderer(h)
        if confirmed:
            for o, got in res['obs']:
                obsf.append(('history-independence', cls, h, o, got, res['dev']))
        else:
            # replay the chain that was really executed (no restore): report what reproduces there
            obs_all = idle_observations(mode, h) if rname is None else [('R', d) for d in PNAMES]
            st3, res3 = in_child(run_history, h, mode, obs_all, False)
            n = 0
            if st3 == 'ok':
                for o, got in res3['obs']:
                    k = obs_all.index(o)
                    hh = tuple(h) + tuple(obs_all[:k])
                    c2 = 'latex-packages-accumulate-on-instance' if rname == 'LaTeX' else None
                    obsf.append(('history-independence', c2, hh, o, got, res['dev']))
                    n += 1
            stats['unconfirmed'] = max(0, len(res['obs']) - n)
    return stats, inv, obsf


def fail_sortkey(t):
    return (len(t[2]) + (1 if t[3] is not None else 0), repr((t[2], t[3])))


def smallest(fails, per_class=40, overall=400):
    """The `overall` smallest failures plus the `per_class` smallest of every (contract, class)."""
    by_len = {}
    for t in fails:
        by_len.setdefault((len(t[2]) + (1 if t[3] is not None else 0)), []).append(t)
    picked = []
    for n in sorted(by_len):
        if len(picked) >= overall:
            break
        picked.extend(sorted(by_len[n], key=fail_sortkey)[:overall - len(picked)])
    groups = {}
    for t in fails:
        groups.setdefault((t[0], t[1]), []).append(t)
    for g in groups.values():
        m = min(len(x[2]) for x in g)
        cand = [x for x in g if len(x[2]) <= m + 1]
        picked.extend(sorted(cand, key=fail_sortkey)[:per_class])
    uniq = {}
    for t in picked:
        uniq.setdefault((t[0], t[2], t[3]), t)
    return list(uniq.values())


def process_chunk(jobs):
    agg = {'evaluations': 0, 'contract_evaluations': 0, 'distinct_nontrivial': 0,
           'faults': [0, 0], 'unconfirmed': 0, 'inv': [], 'obs_small': [], 'obs_counts': {}}
    obs_all = []
    for job in jobs:
        stats, inv, obsf = process_history(job)
        agg['evaluations'] += stats['evaluations']
        agg['contract_evaluations'] += stats['contract_evaluations']
        agg['distinct_nontrivial'] += stats['nontrivial']
        agg['faults'][0] += stats['faults'][0]
        agg['faults'][1] += stats['faults'][1]
        agg['unconfirmed'] += stats['unconfirmed']
        agg['inv'].extend(inv)
        for t in obsf:
            k = (t[0], t[1])
            agg['obs_counts'][k] = agg['obs_counts'].get(k, 0) + 1
        obs_all.extend(obsf)
        if len(obs_all) > 20000:
            obs_all = smallest(obs_all)
    agg['obs_small'] = smallest(obs_all)
    return agg


def to_failure(t):
    contract, cls, h, o, observed, dev = t
    rname = ctx_renderer(h)
    if o is None:
        f = {'key': '%s|%r' % (contract, h), 'contract': contract, 'input': {'history': list(h)},
             'observed': observed, 'expected': 'default value' if contract != 'noraise' else 'harness completes',
             'replay': replay(h, None)}
    else:
        f = {'key': '%s|%r' % (contract, (tuple(h), o)), 'contract': contract,
             'input': {'history': list(h), 'observation': o},
             'observed': short(observed), 'expected': short(BASE.get(base_key(o, rname), '?')),
             'state_left_by_history': dev, 'replay': replay(h, o)}
    if cls:
        f['class'] = cls
    return f


def in_ctx(h):
    return ctx_renderer(h) is not None


def ctx_renderer(h):
    r = None
    for op in h:
        if op[0] == 'E':
            r = op[1]
        elif op[0] == 'X':
            r = None
    return r


def replay(h, o):
    return ('cd /verif && VERIF_REPO=%s /venv/bin/python -c "from runtime import b11; '
            'print(b11.replay_cli(%r, %r))"' % (REPO, list(h), o))


def replay_cli(h, o):
    """Replays history h then observation o in this process; prints observed vs fresh baseline."""
    h = [tuple(tuple(y) if isinstance(y, list) else y for y in x) for x in h]
    sess = Session()
    log = []
    for op in h:
        r = apply_op(sess, op)
        log.append((op, r[0], dict(idle_violations()) if sess.cur is None else 'in context'))
    if o is None:
        return log
    o = tuple(tuple(y) if isinstance(y, list) else y for y in o)
    got = canon(apply_op(sess, o))
    want = baseline_one(base_key(o, ctx_renderer(h)))
    return {'log': log, 'observed': got, 'fresh': want, 'equal': got == want}


# ------------------------------------------------------------------------------------------------
# history generators

def enumerate_histories(idle_ops, ctx_ops, n):
    """All valid histories of length 0..n (tuples of ops)."""
    out = []

    def rec(h, inside):
        out.append(tuple(h))
        if len(h) == n:
            return
        if inside:
            for op in ctx_ops:
                h.append(op)
                rec(h, op[0] != 'X')
                h.pop()
        else:
            for op in idle_ops:
                h.append(op)
                rec(h, op[0] == 'E')
                h.pop()
    rec([], False)
    return out


# reduced alphabet of the exhaustive family (see 'domain')
Q_IDLE = [('E', 'Html'), ('E', 'Markdown'), ('E', 'LaTeX'), ('E', 'XWiki20'),
          ('M', 'mix', 'Html'), ('M', 'mix', 'Markdown'),
          ('P', 'mix'),
          ('F', ('block', 'read', 0, 'quote')),
          ('F', ('block', 'start', 0, 'top')),
          ('F', ('span', 'find', 4, 'top')),
          ('F', ('span', 'init', 1, 'quote')),
          ('F', ('block', 'interrupt', 9, 'list')),
          ('N', 'code')]
Q_CTX = [('X',), ('R', 'mix'), ('R', 'setext_q')]
# thorough tier, lengths 5 and 6: a sub-alphabet (the full Q alphabet gives 1.2M histories, ~7 h CPU)
T_IDLE = [('E', 'Html'), ('E', 'Markdown'), ('E', 'LaTeX'),
          ('M', 'mix', 'Html'),
          ('P', 'mix'),
          ('F', ('block', 'read', 0, 'quote')),
          ('F', ('span', 'find', 4, 'top')),
          ('F', ('span', 'init', 1, 'quote')),
          ('N', 'code')]
T_CTX = Q_CTX


def breadth_histories():
    out = []
    for f in all_faults():
        out.append((('F', f),))
    for r in RNAMES:
        for d in DNAMES:
            out.append((('E', r), ('R', d), ('X',)))
            out.append((('E', r), ('R', d)))
    for d in DNAMES:
        out.append((('P', d),))
        out.append((('N', d),))
    return out


def random_history(rng, faults):
    n = rng.randint(5, 40)
    h = []
    inside = False
    while len(h) < n:
        if inside:
            x = rng.random()
            if x < 0.3:
                h.append(('X',))
                inside = False
            else:
                h.append(('R', rng.choice(DNAMES)))
        else:
            x = rng.random()
            if x < 0.3:
                h.append(('E', rng.choice(RNAMES)))
                inside = True
            elif x < 0.5:
                h.append(('M', rng.choice(DNAMES), rng.choice(RNAMES)))
            elif x < 0.65:
                h.append(('P', rng.choice(DNAMES)))
            elif x < 0.9:
                h.append(('F', rng.choice(faults)))
            else:
                h.append(('N', rng.choice(DNAMES)))
    if inside and rng.random() < 0.7:
        h.append(('X',))
    return tuple(h)


# ------------------------------------------------------------------------------------------------

def compute_baselines(workers):
    ops = []
    for d in PNAMES:
        ops.append(('P', d))
        for r in RNAMES:
            ops.append(('M', d, r))
    outs = pool_map(baseline_one, ops, workers)
    BASE.clear()
    BASE.update(dict(zip(ops, outs)))
    return ops


def run(tier, seed, workers):
    quick = tier == 'quick'
    compute_baselines(workers)
    base_exc = sorted(repr(k) for k, v in BASE.items() if v.startswith('["exc"'))
    n = 4 if quick else 6
    hs = enumerate_histories(Q_IDLE, Q_CTX, 4)
    n_long = 0
    if not quick:
        longer = [h for h in enumerate_histories(T_IDLE, T_CTX, 6) if len(h) >= 5]
        n_long = len(longer)
        hs = hs + longer
    lite_max, = (3,) if quick else (4,)

    def mode_of(h):
        return 'full' if len(h) <= 2 else 'lite' if len(h) <= lite_max else 'reduced'
    jobs = [(h, mode_of(h)) for h in hs]
    n_exh = len(jobs)
    br = breadth_histories()
    jobs += [(h, 'lite') for h in br]
    faults = all_faults()
    n_rand = 600 if quick else 20000
    rnd = [random_history(random.Random('c11-%d-%d' % (seed, i)), faults) for i in range(n_rand)]
    jobs += [(h, 'lite') for h in rnd]
    # shuffle deterministically so that chunks have similar cost
    order = sorted(range(len(jobs)), key=lambda i: zlib.crc32(repr(jobs[i][0]).encode()))
    jobs = [jobs[i] for i in order]
    parts = pool_map(process_chunk, chunks(jobs, workers * 16), workers)
    out = {'evaluations': 0, 'distinct_nontrivial': 0, 'contract_evaluations': len(BASE)}
    faults_n = [0, 0]
    unconfirmed = 0
    inv = {}
    obs_small = []
    counts = {}
    for r in parts:
        out['evaluations'] += r['evaluations']
        out['distinct_nontrivial'] += r['distinct_nontrivial']
        out['contract_evaluations'] += r['contract_evaluations']
        faults_n[0] += r['faults'][0]
        faults_n[1] += r['faults'][1]
        unconfirmed += r['unconfirmed']
        for t in r['inv']:
            inv.setdefault((t[0], t[2]), t)
        obs_small.extend(r['obs_small'])
        for k, v in r['obs_counts'].items():
            counts[k] = counts.get(k, 0) + v
    for t in inv.values():
        counts[(t[0], t[1])] = counts.get((t[0], t[1]), 0) + 1
    total = sum(counts.values())
    by_class = {'%s/%s' % (k[0], k[1] or 'unclassified'): v for k, v in sorted(counts.items(), key=repr)}
    kept = smallest(list(inv.values()) + obs_small, per_class=25, overall=400 - 25 * len(counts))
    kept = sorted(kept, key=fail_sortkey)[:400]
    out.update({
        'domain': ('HIST(%d): all %d properly bracketed, non-nested histories of length 0..4 over the reduced '
                   'alphabet idle=%r / in-context=%r%s (reduction: 4 of the 11 renderers can be entered -- one per '
                   'distinct way of changing the token lists: Html adds 2 tokens, Markdown removes Footnote and '
                   'adds 4, LaTeX adds Math, XWiki20 adds 4 --, the in-history documents are one composite '
                   'document "mix" that exercises every scratch variable and the quote/setext probe, 5 of the %d '
                   'fault placements -- one per distinct way of leaving state behind plus block start/interrupt '
                   '--, one custom-span-list render); each history is followed by EVERY probe observation: idle '
                   '-> for each of the %d probes a bare-parse dump + markdown() with each of the 11 renderers '
                   '(%d observations) for histories of length <= 2; length 3%s: the same minus PygmentsRenderer '
                   'on the 2 probes whose code blocks have no language (guess_lexer costs more than everything '
                   'else together); length %s: bare-parse dump + Html + one rotating renderer '
                   '(up to %d observations); in context -> render of each probe with the entered renderer. '
                   'BREADTH: %d short histories covering the full alphabet once ([F] for every fault kind x raise '
                   'site x context x position of either token list (%d), [enter R, render d(, exit)] for all 11 '
                   'renderers x %d documents, [bare parse d], [custom-span-list render d]); RANDOM: %d seeded '
                   'histories of length 5..41 over the full alphabet; fresh-interpreter baselines: %d '
                   'subprocesses, one per observation'
                   % (n, n_exh - n_long, Q_IDLE, Q_CTX,
                      '' if quick else ' plus all %d histories of length 5 and 6 over the sub-alphabet idle=%r '
                      '(same in-context ops)' % (n_long, T_IDLE), len(faults), len(PNAMES), len(PNAMES) * (1 + len(RNAMES)),
                      '' if quick else ' and 4', '4' if quick else '5 and 6', len(PNAMES) * 3,
                      len(br), len(faults), len(DNAMES), n_rand, len(BASE))),
        'rule': ('a case is one history run in its own forked child followed by all observations; it is '
                 'non-trivial if the history contains at least one parse/render/faulty-parse operation '
                 '(so that there is earlier library use the observation could depend on)'),
        'exhaustive': True,
        'fault_ops_executed': faults_n[1], 'fault_ops_that_raised_boom': faults_n[0],
        'baseline_outcomes_that_are_exceptions': base_exc,
        'unconfirmed_mismatches_dropped': unconfirmed,
        'samples': [list(hs[i]) for i in range(0, len(hs), max(1, len(hs) // 5))][:5] + [list(rnd[0])],
        'failures_total': total,
        'failures_by_class': by_class,
        'failures': [to_failure(t) for t in kept],
    })
    return out
