"""Tree side of the DOCS generator: node type, structural rules, random and exhaustive generators.

No mistletoe imports.

A *tree* is a list of block `Node`s.  Every node has `.kind` and (after `number(tree)`) a unique
integer `.id` (pre-order).  Block kinds and their attributes:

  para     inl                        paragraph; line breaks are 'soft'/'hard' inline nodes (<= 2)
  atx      level(1-6), inl            ATX heading
  setext   level(1-2), inl            setext heading (one content line)
  hr                                  thematic break
  fence    info, lines                fenced code block (lines without line terminators)
  icode    lines                      indented code block (first and last line non-blank)
  quote    children                   block quote
  list     ordered, tight, start, items   items: list of Node('item', children=[...])
  table    header, aligns, rows       header/rows: Node('row', cells=[Node('cell', inl)]);
                                      aligns: None | 'left' | 'center' | 'right' per column
  html     text                       HTML block, one of HTML_FORMS
  linkdef  label, dest, title         link reference definition (renders to nothing)

Inline kinds: text(s) em/strong/del(children[, glued]) code(s) link(children,dest,title)
reflink(children,label,form in full|collapsed|shortcut) image(children,dest,title)
refimage(children,label,form) autolink(url,email) hard soft esc(ch) ent(src,ch) rawhtml(s).
"""
import itertools
import random


class Node:
    def __init__(self, kind, **kw):
        self.kind = kind
        self.id = None
        self.__dict__.update(kw)

    def __repr__(self):
        d = {k: v for k, v in self.__dict__.items() if k not in ('kind', 'id')}
        return '%s(%s)' % (self.kind, ', '.join('%s=%r' % kv for kv in d.items()))


def T(s):
    return Node('text', s=s)


HTML_FORMS = ['<div>\nhello\n</div>', '<!-- c -->', '<pre>\nfoo  bar\n</pre>', '<table>\n<tr><td>x</td></tr>\n</table>']
# forms that end on the line where their end condition is met (types 1-5); the others (type 6)
# end only at a blank line or the end of the container
HTML_CLOSED = {'<!-- c -->', '<pre>\nfoo  bar\n</pre>'}


def block_children(b):
    """Direct child block lists of a container block."""
    if b.kind == 'quote':
        return [b.children]
    if b.kind == 'list':
        return [it.children for it in b.items]
    return []


def number(tree):
    """Assign pre-order ids to all block nodes (items, rows and cells included)."""
    c = itertools.count()

    def walk(blocks):
        for b in blocks:
            b.id = next(c)
            if b.kind == 'quote':
                walk(b.children)
            elif b.kind == 'list':
                for it in b.items:
                    it.id = next(c)
                    walk(it.children)
            elif b.kind == 'table':
                for r in [b.header] + b.rows:
                    r.id = next(c)
                    for cell in r.cells:
                        cell.id = next(c)
    walk(tree)
    return tree


def count_blocks(tree):
    n = 0
    for b in tree:
        n += 1
        for ch in block_children(b):
            n += count_blocks(ch)
    return n


def tree_depth(tree):
    return 0 if not tree else 1 + max([0] + [tree_depth(ch) for b in tree for ch in block_children(b)])


# ------------------------------------------------------------------------------------------
# structural rules shared by generator and writer

def nodefs(blocks):
    return [b for b in blocks if b.kind != 'linkdef']


def tail_leaf(b):
    """The deepest last block of `b` (None for an empty container)."""
    while True:
        if b.kind == 'quote':
            if not b.children:
                return None
            b = b.children[-1]
        elif b.kind == 'list':
            ch = b.items[-1].children
            if not ch:
                return None
            b = ch[-1]
        else:
            return b


def can_interrupt_kind(b):
    """Can `b` interrupt a paragraph in at least one of its spellings?  (The writer restricts
    the spelling accordingly: no '---' thematic break, no item starting with a blank line.)"""
    k = b.kind
    if k in ('atx', 'fence', 'quote', 'hr', 'html'):
        return True
    if k == 'list':
        if b.ordered and b.start != 1:
            return False
        return bool(b.items[0].children)
    return False


def may_omit_blank(a, b):
    """May block `b` follow block `a` directly, without a blank line, and still be parsed as the
    same two blocks (CommonMark 0.30 sections 4-5; GFM tables)?"""
    if a.kind == 'quote' and b.kind == 'quote':
        return False
    if a.kind == 'list' and b.kind == 'list' and a.ordered == b.ordered:
        return False
    t = tail_leaf(a)
    direct = t is a
    if t is None:
        return True
    tk = t.kind
    if tk in ('para', 'linkdef'):
        if direct and tk == 'linkdef' and b.kind in ('para', 'setext', 'linkdef'):
            return True
        return can_interrupt_kind(b)
    if tk == 'table':
        return b.kind in ('quote', 'atx', 'hr', 'fence')
    if tk == 'html':
        if t.text in HTML_CLOSED:
            return True
        return not direct
    if tk == 'icode' and b.kind == 'icode':
        return False
    return True


def forbidden_pair(a, b):
    """Sibling pairs (link definitions ignored) that cannot be written at all."""
    if a.kind == 'icode' and b.kind == 'icode':
        return True                      # would merge into one code block
    if a.kind == 'list' and b.kind == 'icode':
        return True                      # would be absorbed by the last list item
    if a.kind == 'list' and b.kind == 'list' and a.ordered == b.ordered:
        return True                      # would merge (or need distinct marker characters)
    return False


def valid_siblings(blocks, tight=False):
    for seq in (blocks, nodefs(blocks)):
        for a, b in zip(seq, seq[1:]):
            if a.kind != 'linkdef' and b.kind != 'linkdef' and forbidden_pair(a, b):
                return False
            if tight and not may_omit_blank(a, b):
                return False
    return True


def valid_tree(tree, tight=False):
    if not valid_siblings(tree, tight):
        return False
    for b in tree:
        if b.kind == 'quote':
            if not valid_tree(b.children):
                return False
        elif b.kind == 'list':
            if not b.tight and len(b.items) == 1 and len(nodefs(b.items[0].children)) < 2:
                return False
            for it in b.items:
                if not valid_tree(it.children, tight=b.tight):
                    return False
    return True


# ------------------------------------------------------------------------------------------
# inline generation

WORDS = ['foo', 'bar', 'baz', 'qux', 'lorem', 'ipsum', 'dolor', 'Sit', 'amet', 'x']
CODE_SPANS = ['x', 'a b', 'a*b*', '<b>', 'a`b', '[c](d)', 'a  b', '&amp;', '\\', '_q_']
DESTS = ['/url', 'http://example.com/a_b', '/p?x=1&y=2', '', '/a(b)c', '/my%20url', 'foo.png']
TITLES = ['', '', 'title', 'the *title*', 'a b']
ESCAPES = list('*_#[`<&\\]!-.+>~')
ENTITIES = [('&amp;', '&'), ('&#35;', '#'), ('&copy;', '©'), ('&#x2A;', '*'), ('&lt;', '<')]
RAW_HTML = ['<span>', '</span>', '<b class="x">', '<br/>', '<!-- note -->']
AUTOLINKS = [('http://example.com/x', False), ('foo@bar.example.com', True),
             ('https://a.b/c?d=e&f', False)]
LABELS = ['foo', 'bar baz', 'Ref', 'q-x', 'alpha', 'beta']


def _words(rng, lo=1, hi=3):
    return ' '.join(rng.choice(WORDS) for _ in range(rng.randint(lo, hi)))


def join_atoms(atoms, seps):
    """atoms: inline nodes; seps[i] between atoms[i] and atoms[i+1]: ' ' | '' | 'soft' | 'hard'.
    Returns the inline list with separators materialised and adjacent text nodes merged."""
    out = []

    def push(n):
        if n.kind == 'text' and out and out[-1].kind == 'text':
            out[-1] = T(out[-1].s + n.s)
        else:
            out.append(n)
    for i, a in enumerate(atoms):
        push(a)
        if i < len(seps):
            s = seps[i]
            if s == ' ':
                push(T(' '))
            elif s in ('soft', 'hard'):
                out.append(Node(s))
    return out


class InlineGen:
    """Generates inline lists.  `labels`: labels of the definitions available in the tree."""

    def __init__(self, rng, labels):
        self.rng = rng
        self.labels = labels

    def atom(self, depth, in_link, top, alt=False):
        r = self.rng
        kinds = ['text'] * 6 + ['code', 'esc', 'ent', 'autolink', 'rawhtml']
        if depth > 0:
            kinds += ['em', 'em', 'strong', 'strong', 'del']
            if not in_link:
                kinds += ['link', 'link', 'image']
                if self.labels:
                    kinds += ['reflink'] * 3 + ['refimage']
            elif self.labels:
                kinds += ['refimage']
            if in_link:
                kinds += ['image']
        if in_link:
            kinds = [k for k in kinds if k != 'autolink']
        if alt:
            kinds = [k for k in kinds if k not in ('autolink', 'rawhtml')]
        k = r.choice(kinds)
        if k == 'text':
            return T(_words(r))
        if k == 'code':
            return Node('code', s=r.choice(CODE_SPANS))
        if k == 'esc':
            return Node('esc', ch=r.choice(ESCAPES))
        if k == 'ent':
            src, ch = r.choice(ENTITIES)
            return Node('ent', src=src, ch=ch)
        if k == 'autolink':
            url, email = r.choice(AUTOLINKS)
            return Node('autolink', url=url, email=email)
        if k == 'rawhtml':
            return Node('rawhtml', s=r.choice(RAW_HTML))
        if k in ('em', 'strong', 'del'):
            return Node(k, children=self.seq(depth - 1, in_link, breaks=0, avoid=k, alt=alt), glued=False)
        if k == 'link':
            return Node('link', children=self.seq(depth - 1, True, breaks=0),
                        dest=r.choice(DESTS), title=r.choice(TITLES))
        if k == 'image':
            return Node('image', children=self.seq(min(depth - 1, 1), True, breaks=0, alt=True),
                        dest=r.choice(DESTS), title=r.choice(TITLES))
        if k in ('reflink', 'refimage'):
            label = r.choice(self.labels)
            form = r.choice(['full', 'collapsed', 'shortcut'])
            if form == 'full':
                ch = self.seq(depth - 1, True, breaks=0, alt=(k == 'refimage'))
                lab = r.choice([label, label.upper(), label.replace(' ', '  ')])
            else:
                lab = r.choice([label, label.upper(), label.capitalize()])
                ch = [T(lab)]
            return Node(k, children=ch, label=lab, form=form)
        raise AssertionError(k)

    def seq(self, depth, in_link=False, breaks=0, avoid=None, alt=False, top=False, maxlen=4):
        r = self.rng
        n = r.choice([1, 1, 1, 2, 2, 3, maxlen])
        atoms = []
        for i in range(n):
            for _ in range(20):
                a = self.atom(depth, in_link, top, alt)
                if a.kind == avoid:
                    continue
                if alt and a.kind in ('rawhtml', 'autolink'):
                    continue
                if atoms and a.kind == 'text' and atoms[-1].kind == 'text':
                    continue
                break
            else:
                a = Node('code', s='x')
            atoms.append(a)
        if atoms[0].kind == 'rawhtml':
            atoms.insert(0, T(r.choice(WORDS)))
        seps = []
        nb = 0
        for i in range(len(atoms) - 1):
            a, b = atoms[i], atoms[i + 1]
            s = ' '
            if nb < breaks and r.random() < 0.3:
                s = r.choice(['soft', 'soft', 'hard'])
                nb += 1
                if b.kind == 'rawhtml':
                    s = ' '
                    nb -= 1
            elif r.random() < 0.15:
                # glue: only text next to esc/ent, or (top level) text next to a one-word em/strong
                ks = {a.kind, b.kind}
                if ks in ({'text', 'esc'}, {'text', 'ent'}, {'esc', 'ent'}):
                    s = ''
                elif top and 'text' in ks and (ks & {'em', 'strong'}):
                    e = a if a.kind in ('em', 'strong') else b
                    if len(e.children) == 1 and e.children[0].kind == 'text':
                        # both neighbours of a glued emphasis must be handled with '*'
                        e.glued = True
                        s = ''
            seps.append(s)
        return join_atoms(atoms, seps)


# ------------------------------------------------------------------------------------------
# block generation (random)

CODE_LINES = ['foo', 'x = 1', '# not heading', '- not list', '> not quote', '  two', '<div>',
              '*a*', '', 'a & b', '[foo]: /url', '    deep', '1. one', '***', '~~~ x', '`` y', '```abc']


class TreeGen:
    def __init__(self, rng, max_blocks, max_depth):
        self.rng = rng
        self.max_depth = max_depth
        self.budget = max_blocks
        n_labels = rng.choice([0, 0, 1, 2, 3])
        self.labels = rng.sample(LABELS, n_labels)
        self.pending_defs = list(self.labels)
        self.ig = InlineGen(rng, self.labels)

    def inl(self, breaks=0, maxlen=4):
        return self.ig.seq(self.rng.choice([0, 1, 1, 2, 2]), breaks=breaks, top=True, maxlen=maxlen)

    def leaf(self, kind):
        r = self.rng
        if kind == 'para':
            return Node('para', inl=self.inl(breaks=2, maxlen=5))
        if kind == 'atx':
            return Node('atx', level=r.randint(1, 6), inl=self.inl())
        if kind == 'setext':
            return Node('setext', level=r.randint(1, 2), inl=self.inl())
        if kind == 'hr':
            return Node('hr')
        if kind == 'fence':
            lines = [r.choice(CODE_LINES) for _ in range(r.randint(0, 4))]
            return Node('fence', info=r.choice(['', '', 'py', 'c++ extra', 'x-y']), lines=lines)
        if kind == 'icode':
            lines = [r.choice(CODE_LINES) for _ in range(r.randint(1, 3))]
            lines = [l.lstrip(' ') if i == 0 else l for i, l in enumerate(lines)]
            while lines and lines[-1] == '':
                lines.pop()
            while lines and lines[0] == '':
                lines.pop(0)
            return Node('icode', lines=lines or ['foo'])
        if kind == 'html':
            return Node('html', text=r.choice(HTML_FORMS))
        if kind == 'table':
            nc = r.randint(1, 3)

            def row():
                cells = []
                for _ in range(nc):
                    inl = [] if r.random() < 0.12 else self.ig.seq(r.choice([0, 1, 1]), maxlen=2)
                    cells.append(Node('cell', inl=inl))
                if not cells[0].inl:
                    cells[0].inl = [T(r.choice(WORDS))]
                return Node('row', cells=cells)
            hdr = row()
            for c in hdr.cells:
                if not c.inl:
                    c.inl = [T(r.choice(WORDS))]
            nrows = r.choice([0, 1, 1, 2, 2, 3]) if r.random() < 0.3 else r.choice([1, 2, 3])
            return Node('table', header=hdr, rows=[row() for _ in range(nrows)],
                        aligns=[r.choice([None, None, 'left', 'center', 'right']) for _ in range(nc)])
        raise AssertionError(kind)

    def linkdef(self, label):
        r = self.rng
        return Node('linkdef', label=label, dest=r.choice([d for d in DESTS if d]),
                    title=r.choice(TITLES))

    def block(self, depth):
        r = self.rng
        self.budget -= 1
        kinds = ['para'] * 5 + ['atx', 'atx', 'setext', 'hr', 'fence', 'fence', 'icode', 'html', 'table']
        if depth < self.max_depth and self.budget > 0:
            kinds += ['quote'] * 3 + ['list'] * 5
        k = r.choice(kinds)
        if k == 'quote':
            n = r.choice([0, 1, 1, 2, 2, 3]) if r.random() < 0.15 else r.choice([1, 1, 2, 2, 3])
            return Node('quote', children=self.blocks(depth + 1, n))
        if k == 'list':
            ordered = r.random() < 0.45
            tight = r.random() < 0.55
            start = r.choice([1, 1, 1, 0, 2, 3, 7, 10, 99, 123456789]) if ordered else None
            for _ in range(30):
                save = (self.budget, list(self.pending_defs))
                nitems = r.choice([1, 2, 2, 3])
                items = []
                for i in range(nitems):
                    if r.random() < 0.08 and nitems > 1:
                        items.append(Node('item', children=[]))
                        continue
                    n = r.choice([1, 1, 1, 2, 2, 3])
                    for _ in range(30):
                        s2 = (self.budget, list(self.pending_defs))
                        ch = self.blocks(depth + 1, n)
                        if valid_siblings(ch, tight):
                            break
                        self.budget, self.pending_defs = s2[0], s2[1]
                    else:
                        ch = [self.leaf('para')]
                        self.budget -= 1
                    items.append(Node('item', children=ch))
                lst = Node('list', ordered=ordered, tight=tight, start=start, items=items)
                if valid_tree([lst]):
                    return lst
                self.budget, self.pending_defs = save[0], save[1]
            self.budget -= 1
            return Node('list', ordered=ordered, tight=True, start=start,
                        items=[Node('item', children=[self.leaf('para')])])
        return self.leaf(k)

    def blocks(self, depth, n):
        """A valid sibling sequence of about n blocks (budget permitting)."""
        r = self.rng
        out = []
        for _ in range(n):
            if self.budget <= 0:
                break
            if self.pending_defs and r.random() < 0.3:
                out.append(self.linkdef(self.pending_defs.pop()))
            for _ in range(30):
                save = (self.budget, list(self.pending_defs))
                b = self.block(depth)
                prev = nodefs(out)
                if not prev or not forbidden_pair(prev[-1], b):
                    out.append(b)
                    break
                self.budget, self.pending_defs = save[0], save[1]
        return out

    def tree(self):
        r = self.rng
        n = max(1, self.budget)
        n_top = r.randint(1, max(1, min(n, 2 + n // 3)))
        tree = []
        while self.budget > 0 and len(nodefs(tree)) < n_top:
            saved = list(self.pending_defs)
            more = self.blocks(1, 1)
            if not more:
                break
            prev = nodefs(tree)
            real = nodefs(more)
            if prev and real and forbidden_pair(prev[-1], real[0]):
                self.pending_defs = saved
                continue
            tree.extend(more)
        # definitions not yet placed go to the end or the front of the document
        for lab in self.pending_defs:
            d = self.linkdef(lab)
            if r.random() < 0.5:
                tree.append(d)
            else:
                tree.insert(0, d)
        self.pending_defs = []
        if not nodefs(tree):
            tree.append(self.leaf('para'))
        return tree


def gen_trees(max_blocks, max_depth, seed, count, start=0):
    """`count` seeded random trees with at most max_blocks blocks (link definitions not counted)
    and nesting depth <= max_depth (top level = depth 1).  Tree number i depends only on
    (max_blocks, max_depth, seed, i); `start` skips the first trees of the sequence."""
    for i in range(start, start + count):
        rng = random.Random('docs-tree|%d|%d|%d|%d' % (max_blocks, max_depth, seed, i))
        nb = rng.randint(1, max_blocks) if rng.random() < 0.5 else max_blocks
        for attempt in range(50):
            g = TreeGen(rng, nb, max_depth)
            t = g.tree()
            if valid_tree(t):
                break
        else:
            t = [Node('para', inl=[T('foo')])]
        yield number(t)


# ------------------------------------------------------------------------------------------
# exhaustive small-scope enumeration

def _leaf_variants():
    out = [
        lambda: Node('para', inl=[T('foo')]),
        lambda: Node('para', inl=[T('foo'), Node('soft'), T('bar '),
                                  Node('em', children=[T('baz')], glued=False)]),
        lambda: Node('atx', level=2, inl=[T('head')]),
        lambda: Node('setext', level=2, inl=[T('sub')]),
        lambda: Node('hr'),
        lambda: Node('fence', info='py', lines=['x', '', '  y']),
        lambda: Node('icode', lines=['code']),
        lambda: Node('html', text=HTML_FORMS[0]),
        lambda: Node('html', text=HTML_FORMS[1]),
        lambda: Node('table', header=Node('row', cells=[Node('cell', inl=[T('a')]),
                                                        Node('cell', inl=[T('b')])]),
                     aligns=[None, 'right'],
                     rows=[Node('row', cells=[Node('cell', inl=[T('c')]),
                                              Node('cell', inl=[Node('code', s='d')])])]),
        lambda: Node('linkdef', label='foo', dest='/url', title='t'),
    ]
    return out


def _seqs_exact(n, d):
    if n == 0:
        yield []
        return
    for k in range(1, n + 1):
        for first in _blocks_exact(k, d):
            for rest in _seqs_exact(n - k, d):
                yield [first] + rest


def _blocks_exact(n, d):
    """Factories of single blocks that use exactly n blocks."""
    if n == 1:
        for f in _leaf_variants():
            yield f
    if d <= 1 or n < 1:
        return
    # quote with children using n-1 blocks (empty quote when n == 1)
    for ch in _seqs_exact(n - 1, d - 1):
        yield (lambda ch=ch: Node('quote', children=[f() if callable(f) else f for f in ch]))
    # lists: one or two items
    for ordered, tight, start in ((False, True, None), (False, False, None), (True, True, 1),
                                  (True, False, 3)):
        for n1 in range(0, n):
            n2 = n - 1 - n1
            for c1 in _seqs_exact(n1, d - 1):
                if n2 == 0:
                    if n1 == 0:
                        continue
                    yield (lambda c1=c1, o=ordered, t=tight, s=start: Node(
                        'list', ordered=o, tight=t, start=s,
                        items=[Node('item', children=[f() for f in c1])]))
                    # second item empty
                    yield (lambda c1=c1, o=ordered, t=tight, s=start: Node(
                        'list', ordered=o, tight=t, start=s,
                        items=[Node('item', children=[f() for f in c1]),
                               Node('item', children=[])]))
                else:
                    for c2 in _seqs_exact(n2, d - 1):
                        yield (lambda c1=c1, c2=c2, o=ordered, t=tight, s=start: Node(
                            'list', ordered=o, tight=t, start=s,
                            items=[Node('item', children=[f() for f in c1]),
                                   Node('item', children=[f() for f in c2])]))


def _attach_ref(tree):
    """If the tree has a definition, make the first paragraph (anywhere) use it."""
    state = {'def': False, 'para': None}

    def walk(blocks):
        for b in blocks:
            if b.kind == 'linkdef':
                state['def'] = True
            elif b.kind == 'para' and state['para'] is None:
                state['para'] = b
            for ch in block_children(b):
                walk(ch)
    walk(tree)
    if state['def'] and state['para'] is not None:
        p = state['para']
        p.inl = p.inl + [T(' '), Node('reflink', children=[T('Foo')], label='Foo', form='shortcut')]
    ndefs = [0]

    def dedupe(blocks):
        # labels must be unique: later definitions get distinct labels nobody uses
        for b in blocks:
            if b.kind == 'linkdef':
                ndefs[0] += 1
                if ndefs[0] > 1:
                    b.label = 'foo' + 'x' * (ndefs[0] - 1)
            for ch in block_children(b):
                dedupe(ch)
    dedupe(tree)


def enumerate_trees(max_blocks, max_depth):
    """All valid trees with 1..max_blocks blocks and nesting <= max_depth over the reduced leaf
    vocabulary of `_leaf_variants` (two paragraph shapes; a shortcut reference is added to the
    first paragraph when the tree holds a definition)."""
    for n in range(1, max_blocks + 1):
        for fs in _seqs_exact(n, max_depth):
            tree = [f() for f in fs]
            if not nodefs(tree):
                continue
            if not valid_tree(tree):
                continue
            _attach_ref(tree)
            yield number(tree)
