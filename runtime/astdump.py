"""Structural dump of a mistletoe token tree (shared by b04, b05, b07, b12).

Independent of mistletoe's AstRenderer/get_ast: a node is dumped from what the object itself
carries.  Works for any token class (custom ones included):

    node = {'t': class name,
            'ln': line_number            (only with lines=True and only if the token has one),
            'a': {attr: value, ...}      public instance attributes with JSON-like values; an
                                         attribute whose value is itself a token (Table.header) is
                                         dumped recursively,
            'c': [child nodes] | None}   None = the token has no children attribute (leaf)

`attrs` selects attributes: None = all public instance attributes except line_number; a
collection of names = only those.  Objects met twice on one root-to-leaf path are cut
({'t': ..., 'cycle': True}) so that the dump terminates on any object graph.
"""

_SCALARS = (str, int, float, bool, type(None))


def _is_token(v):
    return hasattr(v, 'children') and hasattr(type(v), 'repr_attributes')


def _plain(v):
    """JSON-like copy of an attribute value, or raise TypeError."""
    if isinstance(v, _SCALARS):
        return v
    if isinstance(v, (list, tuple)):
        return [_plain(x) for x in v]
    if isinstance(v, dict):
        return {str(k): _plain(x) for k, x in v.items()}
    raise TypeError(type(v))


def dump(tok, lines=False, attrs=None, _path=None):
    path = _path or ()
    name = type(tok).__name__
    if id(tok) in path:
        return {'t': name, 'cycle': True}
    path = path + (id(tok),)
    node = {'t': name}
    if lines and getattr(tok, 'line_number', None) is not None:
        node['ln'] = tok.line_number
    a = {}
    for k, v in sorted(vars(tok).items()):
        if k.startswith('_') or k == 'line_number':
            continue
        if attrs is not None and k not in attrs:
            continue
        if _is_token(v):
            a[k] = dump(v, lines, attrs, path)
            continue
        try:
            a[k] = _plain(v)
        except TypeError:
            continue
    node['a'] = a
    ch = tok.children
    node['c'] = None if ch is None else [dump(c, lines, attrs, path) for c in ch]
    return node


def dump_children(tok, lines=False, attrs=None):
    return [dump(c, lines, attrs) for c in (tok.children or [])]


def shift(node, k):
    """Copy of a dump (node or list of nodes) with every line number increased by k."""
    if isinstance(node, list):
        return [shift(x, k) for x in node]
    if not (isinstance(node, dict) and 't' in node):
        return node
    out = dict(node)
    if 'ln' in out:
        out['ln'] += k
    if 'a' in out:
        out['a'] = {key: shift(v, k) for key, v in out['a'].items()}
    if out.get('c') is not None:
        out['c'] = [shift(c, k) for c in out['c']]
    return out


def diff(a, b, path='$'):
    """First difference between two dumps as a short string, or None if equal."""
    if a == b:
        return None
    if isinstance(a, list) and isinstance(b, list):
        for i, (x, y) in enumerate(zip(a, b)):
            d = diff(x, y, '%s[%d]' % (path, i))
            if d:
                return d
        return '%s: %d vs %d nodes (%s | %s)' % (path, len(a), len(b),
                                                 [x.get('t') for x in a][:6], [y.get('t') for y in b][:6])
    if isinstance(a, dict) and isinstance(b, dict) and 't' in a and 't' in b:
        if a['t'] != b['t']:
            return '%s: %s vs %s' % (path, a['t'], b['t'])
        p = '%s/%s' % (path, a['t'])
        if a.get('ln') != b.get('ln'):
            return '%s.line_number: %r vs %r' % (p, a.get('ln'), b.get('ln'))
        aa, ba = a.get('a', {}), b.get('a', {})
        for k in sorted(set(aa) | set(ba)):
            if aa.get(k, '<absent>') != ba.get(k, '<absent>'):
                if isinstance(aa.get(k), dict) and isinstance(ba.get(k), dict) and 't' in aa[k]:
                    return diff(aa[k], ba[k], p + '.' + k)
                return '%s.%s: %r vs %r' % (p, k, aa.get(k, '<absent>'), ba.get(k, '<absent>'))
        ac, bc = a.get('c'), b.get('c')
        if ac is None or bc is None:
            return '%s.children: %s vs %s' % (p, 'None' if ac is None else len(ac), 'None' if bc is None else len(bc))
        return diff(ac, bc, p)
    return '%s: %r vs %r' % (path, a, b)


def brief(node, depth=3):
    """Compact one-line rendering of a dump for failure records."""
    if isinstance(node, list):
        return '[' + ', '.join(brief(x, depth) for x in node) + ']'
    s = node['t']
    if 'ln' in node:
        s += '@%d' % node['ln']
    if 'content' in node.get('a', {}):
        s += repr(node['a']['content'])
    for k in ('level', 'start', 'leader'):
        if k in node.get('a', {}):
            s += '{%s=%r}' % (k, node['a'][k])
    if node.get('c'):
        s += brief(node['c'], depth - 1) if depth > 0 else '[...]'
    return s
