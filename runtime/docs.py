"""DOCS: a deterministic, seedable structural generator of Markdown documents TOGETHER WITH the
ground truth they were written from (DESIGN.md section 3, domain `DOCS(k)`).

No mistletoe imports here or in the three implementation modules:

  docs_tree.py   Node type, structural rules, `gen_trees`, `enumerate_trees`
  docs_write.py  `Spelling`, `spellings`, `canonical_spelling`, `write` -> `Written`
  docs_html.py   `serialise_html`, `normalize_html`

API
  gen_trees(max_blocks, max_depth, seed, count) -> iterator of trees (lists of block Nodes)
  enumerate_trees(max_blocks, max_depth)        -> exhaustive small scope, reduced vocabulary
  spellings(tree, seed, count)                  -> iterator of Spelling
  canonical_spelling(tree)                      -> the deterministic plain spelling
  write(tree, spelling) -> Written(text, lines={node.id: 1-based start line}, tree, spelling)
  serialise_html(tree)  -> HTML prescribed by CommonMark 0.30 / GFM for the tree
  normalize_html(s)     -> normalisation of the CommonMark test driver

Tree shape: see the docstring of docs_tree.  Every block node (list items, table rows and table
cells included) carries a pre-order `.id`; `Written.lines` is keyed by it.

Deliberate restrictions of the generator (so that every (tree, spelling) is unambiguous under the
specification): text is lower/upper-case words only; raw inline HTML never starts a line; code
spans and headings are single-line; tables, HTML blocks and blocks following a list start at
column 0 of their container; a table's missing alignment is serialised as align="left" (the
format of mistletoe's HtmlRenderer; GFM omits the attribute); sibling lists of the same type,
sibling indented code blocks and an indented code block after a list are never generated.
"""
from runtime.docs_tree import (Node, T, gen_trees, enumerate_trees, number, count_blocks,  # noqa
                               tree_depth, nodefs, valid_tree, block_children, HTML_FORMS)
from runtime.docs_write import (Spelling, spellings, canonical_spelling, write, Written)  # noqa
from runtime.docs_html import (serialise_html, normalize_html, collect_defs)  # noqa


def tree_repr(tree):
    return repr(tree)
