"""C03 (bounded tier): documents written from a tree of constructs parse back to that tree.

Runtime contract, evaluated on the real `Document` / `HtmlRenderer` of the tree under test:

    noraise:  HtmlRenderer().render(Document(written.text)) raises nothing
    c03:      normalize_html(HtmlRenderer().render(Document(written.text)))
                  == normalize_html(serialise_html(tree))

for (tree, spelling) pairs of the DOCS generator (runtime/docs.py).  The expected HTML is written
directly from the tree (runtime/docs_html.py) and never computed with mistletoe.

Three parts: (a) exhaustive small-scope trees, (b) seeded random trees, (c) DIRECTED trees that are
the same for every seed (see `directed_specs`): every placement of the blank lines in chains of
2-3 containers with a following block / item (tight versus loose lists), two-item lists over all
pairs of block kinds, and content the seeded grammar leaves out (inline content over several
lines, non-ASCII text, empty content, 3-4 items, short / over-long / pipe-less table rows).
"""
import hashlib

import itertools

from runtime.common import use_repo, pool_map
from runtime import docs
from runtime.docs import Node, T
from runtime.docs_tree import may_omit_blank, forbidden_pair, number
from runtime.docs_classify import classify, features, CLASSES
from runtime.docs_shrink import shrink

SPELLINGS_ENUM = 3       # random spellings per enumerated tree (plus the canonical one)
SPELLINGS_RAND = 2       # random spellings per random tree (plus the canonical one)
MAX_FAILURES = 400


def _render(text):
    use_repo()
    from mistletoe import Document, HtmlRenderer
    with HtmlRenderer() as r:
        return r.render(Document(text))


def observe(text):
    """(normalised html | None, exception repr | None)"""
    try:
        return docs.normalize_html(_render(text)), None
    except Exception as e:                      # noqa: any exception is a 'noraise' failure
        return None, '%s: %s' % (type(e).__name__, e)


def expected(tree):
    return docs.normalize_html(docs.serialise_html(tree))


def _fails(w):
    got, exc = observe(w.text)
    return exc is not None or got != expected(w.tree)


def nontrivial(tree):
    """A case is non-trivial when its tree nests (a quote or a list) or has >= 2 blocks."""
    return docs.tree_depth(tree) >= 2 or len(docs.nodefs(tree)) >= 2


# ------------------------------------------------------------------------------------------------
# directed inputs: blank-line placement x container nesting x following block kind
#
# The seeded writer decides the blank lines of a list from its `tight` flag (a loose list gets a
# blank line between all of its items, a loose one-item list between all of its blocks), so a
# document in which ONE blank line decides about looseness is never written by parts (a)/(b).
# The directed trees below fix every gap themselves (attribute `gap` = number of blank lines
# before a non-first block / item, honoured by docs_write) and the `tight` flag of every list
# is DERIVED from the gaps with the rule of CommonMark 0.30 section 5.3: "A list is loose if any
# of its constituent list items are separated by blank lines, or if any of its constituent list
# items directly contain two block-level elements with a blank line between them."  Blank
# lines inside a nested list, inside a quote ('>' lines) or inside a fenced code block do not
# count for the enclosing list; paragraphs inside a quote always keep their <p>.


def _p(s):
    return Node('para', inl=[T(s)])


def _table():
    return Node('table', header=Node('row', cells=[Node('cell', inl=[T('h')])]), aligns=[None],
                rows=[Node('row', cells=[Node('cell', inl=[T('c')])])])


_BLOCKS = {
    'para': lambda: _p('after'),
    'para2': lambda: Node('para', inl=[T('one'), Node('soft'), T('two')]),
    'atx': lambda: Node('atx', level=2, inl=[T('head')]),
    'setext': lambda: Node('setext', level=1, inl=[T('title')]),
    'hr': lambda: Node('hr'),
    'fence': lambda: Node('fence', info='', lines=['x', '', 'y', '']),
    'icode': lambda: Node('icode', lines=['code']),
    'quote': lambda: Node('quote', children=[_p('quoted')]),
    'quote2': lambda: _gapped(Node('quote', children=[_p('quoted'), _p('again')])),
    'html': lambda: Node('html', text='<!-- c -->'),
    'div': lambda: Node('html', text=docs.HTML_FORMS[0]),
    'table': _table,
    'ul': lambda: Node('list', ordered=False, tight=True, start=None,
                       items=[Node('item', children=[_p('sub')])]),
    'ol': lambda: Node('list', ordered=True, tight=True, start=1,
                       items=[Node('item', children=[_p('sub')])]),
}
SPINE_FOLLOW2 = ['atx', 'fence', 'quote', 'hr', 'html', 'para', 'table', 'setext', 'div']
SPINE_FOLLOW3 = ['atx', 'fence', 'quote', 'hr', 'para']
PAIR_KINDS = ['para', 'para2', 'atx', 'setext', 'hr', 'fence', 'icode', 'quote', 'quote2', 'html',
              'div', 'table', 'ul', 'ol']


def _gapped(q):
    """Fix the only possible gap inside a two-paragraph quote."""
    q.children[1].gap = 1
    return q


def _container(kind, content, second=None, start=1):
    if kind == 'bq':
        return Node('quote', children=content)
    items = [Node('item', children=content)]
    if second is not None:
        items.append(Node('item', children=second))
    return Node('list', ordered=(kind == 'ol'), tight=None, start=(start if kind == 'ol' else None),
                items=items)


def _spine_specs():
    """(kinds, lead, inner, follow): a chain of 2-3 containers (bullet list, ordered list, quote),
    each holding [a paragraph if `lead`,] the next container [, a following block / a second
    item at ONE level: follow = (level, block kind | None, second item?)]; the innermost holds
    one paragraph ('p'), a two-line paragraph ('p2') or two paragraphs ('pp')."""
    out = []
    for n in (2, 3):
        fkinds = SPINE_FOLLOW2 if n == 2 else SPINE_FOLLOW3
        for kinds in itertools.product(('ul', 'ol', 'bq'), repeat=n):
            follows = [None]
            for lv in range(n):
                for fk in [None] + fkinds:
                    for item2 in ((False, True) if kinds[lv] != 'bq' else (False,)):
                        if fk is None and not item2:
                            continue
                        if lv == n - 1 and fk is None:
                            continue          # two one-paragraph items: part (a) has them
                        follows.append((lv, fk, item2))
            for lead in (True, False):
                for inner in ('p', 'p2', 'pp'):
                    if inner != 'p' and n == 3 and not lead:
                        continue
                    for fo in follows:
                        out.append(('spine', kinds, lead, inner, fo))
    return out


def _spine_tree(kinds, lead, inner, follow):
    n = len(kinds)
    words = ['alpha', 'beta', 'gamma']

    def level(i):
        if i == n - 1:
            if inner == 'p2':
                content = [Node('para', inl=[T(words[i]), Node('soft'), T('more')])]
            else:
                content = [_p(words[i])]
            if inner == 'pp':
                content.append(_p('second'))
        else:
            content = ([_p(words[i])] if lead else []) + [level(i + 1)]
        second = None
        if follow is not None and follow[0] == i:
            if follow[1]:
                content.append(_BLOCKS[follow[1]]())
            if follow[2]:
                second = [_p(words[i])]       # same text as the first item's paragraph
        return _container(kinds[i], content, second, start=(3 if i == 0 else 1))
    return [level(0)]


def _pair_specs():
    """(wrap, kind, layout, x, y): a two-item list whose first ('xy-z') or second ('z-xy') item
    holds the two blocks x, y; at top level, in a quote, or after the paragraph of a bullet item."""
    out = []
    for wrap in ('top', 'bq', 'item'):
        for kind in ('ul', 'ol'):
            if wrap == 'bq' and kind == 'ol':
                continue
            for layout in ('xy-z', 'z-xy'):
                for x in PAIR_KINDS:
                    for y in PAIR_KINDS:
                        if wrap != 'top' and (x in ('ul', 'ol', 'div', 'para2')
                                              or y in ('div', 'para2', 'setext')):
                            continue
                        out.append(('pair', wrap, kind, layout, x, y))
    return out


def _pair_tree(wrap, kind, layout, x, y):
    bx, by = _BLOCKS[x](), _BLOCKS[y]()
    if forbidden_pair(bx, by):
        return None
    xy, z = [bx, by], [_p('zed')]
    lst = _container(kind, xy if layout == 'xy-z' else z, z if layout == 'xy-z' else xy, start=2)
    if wrap == 'bq':
        return [Node('quote', children=[lst])]
    if wrap == 'item':
        return [Node('list', ordered=False, tight=None, start=None,
                     items=[Node('item', children=[_p('outer'), lst])])]
    return [lst]


def _free_gaps(blocks, acc):
    """Non-first blocks / items without a fixed gap, with the gaps the specification allows."""
    for b in blocks:
        seqs = [b.children] if b.kind == 'quote' else (
            [it.children for it in b.items] if b.kind == 'list' else [])
        if b.kind == 'list':
            for it in b.items[1:]:
                acc.append((it, (0, 1)))
        for ch in seqs:
            for prev, c in zip(ch, ch[1:]):
                if getattr(c, 'gap', None) is None:
                    acc.append((c, (0, 1) if may_omit_blank(prev, c) else (1,)))
            _free_gaps(ch, acc)
    return acc


def derive_tight(blocks):
    """CommonMark 0.30, 5.3: set `tight` of every list from the gaps of the tree."""
    for b in blocks:
        if b.kind == 'quote':
            derive_tight(b.children)
        elif b.kind == 'list':
            loose = False
            for k, it in enumerate(b.items):
                loose = loose or (k > 0 and it.gap > 0)
                loose = loose or any(c.gap > 0 for c in it.children[1:])
                derive_tight(it.children)
            b.tight = not loose


# -- content families the seeded grammar leaves out (its inline breaks are top-level only, its
#    text is ASCII words, its table rows always have one cell per column, its headings have text)

def _row(*texts, **kw):
    return Node('row', cells=[Node('cell', inl=([T(t)] if t else [])) for t in texts], **kw)


def _tab(header, rows, aligns=None):
    return Node('table', header=_row(*header), rows=rows, aligns=aligns or [None] * len(header))


def _br(*words, kind='soft'):
    out = []
    for w in words:
        out += [T(w), Node(kind)]
    return out[:-1]


_MISC = {
    # inline content that runs over several lines of the paragraph (6.x: the content of
    # emphasis, link text, code spans and raw HTML may contain line endings; not a title, which
    # would keep the indentation of its continuation line)
    'ml-em': lambda: [Node('para', inl=[Node('em', children=_br('foo', 'bar'), glued=False)])],
    'ml-em3': lambda: [Node('para', inl=[T('x '), Node('em', children=_br('a', 'b', 'c'),
                                                         glued=False), T(' y')])],
    'ml-strong-hard': lambda: [Node('para', inl=[T('x '), Node(
        'strong', children=_br('foo', 'bar', kind='hard'), glued=False), T(' y')])],
    'ml-del': lambda: [Node('para', inl=[Node('del', children=_br('foo', 'bar'))])],
    'ml-link': lambda: [Node('para', inl=[Node('link', children=_br('foo', 'bar'), dest='/url',
                                               title='the title')])],
    'ml-reflink': lambda: [Node('para', inl=[Node('reflink', children=_br('foo', 'bar'),
                                                  label='ref', form='full')]),
                           Node('linkdef', label='ref', dest='/url', title='')],
    'ml-code': lambda: [Node('para', inl=[T('x '), Node('code', s='a\nb'), T(' y')])],
    'ml-rawhtml': lambda: [Node('para', inl=[T('x '), Node('rawhtml', s='<b\nclass="x">'),
                                             T(' y')])],
    'ml-em-then-atx': lambda: [Node('para', inl=[Node('em', children=_br('foo', 'bar'),
                                                      glued=False)]), _BLOCKS['atx']()],
    'ml-em-then-list': lambda: [Node('para', inl=[Node('em', children=_br('foo', 'bar'),
                                                       glued=False)]), _BLOCKS['ul']()],
    # non-ASCII and astral text
    'uni-para': lambda: [Node('para', inl=[T('caf\u00e9 \U0001F600'), Node('soft'),
                                           T('\U0001D4B3 \u00df \u4e2d\u6587')])],
    'uni-atx': lambda: [Node('atx', level=3, inl=[T('\U0001D4B3 \u00df')]), _p('\u00e9')],
    'uni-setext': lambda: [Node('setext', level=1, inl=[T('\u00e9\u00e8 \U0001F600')])],
    'uni-code': lambda: [Node('fence', info='\u00fc', lines=['\U0001F600', '', ' \u00e9']),
                         Node('para', inl=[Node('code', s='\u00e9'), T(' '),
                                           Node('em', children=[T('\u4e2d')], glued=False)])],
    'uni-table': lambda: [_tab(['\u00e9', '\U0001F600'], [_row('\u00fc', '\U0001D4B3\u00df')],
                               [None, 'center'])],
    # empty content
    'empty-atx': lambda: [Node('atx', level=1, inl=[]), _p('after')],
    'empty-atx-atx': lambda: [_p('before'), Node('atx', level=2, inl=[]),
                              Node('atx', level=3, inl=[])],
    'empty-fence': lambda: [Node('fence', info='', lines=[]), Node('fence', info='py', lines=[''])],
    'empty-link': lambda: [Node('para', inl=[T('x '), Node('link', children=[], dest='/url',
                                                           title=''), T(' y')])],
    'empty-item-mid': lambda: [Node('list', ordered=False, tight=None, start=None, items=[
        Node('item', children=[_p('one')]), Node('item', children=[]),
        Node('item', children=[_p('three')])])],
    # three and four items, every placement of the blank lines between them
    'items3': lambda: [Node('list', ordered=False, tight=None, start=None, items=[
        Node('item', children=[_p(w)]) for w in ('one', 'two', 'one')])],
    'items4-ol': lambda: [Node('list', ordered=True, tight=None, start=9, items=[
        Node('item', children=[_p(w)]) for w in ('one', 'two', 'three', 'four')])],
    'items3-nested': lambda: [Node('list', ordered=False, tight=None, start=None, items=[
        Node('item', children=[_p('one'), Node('list', ordered=True, tight=None, start=1, items=[
            Node('item', children=[_p('sub')]), Node('item', children=[_p('sub')])])]),
        Node('item', children=[_p('two')]), Node('item', children=[_BLOCKS['fence']()])])],
    'empty-quote-para': lambda: [Node('quote', children=[]), _p('after')],
    # table rows that are shorter / longer than the header (GFM: "If a number of cells fewer
    # than the number of cells in the header row, empty cells are inserted. If greater, the
    # excess is ignored"), identical sibling rows
    'row-short': lambda: [_tab(['a', 'b'], [_row('c', '', short=1), _row('d', 'e')])],
    'row-short3': lambda: [_tab(['a', 'b', 'c'], [_row('d', '', '', short=2),
                                                  _row('e', 'f', '', short=1),
                                                  _row('g', '', '', short=1)],
                                [None, 'right', 'center'])],
    'row-dup': lambda: [_tab(['a', 'b'], [_row('c', 'd'), _row('c', 'd'), _row('a', 'b')])],
    'row-long': lambda: [_tab(['a', 'b'], [_row('c', 'd', extra=['e'])])],
    'row-long1': lambda: [_tab(['a'], [_row('b', extra=['c', 'd']), _row('e')])],
    'row-bare': lambda: [_tab(['a', 'b', 'c'], [_row('d', '', 'e', bare=True),
                                                _row('', 'f', 'g', bare=True)])],
    'row-bare-last': lambda: [_tab(['a', 'b'], [_row('c', '', bare=True), _row('d', 'e')])],
    'row-nopipe': lambda: [_tab(['a', 'b'], [_row('c', 'd'), _row('bar', '', short=1,
                                                                  nopipe=True)]), _p('after')],
}
MISC_CTX = ['top', 'bq', 'ul', 'ol', 'ul>bq', 'bq>ul', 'ul>ul', 'bq>bq']
# the row spellings that fail on the pinned tree: a handful of inputs is enough
MISC_CTX_FEW = {'row-long': ['top', 'ul'], 'row-long1': ['bq'], 'row-nopipe': ['top', 'bq'],
                'row-bare': ['top', 'ul>bq']}
DIRECTED_FINDINGS = {'table-row-excess-cells-rendered', 'table-row-without-pipe-ends-table',
                     'table-empty-cell-without-padding-dropped'}


def _misc_tree(name, ctx):
    blocks = _MISC[name]()
    if name.startswith('ml-') and ctx == 'bq>ul':
        return None     # long paragraphs in a list in a quote: a recorded deviation's ground
    defs = [b for b in blocks if b.kind == 'linkdef']      # definitions stay at top level
    blocks = [b for b in blocks if b.kind != 'linkdef']
    if ctx != 'top':
        for kind in reversed(ctx.split('>')):
            blocks = [_container(kind, blocks, start=1)]
    return blocks + defs


def directed_specs():
    return (_spine_specs() + _pair_specs()
            + [('misc', name, ctx) for name in _MISC for ctx in MISC_CTX_FEW.get(name, MISC_CTX)])


_BUILD = {'spine': _spine_tree, 'pair': _pair_tree, 'misc': _misc_tree}


def directed_trees(spec):
    """All gap assignments of one directed spec: yields (name, tree); trees that hold a trigger
    of a recorded deviation (docs_classify.features) are left to parts (a)/(b)."""
    tree = _BUILD[spec[0]](*spec[1:])
    if tree is None or features(tree) - DIRECTED_FINDINGS:
        return
    number(tree)
    free = _free_gaps(tree, [])
    for vec in itertools.product(*[opts for _, opts in free]):
        variants = [vec]
        if sum(vec) == 1 and spec[0] == 'spine':
            variants.append(tuple(2 * v for v in vec))     # the one blank line doubled
        for v in variants:
            for (node, _), g in zip(free, v):
                node.gap = g
            derive_tight(tree)
            assert docs.valid_tree(tree), (spec, v)
            yield '%r%r' % (spec, v), tree


DIRECTED_BIASES = [None, {'lazy': 0.9, 'indent': 0.7}, {'blank_start': 1.0}]


def _trees(unit):
    kind = unit[0]
    if kind == 'dir':
        _, k, n = unit
        for i, spec in enumerate(directed_specs()):
            if i % n == k:
                # three-container chains are many: one seed-independent spelling less
                nfixed = 2 if (spec[0] == 'spine' and len(spec[1]) == 3) else len(DIRECTED_BIASES)
                for name, t in directed_trees(spec):
                    yield name, t, 0, nfixed
        return
    if kind == 'enum':
        _, mb, md, k, n = unit
        for i, t in enumerate(docs.enumerate_trees(mb, md)):
            if i % n == k:
                yield ('e%d' % i), t, SPELLINGS_ENUM, 0
    else:
        _, mb, md, seed, start, count = unit
        for i, t in enumerate(docs.gen_trees(mb, md, seed, count, start=start), start):
            yield ('r%d' % i), t, SPELLINGS_RAND, 0


def _work(arg):
    unit, seed, do_shrink = arg
    use_repo()
    res = {'evaluations': 0, 'contract_evaluations': 0, 'failures': [], 'samples': [],
           'hashes': set(), 'by_class': {}, 'failures_total': 0, 'unclassified': [],
           'directed': {}}
    directed = unit[0] == 'dir'
    for name, tree, nsp, nfixed in _trees(unit):
        if directed:
            fam = name[2:name.index("'", 2)]
            res['directed'][fam] = res['directed'].get(fam, 0) + 1
        exp = expected(tree)
        nt = nontrivial(tree)
        sps = [docs.canonical_spelling(tree)] + list(docs.spellings(tree, '%d|%s' % (seed, name), nsp))
        if directed:
            # two or three spellings that do not depend on the run's seed, one that does
            sps += [docs.Spelling(seed='dir|%s|%d' % (name, j), bias=b)
                    for j, b in enumerate(DIRECTED_BIASES[:nfixed])]
            sps.append(docs.Spelling(seed='%d|%s' % (seed, name)))
        seen_here = set()
        for sp in sps:
            w = docs.write(tree, sp)
            if w.text in seen_here:
                continue
            seen_here.add(w.text)
            res['evaluations'] += 1
            if nt:
                res['hashes'].add(hashlib.md5(w.text.encode()).digest()[:8])
            got, exc = observe(w.text)
            res['contract_evaluations'] += 1            # noraise
            if exc is None:
                res['contract_evaluations'] += 1        # c03
            if exc is None and got == exp:
                if len(res['samples']) < 2 and nt:
                    res['samples'].append({'input': w.text, 'expected': exp})
                continue
            contract = 'noraise' if exc is not None else 'c03'
            entry = {'key': '%s|%s' % (contract, w.text), 'contract': contract, 'input': w.text,
                     'observed': exc if exc is not None else got, 'expected': exp,
                     'spelling': repr(sp),
                     'replay': 'from mistletoe import Document, HtmlRenderer; '
                               'print(HtmlRenderer().render(Document(%r)))' % w.text}
            cls = classify(tree)
            if directed:
                pass        # small by construction; the shrinker does not know about fixed gaps
            elif do_shrink or cls == 'unclassified':
                try:
                    f0 = features(tree)
                    t2, sp2, w2 = shrink(tree, sp, _fails, budget=300,
                                         keep=lambda t: features(t) <= f0)
                    entry['minimal'] = w2.text
                    entry['minimal_expected'] = docs.serialise_html(t2)
                    cls = classify(t2)
                except Exception as e:                  # shrinking is best effort
                    entry['shrink_error'] = repr(e)
            entry['class'] = cls
            res['by_class'][cls] = res['by_class'].get(cls, 0) + 1
            res['failures_total'] += 1
            res['failures'].append(entry)
            if 'unclassified' in cls and len(res['unclassified']) < 40:
                res['unclassified'].append(entry)
        if len(res['failures']) > 2 * MAX_FAILURES:
            res['failures'].sort(key=lambda f: (len(f['input']), f['input']))
            del res['failures'][MAX_FAILURES:]
    res['failures'].sort(key=lambda f: (len(f['input']), f['input']))
    del res['failures'][MAX_FAILURES:]
    return res


def run(tier, seed, workers):
    workers = max(1, workers)
    if tier == 'quick':
        enum = (3, 2)
        rand = (8, 3, 1000)
        do_shrink = True
    else:
        enum = (3, 2)
        rand = (40, 4, 50000)
        do_shrink = False
    nchunks = workers * 4
    units = [('enum', enum[0], enum[1], k, nchunks) for k in range(nchunks)]
    per = max(1, rand[2] // (workers * 8))
    for start in range(0, rand[2], per):
        units.append(('rand', rand[0], rand[1], seed, start, min(per, rand[2] - start)))
    units += [('dir', k, 2 * nchunks) for k in range(2 * nchunks)]
    parts = pool_map(_work, [(u, seed, do_shrink) for u in units], workers)
    out = {'evaluations': 0, 'contract_evaluations': 0, 'failures': [], 'samples': []}
    hashes = set()
    by_class = {}
    directed = {}
    total = 0
    unclassified = []
    for p in parts:
        unclassified.extend(p['unclassified'])
        out['evaluations'] += p['evaluations']
        out['contract_evaluations'] += p['contract_evaluations']
        out['failures'].extend(p['failures'])
        hashes |= p['hashes']
        for k, v in p['directed'].items():
            directed[k] = directed.get(k, 0) + v
        total += p['failures_total']
        for k, v in p['by_class'].items():
            by_class[k] = by_class.get(k, 0) + v
        if len(out['samples']) < 6:
            out['samples'].extend(p['samples'][:1])
    # the same text can be produced by two spellings/trees: one failure per input
    uniq = {}
    for f in out['failures']:
        uniq.setdefault(f['key'], f)
    fl = sorted(uniq.values(), key=lambda f: (len(f['input']), f['input']))
    out['failures'] = fl[:MAX_FAILURES]
    out['failures_total'] = total
    out['failures_by_class'] = dict(sorted(by_class.items(), key=lambda kv: -kv[1]))
    by_trigger = {}
    for k, v in by_class.items():
        for t in k.split('+'):
            by_trigger[t] = by_trigger.get(t, 0) + v
    # a failure whose tree holds several known triggers is counted under each of them
    out['failures_by_trigger'] = dict(sorted(by_trigger.items(), key=lambda kv: -kv[1]))
    unclassified.sort(key=lambda f: (len(f.get('minimal') or f['input']), f['input']))
    out['unclassified_examples'] = unclassified[:40]
    out['class_notes'] = {k: CLASSES[k] for k in CLASSES
                          if any(k in c.split('+') for c in by_class)}
    out['distinct_nontrivial'] = len(hashes)
    out['exhaustive'] = False
    out['domain'] = (
        'DOCS: (a) exhaustive small scope: all valid trees with <= %d blocks, nesting <= %d over the '
        'reduced leaf vocabulary of docs_tree._leaf_variants, each in the canonical spelling + %d '
        'seeded spellings; (b) %d seeded random trees (seed %d) with <= %d blocks, nesting <= %d, '
        'full block/inline vocabulary, each in the canonical spelling + %d seeded spellings; '
        '(c) %d directed trees, the same for every seed, with every gap (number of blank lines '
        'between sibling blocks / items) fixed and the tight flag of every list derived from the '
        'gaps by CommonMark 5.3: %d "spine" trees = chains of 2-3 containers out of {bullet list, '
        'ordered list, quote}, with / without a leading paragraph per level, innermost content one '
        'paragraph / a two-line paragraph / two paragraphs, and at one level a following block '
        '(ATX, fence, quote, thematic break, HTML, paragraph, table, setext; 3 levels: the first 5) '
        'and/or a second item, x all gap vectors in {0,1} the grammar allows (a single blank line '
        'also doubled); %d "pair" trees = two-item bullet/ordered lists (top level, in a quote, '
        'after the paragraph of an item) whose first or second item holds two blocks x, y over %d '
        'block kinds, x all gap vectors; %d "misc" trees = %d documents (inline content over '
        'several lines, non-ASCII/astral text, empty heading/fence/link/item/quote, 3-4 items, '
        'identical rows, short / over-long / pipe-less rows, unpadded empty cells) in up to %d '
        'container contexts x gap vectors; each in the canonical spelling + 2-3 fixed seeded '
        'spellings (plain; lazy/indent biased; items starting with a blank line) + 1 spelling of '
        'the run seed. Trees holding a trigger of a recorded deviation are left out of (c), except '
        'the three table-row findings of (c) itself'
        % (enum[0], enum[1], SPELLINGS_ENUM, rand[2], seed, rand[0], rand[1], SPELLINGS_RAND,
           sum(directed.values()), directed.get('spine', 0), directed.get('pair', 0),
           len(PAIR_KINDS), directed.get('misc', 0), len(_MISC), len(MISC_CTX)))
    out['directed_trees'] = directed
    out['rule'] = (
        'tree -> write(tree, spelling) -> HtmlRenderer().render(Document(text)), compared after '
        'normalize_html with serialise_html(tree) (oracle written from the tree, CommonMark 0.30 + '
        'GFM tables/strikethrough). Non-trivial: the tree nests (quote/list) or has >= 2 blocks; '
        'distinct = distinct written texts. Part (a) is exhaustive over trees, sampled over '
        'spellings; part (b) is sampled; part (c) is exhaustive over the stated gap vectors, '
        'sampled over the other spelling choices.')
    return out
