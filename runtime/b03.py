"""C03 (bounded tier): documents written from a tree of constructs parse back to that tree.

Runtime contract, evaluated on the real `Document` / `HtmlRenderer` of the tree under test:

    noraise:  HtmlRenderer().render(Document(written.text)) raises nothing
    c03:      normalize_html(HtmlRenderer().render(Document(written.text)))
                  == normalize_html(serialise_html(tree))

for (tree, spelling) pairs of the DOCS generator (runtime/docs.py).  The expected HTML is written
directly from the tree (runtime/docs_html.py) and never computed with mistletoe.
"""
import hashlib

from runtime.common import use_repo, pool_map
from runtime import docs
from runtime.docs_classify import classify, features, CLASSES
from runtime.docs_shrink import shrink

SPELLINGS_ENUM = 3       # random spellings per enumerated tree (plus the canonical one)
SPELLINGS_RAND = 2       # random spellings per random tree (plus the canonical one)
MAX_FAILURES = 400


def _render(text):
    use_repo()
    from mistletoe import Document, HtmlRenderer
    with HtmlRenderer() as r:
        return r.render(Document(text))


def observe(text):
    """(normalised html | None, exception repr | None)"""
    try:
        return docs.normalize_html(_render(text)), None
    except Exception as e:                      # noqa: any exception is a 'noraise' failure
        return None, '%s: %s' % (type(e).__name__, e)


def expected(tree):
    return docs.normalize_html(docs.serialise_html(tree))


def _fails(w):
    got, exc = observe(w.text)
    return exc is not None or got != expected(w.tree)


def nontrivial(tree):
    """A case is non-trivial when its tree nests (a quote or a list) or has >= 2 blocks."""
    return docs.tree_depth(tree) >= 2 or len(docs.nodefs(tree)) >= 2


def _trees(unit):
    kind = unit[0]
    if kind == 'enum':
        _, mb, md, k, n = unit
        for i, t in enumerate(docs.enumerate_trees(mb, md)):
            if i % n == k:
                yield ('e%d' % i), t, SPELLINGS_ENUM
    else:
        _, mb, md, seed, start, count = unit
        for i, t in enumerate(docs.gen_trees(mb, md, seed, count, start=start), start):
            yield ('r%d' % i), t, SPELLINGS_RAND


def _work(arg):
    unit, seed, do_shrink = arg
    use_repo()
    res = {'evaluations': 0, 'contract_evaluations': 0, 'failures': [], 'samples': [],
           'hashes': set(), 'by_class': {}, 'failures_total': 0, 'unclassified': []}
    for name, tree, nsp in _trees(unit):
        exp = expected(tree)
        nt = nontrivial(tree)
        sps = [docs.canonical_spelling(tree)] + list(docs.spellings(tree, '%d|%s' % (seed, name), nsp))
        seen_here = set()
        for sp in sps:
            w = docs.write(tree, sp)
            if w.text in seen_here:
                continue
            seen_here.add(w.text)
            res['evaluations'] += 1
            if nt:
                res['hashes'].add(hashlib.md5(w.text.encode()).digest()[:8])
            got, exc = observe(w.text)
            res['contract_evaluations'] += 1            # noraise
            if exc is None:
                res['contract_evaluations'] += 1        # c03
            if exc is None and got == exp:
                if len(res['samples']) < 2 and nt:
                    res['samples'].append({'input': w.text, 'expected': exp})
                continue
            contract = 'noraise' if exc is not None else 'c03'
            entry = {'key': '%s|%s' % (contract, w.text), 'contract': contract, 'input': w.text,
                     'observed': exc if exc is not None else got, 'expected': exp,
                     'spelling': repr(sp),
                     'replay': 'from mistletoe import Document, HtmlRenderer; '
                               'print(HtmlRenderer().render(Document(%r)))' % w.text}
            cls = classify(tree)
            if do_shrink or cls == 'unclassified':
                try:
                    f0 = features(tree)
                    t2, sp2, w2 = shrink(tree, sp, _fails, budget=300,
                                         keep=lambda t: features(t) <= f0)
                    entry['minimal'] = w2.text
                    entry['minimal_expected'] = docs.serialise_html(t2)
                    cls = classify(t2)
                except Exception as e:                  # shrinking is best effort
                    entry['shrink_error'] = repr(e)
            entry['class'] = cls
            res['by_class'][cls] = res['by_class'].get(cls, 0) + 1
            res['failures_total'] += 1
            res['failures'].append(entry)
            if 'unclassified' in cls and len(res['unclassified']) < 40:
                res['unclassified'].append(entry)
        if len(res['failures']) > 2 * MAX_FAILURES:
            res['failures'].sort(key=lambda f: (len(f['input']), f['input']))
            del res['failures'][MAX_FAILURES:]
    res['failures'].sort(key=lambda f: (len(f['input']), f['input']))
    del res['failures'][MAX_FAILURES:]
    return res


def run(tier, seed, workers):
    workers = max(1, workers)
    if tier == 'quick':
        enum = (3, 2)
        rand = (8, 3, 1000)
        do_shrink = True
    else:
        enum = (3, 2)
        rand = (40, 4, 50000)
        do_shrink = False
    nchunks = workers * 4
    units = [('enum', enum[0], enum[1], k, nchunks) for k in range(nchunks)]
    per = max(1, rand[2] // (workers * 8))
    for start in range(0, rand[2], per):
        units.append(('rand', rand[0], rand[1], seed, start, min(per, rand[2] - start)))
    parts = pool_map(_work, [(u, seed, do_shrink) for u in units], workers)
    out = {'evaluations': 0, 'contract_evaluations': 0, 'failures': [], 'samples': []}
    hashes = set()
    by_class = {}
    total = 0
    unclassified = []
    for p in parts:
        unclassified.extend(p['unclassified'])
        out['evaluations'] += p['evaluations']
        out['contract_evaluations'] += p['contract_evaluations']
        out['failures'].extend(p['failures'])
        hashes |= p['hashes']
        total += p['failures_total']
        for k, v in p['by_class'].items():
            by_class[k] = by_class.get(k, 0) + v
        if len(out['samples']) < 6:
            out['samples'].extend(p['samples'][:1])
    # the same text can be produced by two spellings/trees: one failure per input
    uniq = {}
    for f in out['failures']:
        uniq.setdefault(f['key'], f)
    fl = sorted(uniq.values(), key=lambda f: (len(f['input']), f['input']))
    out['failures'] = fl[:MAX_FAILURES]
    out['failures_total'] = total
    out['failures_by_class'] = dict(sorted(by_class.items(), key=lambda kv: -kv[1]))
    by_trigger = {}
    for k, v in by_class.items():
        for t in k.split('+'):
            by_trigger[t] = by_trigger.get(t, 0) + v
    # a failure whose tree holds several known triggers is counted under each of them
    out['failures_by_trigger'] = dict(sorted(by_trigger.items(), key=lambda kv: -kv[1]))
    unclassified.sort(key=lambda f: (len(f.get('minimal') or f['input']), f['input']))
    out['unclassified_examples'] = unclassified[:40]
    out['class_notes'] = {k: CLASSES[k] for k in CLASSES
                          if any(k in c.split('+') for c in by_class)}
    out['distinct_nontrivial'] = len(hashes)
    out['exhaustive'] = False
    out['domain'] = (
        'DOCS: (a) exhaustive small scope: all valid trees with <= %d blocks, nesting <= %d over the '
        'reduced leaf vocabulary of docs_tree._leaf_variants, each in the canonical spelling + %d '
        'seeded spellings; (b) %d seeded random trees (seed %d) with <= %d blocks, nesting <= %d, '
        'full block/inline vocabulary, each in the canonical spelling + %d seeded spellings'
        % (enum[0], enum[1], SPELLINGS_ENUM, rand[2], seed, rand[0], rand[1], SPELLINGS_RAND))
    out['rule'] = (
        'tree -> write(tree, spelling) -> HtmlRenderer().render(Document(text)), compared after '
        'normalize_html with serialise_html(tree) (oracle written from the tree, CommonMark 0.30 + '
        'GFM tables/strikethrough). Non-trivial: the tree nests (quote/list) or has >= 2 blocks; '
        'distinct = distinct written texts. Part (a) is exhaustive over trees, sampled over '
        'spellings; part (b) is sampled.')
    return out
