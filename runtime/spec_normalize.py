"""HTML normalisation of the CommonMark specification's own test driver (test/normalize.py of
commonmark-spec 0.30), re-implemented on html.parser.  No mistletoe import.

What it sets aside, as the driver does:
  * whitespace runs outside <pre> collapse to one space; whitespace directly after a block start
    tag, around a block end tag and before a block tag is dropped; leading newlines after <br>;
  * attributes are sorted by name and their values re-escaped (so quoting style and the entity used
    for a character do not matter);
  * entity and character references are replaced by the character they denote (the five
    markup-significant ones by one canonical entity); unknown references stay as written;
  * `<br />` / `<br/>` / `<br>` spell the same start tag.
CDATA sections are passed through verbatim (html.parser cannot be trusted with them).
"""
import html
import re
from html.entities import name2codepoint
from html.parser import HTMLParser

BLOCK_TAGS = frozenset(
    'article header aside hgroup blockquote hr iframe body li map button object canvas ol caption '
    'output col p colgroup pre dd progress div section dl table td dt tbody embed textarea fieldset '
    'tfoot figcaption th figure thead footer tr form ul h1 h2 h3 h4 h5 h6 video script style'.split())
_WS = re.compile(r'\s+')
_CHUNK = re.compile(r'(<!\[CDATA\[.*?\]\]>|<[^>]*>|[^<]+)', re.S)
_CANON = {'<': '&lt;', '>': '&gt;', '&': '&amp;', '"': '&quot;'}


class _Norm(HTMLParser):
    def __init__(self):
        super().__init__(convert_charrefs=False)
        self.last = 'starttag'      # kind of the previous event
        self.last_tag = ''
        self.in_pre = False
        self.out = ''

    def handle_data(self, data):
        after_tag = self.last in ('starttag', 'endtag')
        after_block = after_tag and self.last_tag in BLOCK_TAGS
        if after_tag and self.last_tag == 'br':
            data = data.lstrip('\n')
        if not self.in_pre:
            data = _WS.sub(' ', data)
            if after_block:
                data = data.lstrip() if self.last == 'starttag' else data.strip()
        self.out += data
        self.last = 'data'

    def handle_starttag(self, tag, attrs):
        if tag == 'pre':
            self.in_pre = True
        if tag in BLOCK_TAGS:
            self.out = self.out.rstrip()
        self.out += '<' + tag
        for k, v in sorted(attrs, key=lambda kv: (kv[0], kv[1] or '')):
            self.out += ' ' + k
            if v is not None:
                self.out += '="' + html.escape(v, quote=True) + '"'
        self.out += '>'
        self.last_tag, self.last = tag, 'starttag'

    def handle_startendtag(self, tag, attrs):
        self.handle_starttag(tag, attrs)
        self.last = 'endtag'

    def handle_endtag(self, tag):
        if tag == 'pre':
            self.in_pre = False
        elif tag in BLOCK_TAGS:
            self.out = self.out.rstrip()
        self.out += '</' + tag + '>'
        self.last_tag, self.last = tag, 'endtag'

    def handle_comment(self, data):
        self.out += '<!--' + data + '-->'
        self.last = 'comment'

    def handle_decl(self, data):
        self.out += '<!' + data + '>'
        self.last = 'decl'

    unknown_decl = handle_decl

    def handle_pi(self, data):
        self.out += '<?' + data + '>'
        self.last = 'pi'

    def _char(self, c, fallback):
        self.out += fallback if c is None else _CANON.get(c, c)
        self.last = 'ref'

    def handle_entityref(self, name):
        cp = name2codepoint.get(name)
        self._char(None if cp is None else chr(cp), '&' + name + ';')

    def handle_charref(self, name):
        try:
            c = chr(int(name[1:], 16) if name.startswith('x') else int(name))
        except (ValueError, OverflowError):
            c = None
        self._char(c, '&#' + name + ';')


def normalize(text):
    p = _Norm()
    for m in _CHUNK.finditer(text):
        chunk = m.group(0)
        if chunk.startswith('<![CDATA['):
            p.out += chunk
        else:
            p.feed(chunk)
    p.close()
    return p.out
