"""Entry point of the bounded tier:  /venv/bin/python -m runtime.run C06 --tier quick --seed 0 --out f.json"""
import argparse
import importlib
import json
import os
import sys
import time
import traceback


def main():
    ap = argparse.ArgumentParser()
    ap.add_argument('prop')
    ap.add_argument('--tier', default='quick')
    ap.add_argument('--seed', type=int, default=0)
    ap.add_argument('--workers', type=int, default=int(os.environ.get('VERIF_WORKERS', '16')))
    ap.add_argument('--out', default=None)
    a = ap.parse_args()
    t0 = time.time()
    try:
        mod = importlib.import_module('runtime.b' + a.prop[1:])
        res = mod.run(a.tier, a.seed, a.workers)
        res['status'] = 'ok'
    except Exception:
        res = {'status': 'error', 'error': traceback.format_exc(), 'failures': [], 'evaluations': 0}
    res['wall_s'] = round(time.time() - t0, 2)
    text = json.dumps(res, indent=1, default=repr)
    if a.out:
        with open(a.out, 'w') as f:
            f.write(text)
    else:
        print(text)
    return 0 if res['status'] == 'ok' else 3


if __name__ == '__main__':
    sys.exit(main())
