"""Small helpers shared by the bounded modules b04/b05/b07/b12 (mistletoe must already be importable
through runtime.common.use_repo())."""
from runtime.common import use_repo

use_repo()
from mistletoe import block_token, span_token, core_tokens, token as token_mod  # noqa: E402


def reset_state(tokens=False):
    """Undo what an exception inside mistletoe leaves behind (the tree has no try/finally), so that
    one failing case cannot change the verdict of the cases after it."""
    if hasattr(block_token.Paragraph, 'parse_setext'):
        block_token.Paragraph.parse_setext = True
    if hasattr(core_tokens, '_code_matches'):
        core_tokens._code_matches = []
    if hasattr(token_mod, '_root_node'):
        token_mod._root_node = None
    if tokens:
        block_token.reset_tokens()
        span_token.reset_tokens()


# one- and few-line specimens of every block construct (used to build multi-block documents)
BLOCKS = ['foo', 'foo\nbar', 'foo  \nbar *baz*', '# Heading', '## H2 ##', 'Title\n=====', 'Sub\nline\n---', '---', '***',
          '    code\n    more', '```\nfenced\n```', '~~~ py\nx = 1\n\ny\n~~~', '```\nunclosed', '> quote', '> q1\n> q2\n>\n> q3',
          '> > nested\n> outer', '> lazy\ncontinued', '- a\n- b', '- a\n\n- b', '1. one\n2. two', '- a\n  - b\n    - c', '- a\n\n  para\n- b',
          '5) x\n\n       indented', '| a | b |\n|---|:-:|\n| 1 | 2 |', 'a|b\n-|-', '[ref]: /url "t"\n\n[ref] and [ref][]', '[x]: <u v>\n[x]',
          '<div>\nhtml *block*\n</div>', '<!-- c\n\nomment -->', '<span>inline</span> text', '*em* **strong** `code` [l](u)', '![img](s "t")',
          '> - a\n> - b', '- > q\n  > r', '> ```\n> code\n> ```', '> # h\n> text\n> ===', '-\n  foo', '1.\n\n   x', '> foo\n> ---',
          'foo\n***\nbar', '+ a\n+ b\n\n\n+ c', '<pre>\n\nraw\n</pre>', '<?php\n\n?>', '# h #\n## h2', '> a\n\n> b', '    code\n\n\n    tail']


# ------------------------------------------------------------------ alphabet enumeration in work units
import itertools  # noqa: E402
from runtime.common import SIGMA28, SIGMA12  # noqa: E402

# common.SIGMA28 lists '>' twice: 27 distinct characters
SIG = {'SIGMA28': list(dict.fromkeys(SIGMA28)), 'SIGMA12': list(dict.fromkeys(SIGMA12))}


def alpha_tasks(n28, n12, tail28=2, tail12=3):
    """Work units covering ALPHA(SIGMA28, n28) ∪ ALPHA(SIGMA12, n12) without repetition (SIGMA12 is a
    subset of SIGMA28, so its strings of length <= n28 are left to the SIGMA28 units).
    A unit is ('alpha', sigma name, length, prefix); units are interleaved for load balance."""
    out = []
    for name, lo, hi, tail in (('SIGMA28', 0, n28, tail28), ('SIGMA12', n28 + 1, n12, tail12)):
        for L in range(lo, hi + 1):
            for pre in itertools.product(SIG[name], repeat=max(0, L - tail)):
                out.append(('alpha', name, L, ''.join(pre)))
    return [t for i in range(32) for t in out[i::32]]


def task_strings(task):
    _, name, L, pre = task
    for t in itertools.product(SIG[name], repeat=L - len(pre)):
        yield pre + ''.join(t)


def keep_smallest(fails, n=400):
    """At most n failure records: the smallest inputs, but taken round-robin over the root-cause
    classes so that a rare class is never crowded out by a frequent one."""
    def size(f):
        x = f['input']
        return (sum(len(p) for p in x) if isinstance(x, (list, tuple)) else len(x), str(x), f['key'])
    groups = {}
    for f in sorted(fails, key=size):
        groups.setdefault(f.get('class', ''), []).append(f)
    out, i = [], 0
    while len(out) < n and any(i < len(g) for g in groups.values()):
        for k in sorted(groups):
            if i < len(groups[k]) and len(out) < n:
                out.append(groups[k][i])
        i += 1
    return sorted(out, key=size)
