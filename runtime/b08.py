"""C08 (bounded tier): HTML output is well-formed and document text cannot inject markup.

Runtime postcondition of `HtmlRenderer(**opts).render(Document(x))`: the independent strict
monitor of runtime/html_wf.py accepts the output (after the verbatim content of the HtmlBlock /
HtmlSpan tokens of the parsed tree has been set aside when process_html_tokens=True), for the 8
option combinations; plus the helper contracts of the escapers over every Unicode code point.

Input families: SPEC, SPEC-mutations, ATTACK (template grammar), the directed families IMAGE-ALT
(multi-line descriptions with hard/soft breaks, inline constructs inside alt text), AUTOLINK
('@'-carrying URI autolinks, e-mail autolinks over all local-part characters), ATTR-CROSS (every
attribute sink x control characters / percent-encodings / references, in quote / list / lazy
contexts, ordered-list starts, table alignment rows), GENERATED (runtime/mdgen.py documents), ALPHA.
"""
import html as _html
import itertools
import random
import re

from runtime.common import use_repo, spec_examples, chunks, Timer
from runtime import html_wf

use_repo()

OPT_NAMES = ('process_html_tokens', 'html_escape_double_quotes', 'html_escape_single_quotes')
OPTS = list(itertools.product((False, True), repeat=3))

SIGMA = ['"', '<', '>', '&', '[', ']', '(', ')', '!', '`', 'a', ' ']
SIGMA_SET = frozenset(SIGMA)
MUT_CHARS = '"<>&\'`[]()!\\'

HOSTILE = [
    '"', "'", '<', '>', '&', '"onerror="alert(1)', 'x" y="', '&quot;', '\\"', '%22', 'javascript:',
    'javascript:alert(1)', 'é', 'ü"ü', ' ', 'a b', 'a "b" c', '\\\\"', '\\<', '\\>',
    '&#34;', '&#x22;', '&#39;', '&lt;', '&gt;', '&amp;', '&#60;script&#62;', '<script>', '</a>',
    '-->', '"><script>alert(1)</script>', "' onmouseover='x", '`', ')', '(', ']', '[', '\\',
    'a@b"c', 'u@h"onclick="x', '&#0;', '\t', 'x\\', '"\'<>&', '&quot', '&#x3C;', '&#x3E;',
    '&lt', '\x00', 'ab', '"="', '/>', '<!--', ']]>', '<b a="', '‮"',
]

# single-slot templates: {H} is replaced textually (not str.format) by the hostile string
TEMPLATES = [
    '[t]({H})', '[t](<{H}>)', '[t]({H} "T")', '[t](u "{H}")', "[t](u '{H}')", '[t](u ({H}))',
    '[{H}](u)', '[{H}](u "t")', '[t](<u {H}>)', '[t](<{H}> "{H}")',
    '![{H}](u)', '![a]({H})', '![a](<{H}>)', '![a](u "{H}")', "![a](u '{H}')", '![a](u ({H}))',
    '![a]({H} "t")', '![*{H}*](u)', '![`{H}`](u)', '![[{H}](v)](u)', '![a](<u {H}>)',
    '<http://{H}>', '<{H}>', '<mailto:{H}>', '<x@{H}>', '<http://u@{H}>', '<{H}@x.y>', '<ab:{H}>',
    '```{H}\ncode\n```', '~~~{H}\ncode\n~~~', '``` a {H}\ncode\n```', '~~~ {H} b\ncode\n~~~',
    '```\n{H}\n```', '    {H}', '`{H}`', '``{H}``', '`` {H} ``',
    '[r]: {H}\n\n[r]', '[r]: <{H}>\n\n[r]', '[r]: u "{H}"\n\n[r]', "[r]: u '{H}'\n\n[r]",
    '[r]: u ({H})\n\n[r]', '[r]: {H}\n\n![r]', '[r]: <{H}>\n\n![r]', '[r]: u "{H}"\n\n![r]',
    '![{H}][r]\n\n[r]: u', '[{H}][r]\n\n[r]: u', '[{H}]: u\n\n[{H}]', '[{H}]: u\n\n![{H}]',
    '[r]: u\n"{H}"\n\n[r]', '[r]:\n{H}\n\n[r]',
    '# {H}', '{H}\n===', '> {H}', '- {H}', '1. {H}', '| {H} | b |\n|---|:-:|\n| c | {H} |',
    '*{H}*', '**{H}**', '~~{H}~~', '<div {H}>', '<a href="{H}">', '<b {H}>x</b>', '{H}',
    'a {H} b\n', '<div>\n{H}\n</div>', 'x <i a="{H}"> y', '<!-- {H} -->',
]
# two-slot templates filled from HOSTILE x HOSTILE
TEMPLATES2 = ['[t]({H} "{G}")', '![{H}]({G})', '![a]({H} "{G}")', '[r]: {H} "{G}"\n\n![r]',
              '[{H}]({G})']
# sinks filled with concatenations h1+h2
CONCAT_SINKS = ['[t]({H})', '[t](<{H}>)', '[t](u "{H}")', '![{H}](u)', '![a]({H})', '![a](<{H}>)',
                '![a](u "{H}")', '```{H}\nc\n```', '<http://{H}>', '<x@{H}>', '<ab:{H}>',
                '[r]: {H}\n\n![r]', '{H}']


# ---------------------------------------------------------------------------------------------

def _opts_dict(o):
    return dict(zip(OPT_NAMES, o))


def raw_pieces(tok, out, in_image=False):
    """Verbatim contents of HtmlBlock / HtmlSpan tokens in rendering order.  The description of
    an image is rendered as plain text (CommonMark: the alt attribute is the plain string
    content), so HTML spans inside it are not verbatim output."""
    name = type(tok).__name__
    if name == 'HtmlBlock' or name == 'HtmlSpan':
        if not in_image:
            out.append(tok.content)
        return out
    if name == 'Image':
        in_image = True
    if name == 'Table':
        hdr = getattr(tok, 'header', None)
        if hdr is not None:
            raw_pieces(hdr, out, in_image)
    ch = tok.children
    if ch is not None:
        for c in ch:
            raw_pieces(c, out, in_image)
    return out


class _R:
    """One live HtmlRenderer at a time (they share global token tables)."""

    def __init__(self):
        self.r = None
        self.opts = None

    def get(self, opts, fresh=False):
        from mistletoe import HtmlRenderer
        if self.r is not None and (fresh or self.opts != opts):
            self.close()
        if self.r is None:
            self.r = HtmlRenderer(**_opts_dict(opts))
            self.r.__enter__()
            self.opts = opts
        return self.r

    def close(self):
        if self.r is not None:
            try:
                self.r.__exit__(None, None, None)
            finally:
                self.r = None
                self.opts = None


def _eval(rr, x, opts, fresh=False):
    """-> (verdict, detail, nontrivial).  verdict in 'ok', 'noraise', 'html-wf', 'html-attr-amp'"""
    from mistletoe import Document
    r = rr.get(opts, fresh)
    try:
        doc = Document(x)
        out = r.render(doc)
    except Exception as e:  # noqa
        rr.close()
        return 'noraise', {'exception': '%s: %s' % (type(e).__name__, e)}, False
    pieces = raw_pieces(doc, []) if opts[0] else []
    v, st, found = html_wf.check_with_raw(out, pieces)
    nontrivial = (st['attrs'] + st['refs'] > 0) or bool(pieces)
    if not v:
        return 'ok', None, nontrivial
    hard = [z for z in v if z['code'] != 'attr-amp']
    first = (hard or v)[0]
    detail = {'violation': first, 'output': out if len(out) < 600 else out[:600] + '...'}
    if pieces:
        detail['raw_pieces_set_aside'] = pieces[:8]
    return ('html-wf' if hard else 'html-attr-amp'), detail, nontrivial


def classify(verdict, detail):
    if verdict == 'noraise':
        return 'exception-' + detail['exception'].split(':')[0]
    z = detail['violation']
    # src is the first attribute the renderer writes into <img>; alt and title come after it
    if z.get('tag') == 'img' and z.get('attr') not in ('alt', 'title'):
        return 'image-src-unescaped'
    if z.get('tag') == 'a' and z.get('attr') == 'href' and (
            'href="mailto:' in detail['output'] or 'mailto:' in z.get('near', '')):
        if z['code'] == 'attr-amp':
            return 'autolink-mailto-target-raw-amp'
        return 'autolink-mailto-target-unescaped'
    if z.get('tag') == 'a' and z.get('attr') == 'href' and '@' in z.get('near', ''):
        return 'autolink-target-unescaped'
    tag, attr, code = z.get('tag'), z.get('attr'), z['code']
    names = {('img', 'alt'): 'image-alt', ('img', 'title'): 'image-title', ('a', 'href'): 'link-href',
             ('a', 'title'): 'link-title', ('code', 'class'): 'code-language-class',
             ('ol', 'start'): 'list-start', ('td', 'align'): 'table-cell-align',
             ('th', 'align'): 'table-cell-align'}
    if (tag, attr) in names:
        if code == 'attr-amp':
            return names[(tag, attr)] + '-raw-amp'
        if code in ('attr-value-terminated-early', 'attr-value-has-angle-bracket-or-unterminated'):
            return names[(tag, attr)] + '-unescaped'
        return names[(tag, attr)] + '-' + code
    if code in ('text-raw-lt', 'text-raw-gt', 'text-raw-amp'):
        return 'text-unescaped-' + code[-2:].replace('mp', 'amp')
    if code in ('nesting', 'unclosed', 'bad-closing-tag', 'void-not-selfclosed', 'nonvoid-selfclosed'):
        return 'tags-not-properly-nested-' + code
    if code in ('tag-not-in-vocabulary', 'attr-not-in-vocabulary', 'attr-on-wrong-tag', 'attr-duplicate',
                'tag-syntax'):
        return 'markup-outside-vocabulary-' + code
    if code == 'raw-piece-not-found':
        return 'raw-html-not-verbatim'
    if code == 'history-dependent':
        return 'history-dependent-output'
    return 'unclassified-' + code


OPTS4 = [o for o in OPTS if o[1] == o[2]]     # process_html_tokens x (both quote options equal)
OPTS2 = [(False, False, False), (True, True, True)]


def _run_inputs(job, optlist=OPTS):
    """job = (domain name, list of inputs).  All 8 option combinations for every input."""
    dom, inputs = job
    res = {'evaluations': 0, 'distinct_nontrivial': 0, 'contract_evaluations': 0,
           'failures': [], 'samples': []}
    fails = {}
    rr = _R()
    confirmed = 0
    try:
        for opts in optlist:
            for x in inputs:
                verdict, detail, nt = _eval(rr, x, opts)
                res['evaluations'] += 1
                res['contract_evaluations'] += 2  # noraise + monitor
                if nt:
                    res['distinct_nontrivial'] += 1
                if verdict != 'ok':
                    # confirm with a fresh renderer so that history cannot be the cause (the first
                    # 40 failures of a job only: constructing renderers is slow, and a failure is
                    # reported either way)
                    confirmed += 1
                    if confirmed <= 40:
                        verdict, detail, _ = _eval(rr, x, opts, fresh=True)
                        rr.close()
                    if verdict == 'ok':
                        verdict, detail = 'html-wf', {'violation': {
                            'code': 'history-dependent', 'pos': 0, 'tag': None, 'attr': None,
                            'near': ''}, 'output': ''}
                    f = fails.get((verdict, x))
                    if f is None:
                        fails[(verdict, x)] = f = _failure(dom, verdict, x, opts, detail)
                    f['options_failing'].append(_opts_dict(opts))
    finally:
        rr.close()
    res['failures'] = list(fails.values())
    if inputs:
        res['samples'] = [{'domain': dom, 'input': inputs[len(inputs) // 2]}]
    return res


def _failure(dom, verdict, x, opts, detail):
    return {
        'key': '%s|%r' % (verdict, x),
        'contract': verdict,
        'class': classify(verdict, detail),
        'domain': dom,
        'input': x,
        'options_failing': [],
        'observed': detail,
        'expected': 'output accepted by runtime/html_wf.py (tags from the fixed vocabulary, '
                    'properly nested; attribute values double-quoted without " < >; text without '
                    'raw < > and & only in &amp; &lt; &gt; &quot; &#x27;)',
        'replay': 'from mistletoe import Document, HtmlRenderer\n'
                  'with HtmlRenderer(**%r) as r: print(r.render(Document(%r)))'
                  % (_opts_dict(opts), x),
    }


def _run_alpha(job):
    """job = (prefix, total length, n option combos): every string prefix+suffix over SIGMA of
    that length."""
    prefix, total, nopts = job
    k = total - len(prefix)
    inputs = [prefix + ''.join(t) for t in itertools.product(SIGMA, repeat=k)]
    return _run_inputs(('ALPHA', inputs), {8: OPTS, 4: OPTS4, 2: OPTS2}[nopts])


# ---------------------------------------------------------------------------------------------
# helper contracts

_TEXT_OK = re.compile(r'(?:[^<>&]|&(?:amp|lt|gt|quot|#x27);)*')
_ATTR_OK = re.compile(r'(?:[^<>&"\']|&(?:amp|lt|gt|quot|#x27);)*')


def _helper_check(renderers, s, fails, res, with_url=True):
    from mistletoe import HtmlRenderer
    for (dq, sq), r in renderers:
        res['contract_evaluations'] += 1
        try:
            e = r.escape_html_text(s)
            ok = _TEXT_OK.fullmatch(e) is not None and not (dq and '"' in e) \
                and not (sq and "'" in e)
        except Exception as ex:  # noqa
            e, ok = repr(ex), False
        if not ok:
            _helper_fail(fails, 'escape_html_text', s, e,
                         {'html_escape_double_quotes': dq, 'html_escape_single_quotes': sq})
    res['contract_evaluations'] += 1
    e = _html.escape(s)
    if _ATTR_OK.fullmatch(e) is None:
        _helper_fail(fails, 'html.escape', s, e, None)
    if with_url:
        res['contract_evaluations'] += 1
        try:
            e = HtmlRenderer.escape_url(s)
            ok = _ATTR_OK.fullmatch(e) is not None
        except Exception as ex:  # noqa
            e, ok = repr(ex), False
        if not ok:
            _helper_fail(fails, 'escape_url', s, e, None)


def _helper_fail(fails, fn, s, observed, opts):
    key = 'helper-%s|%r' % (fn, s)
    if key not in fails:
        fails[key] = {
            'key': key, 'contract': 'helper-' + fn, 'class': fn + '-leaves-special-character',
            'domain': 'HELPERS', 'input': s, 'options_failing': [], 'observed': observed,
            'expected': 'no raw < > (and no " \' for attribute/URL escapers, none of the quotes '
                        'the options ask to escape); & only in the five references',
            'replay': 'HtmlRenderer(...).%s(%r)' % (fn, s)}
    if opts:
        fails[key]['options_failing'].append(opts)


def _mk_helper_renderers():
    from mistletoe import HtmlRenderer
    rs = []
    for dq in (False, True):
        for sq in (False, True):
            rs.append(((dq, sq), HtmlRenderer(html_escape_double_quotes=dq,
                                              html_escape_single_quotes=sq,
                                              process_html_tokens=False)))
    return rs


def _run_codepoints(job):
    lo, hi = job
    res = {'evaluations': 0, 'distinct_nontrivial': 0, 'contract_evaluations': 0,
           'failures': [], 'samples': []}
    fails = {}
    rs = _mk_helper_renderers()
    try:
        for i in range(lo, hi):
            c = chr(i)
            surrogate = 0xD800 <= i <= 0xDFFF
            _helper_check(rs, c, fails, res, with_url=not surrogate)
            res['evaluations'] += 1
            if c in '<>&"\'' or i > 127:
                res['distinct_nontrivial'] += 1
    finally:
        rs[0][1].__exit__(None, None, None)
    res['failures'] = list(fails.values())
    return res


_POOL = list('<>&"\'') * 6 + list('ab;#x27=/ %\\') + ['&amp;', '&lt', '&#', '&#x27', '&quot']


def _run_random(job):
    seed, count = job
    rnd = random.Random(seed)
    res = {'evaluations': 0, 'distinct_nontrivial': 0, 'contract_evaluations': 0,
           'failures': [], 'samples': []}
    fails = {}
    rs = _mk_helper_renderers()
    seen = set()
    try:
        for _ in range(count):
            n = rnd.randint(2, 12)
            parts = []
            for _j in range(n):
                if rnd.random() < 0.8:
                    parts.append(rnd.choice(_POOL))
                else:
                    cp = rnd.randrange(0x110000)
                    if 0xD800 <= cp <= 0xDFFF:
                        cp = 0x41
                    parts.append(chr(cp))
            s = ''.join(parts)
            _helper_check(rs, s, fails, res)
            res['evaluations'] += 1
            if s not in seen:
                seen.add(s)
                res['distinct_nontrivial'] += 1
    finally:
        rs[0][1].__exit__(None, None, None)
    res['failures'] = list(fails.values())
    res['samples'] = [{'domain': 'HELPERS-random', 'input': s}]
    return res


# ---------------------------------------------------------------------------------------------
# domains

def _in_alpha(x, n):
    return len(x) <= n and all(c in SIGMA_SET for c in x)


def gen_spec():
    seen = set()
    out = []
    for e in spec_examples():
        x = e['markdown']
        if x not in seen:
            seen.add(x)
            out.append(x)
    return out


def gen_mutations(spec, maxlen, alpha_n):
    seen = set(spec)
    out = []
    for x in spec:
        if len(x) > maxlen:
            continue
        for i in range(len(x) + 1):
            for c in MUT_CHARS:                       # insert (covers "duplicate" as well)
                y = x[:i] + c + x[i:]
                if y not in seen and not _in_alpha(y, alpha_n):
                    seen.add(y)
                    out.append(y)
            if i < len(x) and x[i] in MUT_CHARS:       # delete
                y = x[:i] + x[i + 1:]
                if y not in seen and not _in_alpha(y, alpha_n):
                    seen.add(y)
                    out.append(y)
    return out


def gen_attack(seen, alpha_n, thorough):
    out = []

    def add(y):
        if y not in seen and not _in_alpha(y, alpha_n):
            seen.add(y)
            out.append(y)
    for t in TEMPLATES:
        for h in HOSTILE:
            add(t.replace('{H}', h))
    for t in TEMPLATES2:
        for h in HOSTILE:
            for g in HOSTILE:
                add(t.replace('{H}', h).replace('{G}', g))
    for t in (TEMPLATES if thorough else CONCAT_SINKS):
        for h in HOSTILE:
            for g in HOSTILE:
                add(t.replace('{H}', h + g))
    return out


# ---------------------------------------------------------------------------------------------
# DIRECTED families (deterministic, identical for every seed).  They close coverage holes of the
# template grammar above: multi-line image descriptions (hard/soft line breaks inside alt text),
# inline constructs inside alt text, '@'-carrying URI autolinks (mailto branch of the renderer),
# e-mail autolinks over every legal local-part character, every attribute-producing construct
# crossed with control characters / percent-encodings, and all of that nested in block quotes,
# list items (with and without lazy continuation lines), headings, table cells, link text.

# inline constructs that may occur inside an image description
ALT_ATOMS = [
    'a', '"', "'", '<', '>', '&', '\\"', '\\<', '\\>', '\\&', "\\'", '\\\\',
    '&quot;', '&#34;', '&#x22;', '&lt;', '&gt;', '&amp;', '&#39;', '&apos;', '&copy;', '&nosuch;',
    '&#0;', '&QUOT;', '&#60;', '&quot', '&#x3e;',
    '*e*', '**s"**', '_e<_', '~~d>~~', '***x&***', '*"*', '**<b>**',
    '`c`', '`"`', '`<b>`', '`` ` ``', '`&amp;`', "`'`", '`>`',
    '[l](v)', '[l"](v "t")', '[l](<v">)', '[l][r]', '[*l*"](v \'t"\')',
    '![i](v)', '![i"](v "t\\"")', '![![k<](w)](v)', '![i][r]', '![`"`](v)',
    '<http://x/"y>', '<ab:c@d"\'&>', '<a@b.c>', "<a'&`b@c.d>", '<mailto:a@b."c>',
    '<b c="d">', '</b>', '<br/>', '<br />', '<!-- " > -->', '<?p " ?>', '<![CDATA[">]]>',
    '<!X ">', '<i a=\'"\' b=">">', '<img src="x" alt="y">',
    'é', '\U0001f642', '\u00a0', '\t', ' ', '\\', '!', '![', '](', ']', '[',
]
# the atoms that are crossed pairwise over the line joins
ALT_CORE = [
    'a', '"', "'", '<', '>', '&', '\\"', '&quot;', '&#34;', '&lt;', '*e"*', '**s**', '`"`', '`<b>`',
    '[l"](v "t")', '![i"](v)', '<http://x/"y>', '<a@b.c>', '<b c="d">', '</b>', '<!-- " -->',
    '<br />', 'é', '\U0001f642',
]
# what may stand between two atoms of a description: hard breaks (>= 2 blanks, backslash), soft
# breaks (with trailing / leading blanks), blanks, nothing
ALT_JOINS = ['  \n', '\\\n', '\n', ' \n', '     \n', '\n   ', '\t\n', '  \n  ', ' ', '']
ALT_MULTI = [j for j in ALT_JOINS if '\n' in j]
IMG_FORMS = ['![{A}](u)', '![{A}](u "t")', '![{A}](<u v> \'t"\')', '![{A}][r]\n\n[r]: u "t"',
             '![{A}][]\n\n[r]: u', '![{A}]\n\n[r]: u', '![{A}]()', '![{A}](u\n"t\nt")']
IMG_FORMS_CORE = IMG_FORMS[:2]

# contexts for an inline snippet {S}
INLINE_CTX = ['{S}', 'x {S} y', '# {S}', '{S}\n===', '*{S}*', '**{S}**', '[{S}](v)', '[{S}](v "t")',
              '![{S}](v)', '| {S} | b |\n|:-:|--:|\n| c | {S} |', '{S}{S}', '{S}  \n{S}', '\\{S}',
              '~~{S}~~', '[{S}][r]\n\n[r]: u', '{S}\n\n{S}']
INLINE_CTX_CORE = ['{S}', '# {S}', '[{S}](v)', '*{S}*']
# block contexts: how the lines of a document are embedded in containers
BLOCK_CTX = ['quote', 'quote-lazy', 'ul', 'ul-lazy', 'ol', 'quote-ul', 'ul-loose', 'ul-ul', 'after-text',
             'ul-quote', 'quote-quote-lazy']


def _wrap(doc, ctx):
    ls = doc.split('\n')
    first, rest = ls[0], ls[1:]

    def pre(p1, p2):
        return '\n'.join([p1 + first] + [(p2 + l) if (l or p2.strip()) else l for l in rest])
    if ctx == 'quote':
        return pre('> ', '> ')
    if ctx == 'quote-lazy':
        return pre('> ', '')
    if ctx == 'ul':
        return pre('- ', '  ')
    if ctx == 'ul-lazy':
        return pre('- ', '')
    if ctx == 'ol':
        return pre('7. ', '   ')
    if ctx == 'quote-ul':
        return pre('> - ', '>   ')
    if ctx == 'ul-loose':
        return '- x\n\n' + pre('  ', '  ') + '\n- y'
    if ctx == 'ul-ul':
        return '- x\n' + pre('  * ', '    ') + '\n- y'
    if ctx == 'after-text':
        return 'x\n' + doc + '\ny'
    if ctx == 'ul-quote':
        return pre('- > ', '  > ')
    if ctx == 'quote-quote-lazy':
        return pre('> > ', '> ')
    raise ValueError(ctx)


def gen_image_alt():
    """images whose description spans lines / contains other inline constructs"""
    alts = list(ALT_ATOMS)
    for a in ALT_CORE:
        for b in ALT_CORE:
            for j in ALT_JOINS:
                alts.append(a + j + b)
    # three lines, hostile characters right after / before the breaks
    for j1 in ('  \n', '\\\n', '\n'):
        for j2 in ('  \n', '\\\n', '\n'):
            for a in ('"', '<', 'x'):
                alts.append('a' + j1 + a + j2 + 'b')
                alts.append(a + j1 + j2.lstrip(' ') + a)
    alts += ['x  \ny" onerror="alert(1)', 'x\\\ny" onerror="alert(1)', 'a  \n', '  \nb', 'a\\\n', '\\\nb',
             '*a  \nb*', '**a\\\nb**', '`a  \nb`', '[a  \nb](v)', '![a  \nb](v)', '[a\\\n"](v "t\nt")',
             'a  \n> b', 'a  \n- b', 'a\\\n# b', 'a  \n    b', 'a\\\n```', 'a  \n<div>', 'a\\\n<!-- x',
             '<b\nc="d">', '<!-- a\nb -->', '`a\n"`', '*a\n"*', '<http://x\ny>', 'a  \n  \nb', '']
    out = []
    core8 = ('a', '"', '<', '&quot;', '`"`', '<b c="d">', '*e"*', '<a@b.c>')
    pair8 = set(a + j + b for a in core8 for b in core8 for j in ALT_MULTI)
    single = set(ALT_ATOMS)
    for alt in alts:
        multi = '\n' in alt
        full = alt in single or alt in pair8 or (multi and alt.count('\n') != 1) or len(alt) > 24
        if alt in single or not alt:
            forms, ctxs = IMG_FORMS, INLINE_CTX
        elif full:
            forms, ctxs = IMG_FORMS[:4], INLINE_CTX_CORE
        elif multi:
            forms, ctxs = (IMG_FORMS[0], IMG_FORMS[1], IMG_FORMS[3]), ('{S}', '[{S}](v)')
        else:
            forms, ctxs = IMG_FORMS[:2], INLINE_CTX_CORE
        for f in forms:
            img = f.replace('{A}', alt)
            if f not in IMG_FORMS_CORE:
                out.append(img)
                continue
            for c in (ctxs if f == IMG_FORMS[0] else ctxs[:1]):
                d = c.replace('{S}', img)
                out.append(d)
                if full and c in ('{S}', '[{S}](v)'):
                    for b in BLOCK_CTX:
                        out.append(_wrap(d, b))
    return out


EMAIL_SPECIALS = ".!#$%&'*+/=?^_`{|}~-"
AUTO_BODY = ['@', '"', "'", '&', '`', '{', '}', '|', '\\', '^', '[', ']', '%22', '%', 'é', '&quot;',
             '&amp;', '&#34;', '*', '_', '//h/', '?q=', '#f', ';', ',', '(', ')', '~', '\\"', '\\&',
             '{}|', '"\'&`', '\U0001f642', '\u00a0', '=', '$', '!', '%3C', '%3E', '+', '.', 'mailto:',
             'MAILTO:', 'x']
AUTO_SCHEMES = ['ab', 'http', 'https', 'mailto', 'MAILTO', 'MailTo', 'a+b.c-d', 'x2', 'ftp', 'irc',
                'a' * 32, 'a' * 33, 'a']


def gen_autolinks():
    """URI autolinks whose body carries '@' (the renderer's mailto branch) and e-mail autolinks"""
    autos = []
    core = []
    for a in AUTO_BODY:
        for b in AUTO_BODY:
            autos.append('<ab:x%s@%sy>' % (a, b))
            autos.append('<http://u:p@h/%s%s>' % (a, b))
            autos.append('<https://h/%s%s>' % (a, b))
            autos.append('<mailto:%sx@y%s>' % (a, b))
    for sch in AUTO_SCHEMES:
        for a in AUTO_BODY:
            for body in ('u@h%s', '%s@h', '%s', 'u@h/?q=%s&r=%s', '@%s', '%s@'):
                x = '<%s:%s>' % (sch, body.replace('%s', a))
                autos.append(x)
                if sch in ('ab', 'mailto') and body in ('u@h%s', '%s'):
                    core.append(x)
    doms = ['c.d', 'c', 'c-d.e-f', 'C.D', '1.2', 'c.d.', 'c..d', '-c.d', 'c_d.e', 'é.d', 'c.d"', 'c.d&e']
    for c in EMAIL_SPECIALS:
        for pat in ('a%sb', '%s', '%s%s', '%sa', 'a%s'):
            x = '<%s@c.d>' % pat.replace('%s', c)
            autos.append(x)
            core.append(x)
        for c2 in EMAIL_SPECIALS:
            autos.append('<%s%s@h.i>' % (c, c2))
            autos.append('<a%sb%sc@h.i>' % (c, c2))
    for d in doms:
        for loc in ('a', EMAIL_SPECIALS, "a'&`b", 'a"b', 'a<b', 'a b', 'a\\b', 'a@b', 'é'):
            autos.append('<%s@%s>' % (loc, d))
    core += ['<%s@c.d>' % EMAIL_SPECIALS, '<ab:x@y"\'&`{}|>', '<http://u@h"onclick="x>', "<a'b@c.d>",
             '<a&b@c.d>', '<a`b@c.d>', '<a{|}b@c.d>', '<ab:a@b"c>', '<MAILTO:a@b"c>', '<mailto:a@b"c>']
    autos += core
    out = list(autos)
    for x in core:
        for c in INLINE_CTX:
            d = c.replace('{S}', x)
            out.append(d)
            if c in ('{S}', '![{S}](v)'):
                for b in BLOCK_CTX:
                    out.append(_wrap(d, b))
    return out


# hostile strings that are crossed with every attribute sink but NOT squared
HOSTILE_EXTRA = [
    '\n', 'a\nb', '"\n"', '\n"', '"\n', 'a\n\nb', '  \n', '\\\n', 'a  \nb', 'a\\\nb', '<\n>',
    '%3C', '%3E', '%27', '%26', '%0A', '%09', '%', '%2', '%zz', '%25', '%2522', '%22%3E%3Cscript%3E',
    "\\'", '\\&', '\\`', '\\\t', '\\\n"', '\\\\', '\\\\\\"',
    '\U0001f642', '\u00a0', '\u2028', '\u2029', '\x85', '\r', 'a\r\nb', '\x0b', '\x0c', '\x7f', '\x1f',
    '\ufffd', '\ufeff', '\u200b', 'a\u0301', '\uff02', '\uff1c', '\u02ba',
    '&#10;', '&#9;', '&#13;', '&NewLine;', '&Tab;', '&#xD;', '&QUOT;', '&apos;', '&AMP;', '&LT;', '&GT;',
    '&lt;script&gt;', '&#x0022;', '&#0034;', '&#00000034;', '&#x110000;', '&#xD800;', '&nbsp;',
    '&amp;quot;', '&amp;#34;', '&zwnj;', '&lt;&#x2F;a&gt;',
    '\t"', '"\t', ' "', '" ', "'\"'", '"\'"', '``', '```', '~~~', '`"`', '|', '\\|', '"|"', '{', '}',
    'language-', 'a.b', 'a"b c"d', 'a=b', '=', ' = "', '*"*', '_"_', '**"**', '[x](y")', '![x](y")',
    '<a@b.c>', '<http://x"y>', '<b c="d">',
]
# attribute sinks not yet in TEMPLATES (one slot)
TEMPLATES_EXTRA = [
    '[t](\n{H}\n)', '[t](u\n"{H}")', '[t](u "a\n{H}")', '[t]({H}\n"T")', '[t](<a{H}b> (x{H}y))',
    '![a](\n{H}\n)', '![a](u\n"{H}")', '![a](u "a\n{H}")', '![a]({H}\n"T")', '![{H}\n{H}](u)',
    '[r]: u\n  "a\n{H}"\n\n[r] ![r]', "[r]: <a{H}b>\n'{H}'\n\n![r][r]", '[r]: {H} ({H})\n\n[r][] ![r][]',
    '[r]: u "{H}"\n[r]: v "w"\n\n[r] ![r]', '[r]: u "w"\n[R]: {H} "{H}"\n\n[r] ![R]',
    '[a]: {H}\n[b]: <{H}>\n[c]: u "{H}"\n\n[a][b][c] ![a] ![b] ![c]',
    '```{H}\n```', '```{H}', '~~~{H}', '   ```  {H}  \nc\n   ```', '````{H} {H}\n```\n````',
    '~~~ {H}```\nc\n~~~', '~~~\t{H}\tb\nc\n~~~', '``` &quot;{H}\nc\n```', '``` \\"{H}\nc\n```',
    '``` a"b{H}\nc\n```', '```{H}\n"<&>\'\n```',
    '| a | b | c |\n|:-:|-:|:-|\n| {H} | {H} | {H} |\n| {H} |\n| 1 | 2 | 3 | {H} |',
    '{H} | {H}\n-|-\n{H} | {H}', '| `{H}` | \\| |\n|:--|--:|\n| [t]({H}) | ![{H}](u) |',
    '| a |\n|:{H}-:|\n| b |', '| a | b |\n|:-:|:-:|{H}\n| c |', '|{H}|\n|-|', 'a|b\n:-:|-:\n{H}',
    '1. {H}\n2. {H}', '0. {H}', '007. {H}', '123456789. {H}', '1234567890. {H}', '2) {H}\n3) {H}',
    '5. {H}\n\n   {H}\n6. x', '- {H}\n- {H}\n\n- {H}', '- {H}\n  - {H}\n    - {H}', '> {H}\n{H}\n> {H}',
    '9.\n{H}', '-\n  {H}', '- a\n{H}', '> a\n{H}', '> - {H}\n>\n> - {H}', '1. a\n\n2. {H}\n3. b',
    '# {H} #', '## [t]({H}) ![{H}](u) ##', '[t]({H})\n---', '![{H}](u "{H}")\n===',
    '<{H}@c.d>', '<ab:u@h{H}>', '<ab:{H}@h>', '<https://h/{H}?{H}#{H}>', '<MAILTO:{H}>',
    '[<{H}@c.d>](u)', '![<ab:x@{H}>](u)', '*<http://{H}>*',
    '[t](u "{H}") [t](u \'{H}\') [t](u ({H})) ![{H}](u "{H}")', '[![{H}](u "{H}")](v "{H}")',
    '[t](<{H}>"{H}")', '[t](u"{H}")', "[t](u '{H}' )", '[t]( <{H}> )', '[t](u "{H}" x)',
    '[t][{H}]\n\n[{H}]: u "t"', '[{H}][]\n\n[{H}]: <u v> "{H}"', '![t][{H}]\n\n[{H}]: u',
    '\\[t]({H})', '!\\[a]({H})', '[t]\\({H})', '`[t]({H})`', '<!-- [t]({H}) -->\n![a]({H})',
    '<div>\n\n![{H}]({H} "{H}")\n\n</div>', '<b>![{H}](u)</b>', '<a href="x">[t]({H})</a>',
    '    ![{H}](u)\n\n![{H}](u)', '***[t]({H})***', '~~![{H}]({H})~~',
]
ORDERED_STARTS = ['0', '1', '2', '007', '000000000', '123456789', '999999999', '1234567890', '-1', '+1',
                  '1"', '"1', '\u0663', '\uff11', '\u00b2', '1_0', '0x10', '1e3', ' 1', '1\u00a0']
ALIGN_ROWS = ['|-|-|', '|:-|-:|', '|:-:|:-:|', ':-:|-', '|:---:|', '| :-: | -: |', '|:-:|-:|:-|', '|-:|',
              '|:-:\t|-|', '|::|-|', '|:-:|"|', '|-"-|-|', '|:-: x|-|', '-|-', '|\\:-:|-|', '| :- : |-|',
              '|:-:|-:|:-|-|-|-|', '|:\u2014:|-|', '|=|=|', '|:-:|-|\n|:-|-:|']
CELL_ROWS = ['| a | b |', '| " | < |', '| a |', '| a | b | c | d |', '||', '| \\| | `|` |', 'a | b',
             '| [t](u "x") | ![a"](u) |', '| <b c="d"> | </b> |', '|"|\'|', '| a | b', 'a | b |', '|']


def gen_attr_cross(seen_add):
    for t in TEMPLATES + TEMPLATES_EXTRA:
        for h in HOSTILE_EXTRA:
            seen_add(t.replace('{H}', h))
    for t in TEMPLATES_EXTRA:
        for h in HOSTILE:
            seen_add(t.replace('{H}', h))
    # every sink x a short list of single hostile characters x every block context
    short = ['"', "'", '<', '>', '&', '\\', '`', '\t', '%22', '&quot;', 'a\nb', '"\n"', '\\"', 'a b',
             '"onerror="alert(1)', '\U0001f642']
    for t in TEMPLATES + TEMPLATES_EXTRA:
        if t.startswith('    '):
            continue
        for h in short:
            d = t.replace('{H}', h)
            for b in BLOCK_CTX:
                seen_add(_wrap(d, b))
    # ordered list start attribute
    for n in ORDERED_STARTS:
        for delim in ('.', ')'):
            for body in (' x', ' "', '', ' x\n%s%s y' % (n, delim), '\n', ' - a\n', ' > "\n'):
                d = n + delim + body
                seen_add(d)
                for b in ('quote', 'ul', 'ol', 'ul-loose', 'after-text'):
                    seen_add(_wrap(d, b))
    # table cell align attribute: header x delimiter row x body row (short / over-long rows)
    for hd in CELL_ROWS:
        for al in ALIGN_ROWS:
            for bd in CELL_ROWS:
                d = hd + '\n' + al + '\n' + bd
                seen_add(d)
                if bd == CELL_ROWS[1]:
                    seen_add(d + '\n' + bd)          # identical sibling rows
                    seen_add(hd + '\n' + al)         # no body at all
                    for b in ('quote', 'quote-lazy', 'ul', 'ul-lazy', 'after-text'):
                        seen_add(_wrap(d, b))
    # empty content everywhere
    for d in ['![]()', '[]()', '![](<>)', '[](<> "")', '<>', '![][]', '[]: u\n\n[]', '![]( "")', '```\n```',
              '``` \n', '[ ]( )', '![ ]( " ")', "[]('')", '[](())', '![a](<>"")', '[r]:\n\n[r]', '[r]: <>\n\n[r] ![r]',
              '[r]: <> ""\n\n[r] ![r]', '# ', '#', '>', '-', '1.', '|', '||\n||', '| |\n|-|\n| |', '<a@>', '<@b>',
              '<:>', '<a:>', '<ab:>', '<ab:@>', '* * *\n- - -', '``', '` `', '**', '~~~~', '[]', '![]', '![]:']:
        seen_add(d)
        for b in BLOCK_CTX:
            seen_add(_wrap(d, b))


GEN_SUBST = [('fox', '"'), ('lazy', '<b a="'), ('brown', '&quot;'), ('over', '>'), ('and', '&'),
             ('quick', "'"), ('/url', '/u"r<l>'), ('python', 'py"th&on'), ('title', 't"i<t>le&'),
             ('jumps', '\\"'), ('the', '&#34;'), ('markdown', '<http://m@x"y>')]


def gen_generated(seed, count):
    """seeded structural documents of runtime/mdgen.py (mode 'free': every block/inline construct,
    nesting <= 4, lazy lines, loose/tight lists, tables, HTML blocks), as generated and with the
    vocabulary replaced by quote/bracket/ampersand-rich strings"""
    from runtime import mdgen
    out = []
    for i in range(count):
        try:
            _t, x = mdgen.gen(seed * 1000003 + i, 'free')
        except Exception:  # generator problem: not a case
            continue
        out.append(x)
        y = x
        for a, b in GEN_SUBST:
            y = y.replace(a, b)
        if y != x:
            out.append(y)
    return out


FOREIGN_DOCS = ['<script>alert(1)</script>\n', 'a <b onmouseover="x()">b</b> c\n', '<div>\nraw\n</div>\n\ntext <i>x</i>\n',
                '<!-- c -->\n\n> <span class="y">q</span>\n', '- <em>x</em>\n- <?php ?>\n']


def _run_foreign(job):
    """Histories: a renderer constructed with process_html_tokens=False must never emit raw HTML,
    also when it is handed a Document that was parsed while raw-HTML tokens were active (an outer
    HtmlRenderer still open, or a tree parsed under another renderer).  Refusing (an exception,
    no output) is admissible; output must pass the strict monitor with nothing set aside."""
    res = {'evaluations': 0, 'distinct_nontrivial': 0, 'contract_evaluations': 0, 'failures': [], 'samples': []}
    from mistletoe import Document, HtmlRenderer
    from mistletoe import block_token, span_token
    for md in FOREIGN_DOCS:
        for dq in (False, True):
            for mode in ('tree-from-open-html-renderer', 'nested-context', 'tree-reused-after-exit'):
                out = None
                try:
                    if mode == 'tree-from-open-html-renderer':
                        with HtmlRenderer() as outer:
                            doc = Document(md)
                            inner = HtmlRenderer(process_html_tokens=False, html_escape_double_quotes=dq)
                            out = inner.render(doc)
                    elif mode == 'nested-context':
                        with HtmlRenderer() as outer:
                            with HtmlRenderer(process_html_tokens=False, html_escape_double_quotes=dq) as inner:
                                out = inner.render(Document(md))
                    else:
                        with HtmlRenderer() as outer:
                            doc = Document(md)
                        with HtmlRenderer(process_html_tokens=False, html_escape_double_quotes=dq) as inner:
                            out = inner.render(doc)
                except Exception:
                    out = None          # refusal: no output produced
                finally:
                    block_token.reset_tokens()
                    span_token.reset_tokens()
                res['evaluations'] += 1
                res['contract_evaluations'] += 1
                res['distinct_nontrivial'] += 1
                if out is None:
                    continue
                viol, _st = html_wf.check(out)
                ok = not viol
                if not ok or '<script' in out or '<b ' in out or '<div' in out or '<span' in out or '<?php' in out or '<!--' in out:
                    res['failures'].append({
                        'key': 'html-raw-without-html-tokens|%r|%s|dq=%s' % (md, mode, dq), 'contract': 'html-raw-without-html-tokens',
                        'class': 'raw-html-emitted-by-renderer-without-html-tokens', 'input': md, 'options_failing': [{'mode': mode, 'dq': dq}],
                        'observed': out[:200], 'expected': 'no raw HTML in the output of HtmlRenderer(process_html_tokens=False)',
                        'replay': 'from mistletoe import Document, HtmlRenderer\nwith HtmlRenderer():\n    d = Document(%r)\n'
                                  '    print(HtmlRenderer(process_html_tokens=False).render(d))' % md})
    return res


def run(tier, seed, workers):
    T = Timer()
    thorough = tier == 'thorough'
    alpha_full8 = 6 if thorough else 5         # exhaustive up to this length, 8 option combos
    alpha_full = 7 if thorough else 6          # exhaustive up to this length (fewer combos beyond)
    beyond = 2                                 # option combinations beyond alpha_full8
    alpha_slice = 8 if thorough else None      # one seed-selected 1/SLICES slice of this length
    SLICES = 12
    mut_maxlen = 10 ** 9 if thorough else 40
    n_random = 2000000 if thorough else 200000

    jobs = [(_run_foreign, None)]
    spec = gen_spec()
    seen = set(spec)
    muts = gen_mutations(spec, mut_maxlen, alpha_full8)
    seen.update(muts)
    attack = gen_attack(seen, alpha_full8, thorough)

    def dedup(lst):
        out = []
        for y in lst:
            if y not in seen and not _in_alpha(y, alpha_full8):
                seen.add(y)
                out.append(y)
        return out
    img_alt = dedup(gen_image_alt())
    autos = dedup(gen_autolinks())
    cross = []
    gen_attr_cross(cross.append)
    cross = dedup(cross)
    n_gen = 20000 if thorough else 2500
    generated = dedup(gen_generated(seed, n_gen))
    for name, lst in (('SPEC', spec), ('SPEC-mutations', muts), ('ATTACK', attack),
                      ('IMAGE-ALT', img_alt), ('AUTOLINK', autos), ('ATTR-CROSS', cross),
                      ('GENERATED', generated)):
        for ch in chunks(lst, max(1, min(len(lst) // 400 + 1, workers * 6))):
            jobs.append((_run_inputs, (name, ch)))
    # ALPHA: exhaustive
    n_alpha = 0
    for L in range(0, alpha_full + 1):
        plen = min(L, 3 if L >= 6 else 2 if L >= 3 else 0)
        for p in itertools.product(SIGMA, repeat=plen):
            jobs.append((_run_alpha, (''.join(p), L, 8 if L <= alpha_full8 else beyond)))
        n_alpha += len(SIGMA) ** L
    n_slice = 0
    if alpha_slice:
        prefs = [''.join(p) for p in itertools.product(SIGMA, repeat=4)]
        for i, p in enumerate(prefs):
            if i % SLICES == seed % SLICES:
                jobs.append((_run_alpha, (p, alpha_slice, beyond)))
                n_slice += len(SIGMA) ** (alpha_slice - 4)
    # helpers
    step = 0x110000 // (workers * 4) + 1
    for lo in range(0, 0x110000, step):
        jobs.append((_run_codepoints, (lo, min(0x110000, lo + step))))
    per = n_random // (workers * 2)
    for i in range(workers * 2):
        jobs.append((_run_random, (seed * 1000 + i, per)))

    # big jobs first
    def weight(j):
        fn, a = j
        if fn is _run_alpha:
            return len(SIGMA) ** (a[1] - len(a[0])) * a[2]
        if fn is _run_inputs:
            return sum(len(s) for s in a[1]) * 2
        if fn is _run_foreign:
            return 10
        return 20000
    jobs.sort(key=weight, reverse=True)
    results = _pmap(jobs, workers)

    out = {'evaluations': 0, 'distinct_nontrivial': 0, 'contract_evaluations': 0}
    fails = {}
    samples = []
    for r in results:
        for k in out:
            out[k] += r[k]
        for f in r['failures']:
            g = fails.get(f['key'])
            if g is None:
                fails[f['key']] = f
            else:
                g['options_failing'].extend(f['options_failing'])
        if r['samples'] and len(samples) < 10:
            samples.extend(r['samples'][:1])
    fl = sorted(fails.values(), key=lambda f: (len(f['input']), f['input'], f['contract']))
    classes = {}
    minimal = {}
    for f in fl:
        classes[f['class']] = classes.get(f['class'], 0) + 1
        if f['class'] not in minimal:
            minimal[f['class']] = {'contract': f['contract'], 'input': f['input'],
                                   'options_failing': f['options_failing'][:1],
                                   'observed': f['observed']}
    out.update({
        'domain': (
            'inputs x 8 option combinations {process_html_tokens} x {html_escape_double_quotes} x '
            '{html_escape_single_quotes}; inputs = SPEC (%d distinct CommonMark 0.30 example '
            'sources) + %d single-character mutations (insert/duplicate/delete one of %r at every '
            'position of the examples of length <= %s) + ATTACK grammar (%d documents: %d '
            'one-slot templates x %d hostile strings, %d two-slot templates x %d^2, %d sinks x '
            'all concatenations of two hostile strings) + directed families present for every '
            'seed: IMAGE-ALT (%d documents: image descriptions made of %d inline atoms [emphasis, '
            'code spans, nested links/images, autolinks, raw inline HTML, character references, '
            'escapes, quotes, < > &, non-ASCII/astral], all pairs of %d core atoms joined by %d '
            'joins [hard break by blanks / by backslash, soft break, blanks], three-line '
            'descriptions; x %d image forms [inline, titled, reference full/collapsed/shortcut, '
            'multi-line title] x %d inline contexts [paragraph, ATX/setext heading, emphasis, link '
            'text, image description, table cell, duplicates] x %d block contexts [quote, list '
            'item, nested, loose, each also with lazy continuation lines]), AUTOLINK (%d documents: '
            '<scheme:body> with %d schemes and bodies over all pairs of %d hostile atoms with and '
            'without "@", e-mail autolinks over every local-part special character of %r singly '
            'and pairwise and 12 domain shapes; x inline and block contexts), ATTR-CROSS (%d '
            'documents: %d + %d sinks [link href/title, image src/title/alt, autolink href, fence '
            'info string, reference definitions incl. duplicates and multi-line titles, table '
            'cells, list items] x %d further hostile strings [newline, tab, CR, control and '
            'Unicode line separators, percent-encodings, character references of quotes and '
            'newlines, escapes, astral] , the new sinks x the %d hostile strings, every sink x 16 '
            'short hostile strings x the block contexts, %d ordered-list start spellings x {. )} '
            'x 7 bodies x contexts, %d header x %d delimiter x %d body table rows [short and '
            'over-long rows, identical sibling rows, no body], empty-content forms) + GENERATED '
            '(%d seeded structural documents of runtime/mdgen.py mode free from %d generator '
            'seeds, as generated and with the vocabulary replaced by quote/bracket/ampersand-rich '
            'strings; nesting <= 4, loose/tight lists, lazy lines, tables, HTML blocks) + ALPHA: '
            'all %d strings over %r of '
            'length <= %d (exhaustive; all 8 option combinations up to length %d, beyond that %s)'
            '%s; helper contracts escape_html_text (4 option combos) / '
            'html.escape / escape_url on every code point 0..0x10FFFF (escape_url skips lone '
            'surrogates) and on %d random concatenations (seeded)'
            % (len(spec), len(muts), MUT_CHARS, 'any (no length limit)' if thorough else mut_maxlen,
               len(attack), len(TEMPLATES), len(HOSTILE), len(TEMPLATES2), len(HOSTILE),
               len(TEMPLATES) if thorough else len(CONCAT_SINKS),
               len(img_alt), len(ALT_ATOMS), len(ALT_CORE), len(ALT_JOINS), len(IMG_FORMS),
               len(INLINE_CTX), len(BLOCK_CTX), len(autos), len(AUTO_SCHEMES), len(AUTO_BODY),
               EMAIL_SPECIALS, len(cross), len(TEMPLATES), len(TEMPLATES_EXTRA), len(HOSTILE_EXTRA),
               len(HOSTILE), len(ORDERED_STARTS), len(CELL_ROWS), len(ALIGN_ROWS), len(CELL_ROWS),
               len(generated), n_gen, n_alpha, ''.join(SIGMA),
               alpha_full, alpha_full8,
               'the 4 combinations with html_escape_double_quotes == html_escape_single_quotes'
               if beyond == 4 else 'the 2 combinations all-off / all-on',
               (' + slice %d/%d (4-character prefixes with index %% %d == seed %% %d) of length '
                '%d: %d strings' % (seed % SLICES, SLICES, SLICES, SLICES, alpha_slice, n_slice))
               if alpha_slice else '', per * workers * 2)),
        'rule': 'a case is one (input, option combination); it is non-trivial when the output '
                '(after setting raw HTML aside) contains at least one attribute or character '
                'reference, or raw HTML was set aside; for the helper contracts a code point is '
                'non-trivial when it is one of < > & " \' or non-ASCII, a random string when '
                'distinct. Failures are aggregated per input over the option combinations '
                '(options_failing).',
        'exhaustive': True,
        'samples': samples,
        'failures_total': len(fl),
        'failures_by_class': classes,
        'minimal_input_per_class': minimal,
        'failures': fl[:400],
        'time_s': round(T.s(), 1),
    })
    return out


def _dispatch(job):
    fn, arg = job
    return fn(arg)


def _pmap(jobs, workers):
    """fork pool, one job at a time per worker (jobs are sorted biggest first)."""
    if workers <= 1:
        return [_dispatch(j) for j in jobs]
    import multiprocessing as mp
    with mp.get_context('fork').Pool(workers) as p:
        return p.map(_dispatch, jobs, chunksize=1)
