r"""C17 (bounded tier): LaTeX output keeps its group/environment structure whatever the text says.

Runtime postconditions of `LaTeXRenderer().render(Document(x))`:

  latex-wf          the independent monitor runtime/latex_wf.py accepts the output after the
                    contents of the Math tokens of the parsed tree (math is passed through by
                    design) have been set aside;
  latex-verb-in-arg no \verb whose content contains { } % \ sits inside a macro argument (TeX has
                    already tokenised an argument, so \verb is not verbatim there);
  latex-slot        (grammar documents only) a hostile string H written into a slot of a document
                    template (as literal text: every ASCII punctuation character backslash-
                    escaped in the Markdown where the slot honours escapes) appears in the output
                    exactly at the places where a neutral marker word appears when the same
                    template is rendered with the marker, and in escaped form (text: \$ \# \{ \}
                    \& \_ \% \^{} and a symbol command for backslash; URL arguments: percent-
                    encoded or verbatim for & _ ~, \% and \#; image source and code language:
                    escaped; code: verbatim).
"""
import heapq
import itertools
import re
import string

from runtime.common import use_repo, spec_examples, chunks, Timer
from runtime import latex_wf

use_repo()

SIGMA = ['$', '#', '{', '}', '&', '_', '%', '^', '\\', 'a', ' ', '\n', '*', '`']
SPECIALS = '$#{}&_%^\\'
KEEP = 400
MARK = 'QQslotQQ'

ALLPUNCT = string.punctuation.replace('`', '')
HOSTILE = [
    '$', '#', '{', '}', '&', '_', '%', '^', '\\', '\\{', '\\}', '\\\\', '{}', '}{', '\\$', '%}',
    'a_b', 'x^2', '#1', '&&', '$x$', '$$', '$$x$$', '\\end{document}', '\\end{lstlisting}',
    '\\begin{x}', '\\textbf{x}', '\\newline', '\\item', '\\verb|x|', '~', 'a\\b', '\\a', ']', '|',
    '100%', '{a', 'a}', '\\^', '^^M', '\\[', '\\(', '$#{}&_%^\\', '|!"\'=+#$%&()',
    '|!"\'=+#$%&()*', ALLPUNCT, ALLPUNCT + string.digits, 'é{', '%7B', 'a b', '\\%', '\\#',
    # percent-encoded URLs that also carry raw specials (an escaper must not trust "already encoded")
    'a%20b{', 'a%20b}', 'a%20b\\end{document}', '%41$', 'x%7Bz^', 'a%20b\\', 'p%25{q}',
    string.punctuation + string.digits, '}\\end{itemize}', '\\\\{', '\\}{', '_}', 'a\\', '{\\', '\\textbackslash', '$}', '#}', '%{',
]

# (kind, template).  Kinds whose slot honours backslash escapes get the escaped spelling of H.
TEMPLATES = [
    ('text', 'p{H}q'), ('text', 'a p{H}q b\n'), ('text', '*p{H}q*'), ('text', '**p{H}q**'),
    ('text', '~~p{H}q~~'), ('text', '# p{H}q'), ('text', '## p{H}q'), ('text', '#### p{H}q'),
    ('text', 'p{H}q\n==='), ('text', '- p{H}q'), ('text', '1. p{H}q'), ('text', '> p{H}q'),
    ('text', '| p{H}q | b |\n|---|:-:|\n| c | p{H}q |'), ('text', '[p{H}q](u)'),
    ('text', '- a\n  - p{H}q'), ('text', '> - *p{H}q*'), ('text', '# [**p{H}q**](u)'),
    ('url', '[t]({H})'), ('url', '[t](<{H}>)'), ('url', '[t]({H} "title")'),
    ('url', '# [t]({H})'), ('url', '| [t]({H}) | b |\n|---|---|'),
    ('autolink', '<http://{H}>'), ('autolink', '<ab:{H}>'), ('autolink', '**<http://x/{H}>**'),
    ('src', '![a]({H})'), ('src', '![a](<{H}>)'), ('src', '![a]({H} "title")'),
    ('src', '*![a]({H})*'),
    ('hidden', '![p{H}q](u)'), ('hidden', '[t](u "{H}")'), ('hidden', '![a](u \'{H}\')'),
    ('info', '```{H}\ncode\n```'), ('info', '~~~{H}\ncode\n~~~'), ('info', '``` {H} rest\nc\n```'),
    ('info', '- ```{H}\n  c\n  ```'),
    ('code', '`{H}`'), ('code', 'a `{H}` b'), ('blockcode', '```\n{H}\n```'),
    ('blockcode', '    {H}'), ('blockcode', '~~~ py\n{H}\n~~~'),
]
# unescaped placements, judged by the structure monitor only
RAW_TEMPLATES = [
    '{H}', 'a {H} b', '*{H}*', '**{H}**', '~~{H}~~', '# {H}', '{H}\n---', '- {H}', '1. {H}',
    '> {H}', '| {H} | b |\n|---|---|\n| {H} | c |', '[{H}](u)', '[t]({H})', '[t](<{H}>)',
    '![a]({H})', '![{H}](u)', '<http://{H}>', '```{H}\nc\n```', '`{H}`', '`` {H} ``',
    '```\n{H}\n```', '    {H}', '[r]: {H}\n\n[r] ![r]', '*`{H}`*', '# `{H}`', '[`{H}`](u)',
    '**a `{H}` b**', '| `{H}` |\n|---|', '- `{H}`', '${H}$', 'a ${H}$ b {H}', '$${H}$$',
]


def md_escape(h):
    return ''.join('\\' + c if c in string.punctuation else c for c in h)


# ---------------------------------------------------------------------------------------------
# per-sink expected shapes (regular expressions over the output), written from the statement

_BS = r'(?:\\(?:textbackslash|backslash)(?:\{\})? ?|\\symbol\{92\}|\\char92 ?|\\char"5C ?)'
_CARET = r'(?:\\\^\{\}|\\textasciicircum(?:\{\})? ?)'
_PCT = r'(?:\\%[0-9A-Fa-f]{2})+'


def pat_text(h):
    out = []
    for c in h:
        if c == '\\':
            out.append(_BS)
        elif c == '^':
            out.append(_CARET)
        elif c in '$#{}&_%':
            out.append(r'\\' + re.escape(c))
        else:
            out.append(re.escape(c))
    return ''.join(out)


_URL_PLAIN = frozenset(string.ascii_letters + string.digits + "-._~/:()*?=@+,;&!'")


def pat_url(h):
    out = []
    for c in h:
        if c == '%':
            out.append(r'\\%')
        elif c == '#':
            out.append(r'\\#')
        elif c in '{}\\$^':
            out.append(_PCT)
        elif c in _URL_PLAIN:
            out.append('(?:' + re.escape(c) + '|' + _PCT + ')')
        else:
            out.append(_PCT)
    return ''.join(out)


def pat_src(h):
    out = []
    for c in h:
        if c == '\\':
            out.append('(?:' + _BS + '|' + _PCT + ')')
        elif c == '^':
            out.append('(?:' + _CARET + '|' + _PCT + ')')
        elif c in '$#{}&%':
            out.append('(?:' + r'\\' + re.escape(c) + '|' + _PCT + ')')
        elif c in '_~':
            out.append('(?:' + r'\\?' + re.escape(c) + '|' + _PCT + ')')
        else:
            out.append('(?:' + re.escape(c) + '|' + _PCT + ')')
    return ''.join(out)


def slot_regex(kind, h, skel_out):
    """regex the real output must fully match, or None when the case is outside this oracle."""
    parts = skel_out.split(MARK)
    if kind == 'hidden':
        return re.escape(skel_out) if len(parts) == 1 else None
    if len(parts) == 1:
        return None
    if kind == 'text':
        mid = pat_text(h)
    elif kind in ('url', 'autolink'):
        mid = pat_url(h)
    elif kind == 'src':
        mid = pat_src(h)
    elif kind == 'info':
        mid = pat_text(h)
    elif kind == 'blockcode':
        mid = re.escape(h)
    elif kind == 'code':
        # \verb<d>MARK<d> in the skeleton; any delimiter LaTeX accepts that is not in H
        rx = []
        for i, part in enumerate(parts):
            if i > 0:
                if not parts[i - 1].endswith('\\verb|') or not part.startswith('|'):
                    return None
            a = part[1:] if i > 0 else part
            b = a[:-len('\\verb|')] if i < len(parts) - 1 else a
            rx.append(re.escape(b))
        ds = ''.join(re.escape(d) for d in string.punctuation + string.digits
                     if d not in h and d != '*')
        if not ds:
            return None
        res = []
        for i in range(len(rx)):
            res.append(rx[i])
            if i < len(rx) - 1:
                res.append(r'\\verb(?P<d' + str(i) + '>[' + ds + '])' + re.escape(h)
                           + '(?P=d' + str(i) + ')')
        return ''.join(res)
    else:
        return None
    return mid.join(re.escape(p) for p in parts)


def slot_applicable(kind, h):
    if '\n' in h or '\t' in h:
        return False
    if kind in ('url', 'src', 'autolink', 'info') and (' ' in h):
        return False
    if kind == 'autolink' and ('<' in h or '>' in h):
        return False
    if kind == 'info' and ('`' in h or h == ''):
        return False
    if kind == 'code' and ('`' in h or h != h.strip() or h == ''):
        return False
    if kind == 'blockcode' and (h != h.strip() or '`' in h or '~' in h or h == ''):
        return False
    return True


def slot_markdown(kind, template, h):
    if kind in ('autolink', 'code', 'blockcode'):
        return template.replace('{H}', h)
    return template.replace('{H}', md_escape(h))


# ---------------------------------------------------------------------------------------------

def walk(tok, facts, math, ctx=''):
    """Collect the Math contents in rendering order and facts used only to *label* failures."""
    name = type(tok).__name__
    if name == 'Math':
        math.append(tok.content)
        return
    if name == 'Image':
        if any(c in tok.src for c in '$#{}&%^\\'):
            facts.add('includegraphics-src-raw')
        return                      # the description is not rendered
    if name == 'AutoLink':
        return
    if name in ('CodeFence', 'BlockCode'):
        if any(c in (tok.language or '') for c in SPECIALS):
            facts.add('lstlisting-language-raw')
        if latex_wf.END_LST in tok.content:
            facts.add('lstlisting-terminator-in-code')
        return
    if name == 'InlineCode':
        return
    if name == 'RawText':
        if '\\' in tok.content:
            facts.add('backslash-unescaped')
        return
    if name == 'Table':
        hdr = getattr(tok, 'header', None)
        if hdr is not None:
            walk(hdr, facts, math)
    ch = tok.children
    if ch is not None:
        for c in ch:
            walk(c, facts, math)


class _R:
    def __init__(self):
        self.r = None

    def get(self, fresh=False):
        from mistletoe.latex_renderer import LaTeXRenderer
        if fresh:
            self.close()
        if self.r is None:
            self.r = LaTeXRenderer()
            self.r.__enter__()
        return self.r

    def close(self):
        if self.r is not None:
            try:
                self.r.__exit__(None, None, None)
            finally:
                self.r = None


def render(rr, x):
    """-> (out, doc) ; a fresh renderer per document: LaTeXRenderer.packages accumulates."""
    from mistletoe import Document
    r = rr.get(fresh=True)
    doc = Document(x)
    return r.render(doc), doc


def monitor(out, doc):
    """-> (hard violation or None, verb-in-arg violation or None, stats, facts, math)"""
    facts, math = set(), []
    walk(doc, facts, math)
    v, st = latex_wf.check(out, math)
    hard = [z for z in v if z['code'] != 'verb-in-argument']
    soft = [z for z in v if z['code'] == 'verb-in-argument']
    return (hard[0] if hard else None), (soft[0] if soft else None), st, facts, math


def classify(z, facts):
    if z['code'] == 'verb-in-argument':
        return 'verb-inside-macro-argument'
    if z['code'] == 'verb-star-form' or (z.get('ctx') == 'verb' and z.get('star')):
        return 'verb-star-delimiter'
    if z['code'] == 'math-span-malformed':
        return 'math-token-ends-at-escaped-dollar'
    if z.get('ctx') == 'includegraphics':
        return 'includegraphics-src-raw'
    if z.get('ctx') == 'lstlisting-language':
        return 'lstlisting-language-raw'
    if facts:
        return '+'.join(sorted(facts))
    return 'unclassified-' + z['code']


class Acc:
    """Keeps counts per class and the KEEP smallest failures."""

    def __init__(self):
        self.res = {'evaluations': 0, 'distinct_nontrivial': 0, 'contract_evaluations': 0}
        self.heap = []          # (-len, reversed-order key) max-heap of the kept failures
        self.classes = {}
        self.total = 0
        self.sample = None
        self.first = {}         # smallest failure of every class

    def fail(self, contract, cls, x, observed, dom):
        self.total += 1
        self.classes[cls] = self.classes.get(cls, 0) + 1
        item = (len(x), x, contract)
        rec = (contract, cls, x, observed, dom)
        f = self.first.get(cls)
        if f is None or item < f[0]:
            self.first[cls] = (item, rec)
        if len(self.heap) < KEEP:
            heapq.heappush(self.heap, (_Neg(item), rec))
        elif item < self.heap[0][0].item:
            heapq.heapreplace(self.heap, (_Neg(item), rec))

    def result(self):
        r = dict(self.res)
        r['classes'] = self.classes
        r['total'] = self.total
        r['fails'] = [rec for _, rec in self.heap]
        r['sample'] = self.sample
        r['first'] = {c: rec for c, (_, rec) in self.first.items()}
        return r


class _Neg:
    __slots__ = ('item',)

    def __init__(self, item):
        self.item = item

    def __lt__(self, other):
        return self.item > other.item


def _exc(e):
    return '%s: %s' % (type(e).__name__, e)


def eval_plain(acc, rr, x, dom):
    acc.res['evaluations'] += 1
    acc.res['contract_evaluations'] += 3
    try:
        out, doc = render(rr, x)
    except Exception as e:  # noqa
        rr.close()
        cls = 'verb-no-delimiter' if 'Unable to find delimiter' in str(e) \
            else 'exception-' + type(e).__name__
        acc.fail('noraise', cls, x, {'exception': _exc(e)}, dom)
        return None
    hard, soft, st, facts, math = monitor(out, doc)
    if st['escaped'] + st['verbatim'] + st['args'] + st['math'] > 0:
        acc.res['distinct_nontrivial'] += 1
    if hard is not None:
        acc.fail('latex-wf', classify(hard, facts), x,
                 {'violation': hard, 'output': _clip(out), 'math_set_aside': math[:6]}, dom)
    if soft is not None:
        acc.fail('latex-verb-in-arg', classify(soft, facts), x,
                 {'violation': soft, 'output': _clip(out)}, dom)
    return out


def _clip(s, n=500):
    return s if len(s) <= n else s[:n] + '...'


def _run_inputs(job):
    dom, inputs = job
    acc = Acc()
    rr = _R()
    try:
        for x in inputs:
            eval_plain(acc, rr, x, dom)
    finally:
        rr.close()
    if inputs:
        acc.sample = {'domain': dom, 'input': inputs[len(inputs) // 2]}
    return acc.result()


def poison():
    """A document whose inline code holds every \\verb delimiter candidate of the renderer (read from a default
    instance): rendering it raises RuntimeError, by design."""
    from mistletoe.latex_renderer import LaTeXRenderer
    with LaTeXRenderer() as r:
        cands = ''.join(r.verb_delimiters)
    return 'x `` ' + cands + ' `` y\n'


def _run_reuse(job):
    """One renderer instance for two documents: first a document whose rendering fails (no \\verb delimiter
    is free: RuntimeError, by design) or a code document, then x on the SAME instance.  The contracts on x's
    output are those of a fresh renderer: nothing of the first rendering may change how text is escaped."""
    dom, inputs = job
    acc = Acc()
    from mistletoe import Document
    from mistletoe.latex_renderer import LaTeXRenderer
    for first in (poison(), '`a|b`\n\n```\n{%}\n```\n'):
        for x in inputs:
            acc.res['evaluations'] += 1
            acc.res['contract_evaluations'] += 2
            with LaTeXRenderer() as r:
                try:
                    r.render(Document(first))
                except RuntimeError:
                    pass
                try:
                    doc = Document(x)
                    out = r.render(doc)
                except Exception as e:  # noqa
                    if 'Unable to find delimiter' not in str(e):
                        acc.fail('noraise', 'reused-renderer-exception-' + type(e).__name__, x,
                                 {'exception': _exc(e), 'first_document': first}, dom)
                    continue
            hard, soft, st, facts, math = monitor(out, doc)
            if st['escaped'] + st['verbatim'] + st['args'] + st['math'] > 0:
                acc.res['distinct_nontrivial'] += 1
            if hard is not None:
                acc.fail('latex-wf', 'reused-renderer:' + classify(hard, facts), x,
                         {'violation': hard, 'output': _clip(out), 'first_document': first}, dom)
    if inputs:
        acc.sample = {'domain': dom, 'input': inputs[len(inputs) // 2]}
    return acc.result()


def _run_alpha(job):
    prefix, total = job
    k = total - len(prefix)
    return _run_inputs(('ALPHA', [prefix + ''.join(t) for t in itertools.product(SIGMA, repeat=k)]))


def _run_slots(job):
    """job = list of (kind, template, H)"""
    acc = Acc()
    rr = _R()
    skel_cache = {}
    try:
        for kind, template, h in job:
            x = slot_markdown(kind, template, h)
            out = eval_plain(acc, rr, x, 'GRAMMAR-slot')
            if out is None:
                continue
            if template not in skel_cache:
                try:
                    skel_cache[template] = render(rr, template.replace('{H}', MARK))[0]
                except Exception as e:  # noqa
                    rr.close()
                    skel_cache[template] = None
            skel = skel_cache[template]
            if skel is None:
                continue
            rx = slot_regex(kind, h, _body(skel))
            if rx is None:
                continue
            acc.res['contract_evaluations'] += 1
            if re.fullmatch(rx, _body(out), re.S) is None:
                cls = {'text': 'backslash-unescaped' if '\\' in h else 'text-escape',
                       'info': 'lstlisting-language-raw', 'src': 'includegraphics-src-raw',
                       'url': 'url-escape', 'autolink': 'url-escape', 'hidden': 'hidden-leaks',
                       'code': 'verb-region', 'blockcode': 'lstlisting-region'}[kind]
                if kind == 'code' and all(c in h for c in '|!"\'=+#$%&()') and '*' not in h:
                    cls = 'verb-star-delimiter'
                acc.fail('latex-slot', cls, x,
                         {'slot_kind': kind, 'template': template, 'hostile': h,
                          'output': _clip(out), 'skeleton_output': _clip(skel)}, 'GRAMMAR-slot')
    finally:
        rr.close()
    if job:
        acc.sample = {'domain': 'GRAMMAR-slot', 'input': slot_markdown(*job[len(job) // 2])}
    return acc.result()


def _body(out):
    """the part after the preamble (the package list depends on which token kinds occurred)"""
    k = out.find('\\begin{document}\n')
    return out if k == -1 else out[k:]


def _dispatch(job):
    fn, arg = job
    return fn(arg)


def _pmap(jobs, workers):
    if workers <= 1:
        return [_dispatch(j) for j in jobs]
    import multiprocessing as mp
    with mp.get_context('fork').Pool(workers) as p:
        return p.map(_dispatch, jobs, chunksize=1)


EXPECTED = ('output accepted by runtime/latex_wf.py: balanced groups, properly nested '
            'environments, every $ # { } & _ % ^ \\ from document text in escaped form outside '
            'verbatim regions and math')


def run(tier, seed, workers):
    T = Timer()
    thorough = tier == 'thorough'
    alpha_n = 6 if thorough else 5            # exhaustive up to this length
    alpha_slice = 7 if thorough else None      # plus one seed-selected slice of this length
    SLICES = 4
    sig = set(SIGMA)

    def in_alpha(s):
        return len(s) <= alpha_n and all(c in sig for c in s)

    spec = []
    seen = set()
    for e in spec_examples():
        x = e['markdown']
        if x not in seen and not in_alpha(x):
            seen.add(x)
            spec.append(x)
    hostile = list(HOSTILE)
    if thorough:
        hostile += [a + b for a in HOSTILE[:20] for b in HOSTILE[:20]]
        hostile = list(dict.fromkeys(hostile))
    raw = []
    for t in RAW_TEMPLATES:
        for h in hostile:
            y = t.replace('{H}', h)
            if y not in seen and not in_alpha(y):
                seen.add(y)
                raw.append(y)
    slots = []
    for kind, t in TEMPLATES:
        for h in hostile:
            if slot_applicable(kind, h):
                y = slot_markdown(kind, t, h)
                if y not in seen and not in_alpha(y):
                    seen.add(y)
                    slots.append((kind, t, h))
    jobs = []
    for ch in chunks(spec, workers * 2):
        jobs.append((_run_inputs, ('SPEC', ch)))
    for ch in chunks(raw, workers * 2):
        jobs.append((_run_inputs, ('GRAMMAR-raw', ch)))
    for ch in chunks(slots, workers * 2):
        jobs.append((_run_slots, ch))
    reuse = [h + '\n' for h in HOSTILE] + ['a ' + h + ' b *' + h + '*\n' for h in HOSTILE[:30]] + spec[::8]
    for ch in chunks(reuse, workers):
        jobs.append((_run_reuse, ('REUSE', ch)))
    n_alpha = 0
    for L in range(0, alpha_n + 1):
        plen = 0 if L < 3 else 2 if L < 6 else 3
        for p in itertools.product(SIGMA, repeat=plen):
            jobs.append((_run_alpha, (''.join(p), L)))
        n_alpha += len(SIGMA) ** L
    n_slice = 0
    if alpha_slice:
        for i, p in enumerate(itertools.product(SIGMA, repeat=3)):
            if i % SLICES == seed % SLICES:
                jobs.append((_run_alpha, (''.join(p), alpha_slice)))
                n_slice += len(SIGMA) ** (alpha_slice - 3)

    def weight(j):
        fn, a = j
        if fn is _run_alpha:
            return len(SIGMA) ** (a[1] - len(a[0]))
        return len(a[1]) * 3 if fn in (_run_inputs, _run_reuse) else len(a) * 6
    jobs.sort(key=weight, reverse=True)
    results = _pmap(jobs, workers)

    out = {'evaluations': 0, 'distinct_nontrivial': 0, 'contract_evaluations': 0}
    classes = {}
    total = 0
    recs = []
    samples = []
    for r in results:
        for k in ('evaluations', 'distinct_nontrivial', 'contract_evaluations'):
            out[k] += r[k]
        for c, nn in r['classes'].items():
            classes[c] = classes.get(c, 0) + nn
        total += r['total']
        recs.extend(r['fails'])
        if r['sample'] and len(samples) < 8:
            samples.append(r['sample'])
    recs.sort(key=lambda t: (len(t[2]), t[2], t[0]))
    fl = []
    for contract, cls, x, observed, dom in recs[:KEEP]:
        fl.append({
            'key': '%s|%r' % (contract, x), 'contract': contract, 'class': cls, 'domain': dom,
            'input': x, 'observed': observed, 'expected': EXPECTED,
            'replay': 'from mistletoe import Document\n'
                      'from mistletoe.latex_renderer import LaTeXRenderer\n'
                      'with LaTeXRenderer() as r: print(r.render(Document(%r)))' % (x,)})
    # the smallest input of every class, even if it did not make it into the kept list
    firsts = {}
    for r in results:
        for cls, (contract, _c, x, observed, dom) in r['first'].items():
            if cls not in firsts or (len(x), x) < (len(firsts[cls]['input']), firsts[cls]['input']):
                firsts[cls] = {'contract': contract, 'input': x, 'observed': observed}
    out.update({
        'domain': (
            'LaTeXRenderer().render(Document(x)) for x in SPEC (%d CommonMark 0.30 example '
            'sources) + ALPHA: all %d strings over %r of length <= %d (exhaustive)%s + GRAMMAR-raw '
            '(%d documents: %d templates x %d hostile strings written unescaped) + GRAMMAR-slot '
            '(%d documents: %d templates of kinds text/url/autolink/src/hidden/info/code/'
            'blockcode x %d hostile strings, written so that the string is literal content of '
            'the slot; additionally judged by the marker-skeleton oracle) + REUSE (%d documents, each '
            'rendered on an instance that first rendered a document for which no \\verb delimiter is free '
            '(RuntimeError) resp. a code document: escaping must not depend on what the instance rendered before)'
            % (len(spec), n_alpha, ''.join(SIGMA), alpha_n,
               (' + slice %d/%d of length %d (3-character prefixes with index %% %d == seed %% '
                '%d): %d strings' % (seed % SLICES, SLICES, alpha_slice, SLICES, SLICES, n_slice))
               if alpha_slice else '', len(raw), len(RAW_TEMPLATES),
               len(hostile), len(slots), len(TEMPLATES), len(hostile), len(reuse))),
        'rule': 'one case per document; non-trivial when the output contains at least one '
                'escaped special character, verbatim region (\\verb, lstlisting), URL / image / '
                'language argument, or a math span was set aside. Three contracts per case '
                '(noraise, latex-wf, latex-verb-in-arg) plus latex-slot on GRAMMAR-slot cases.',
        'exhaustive': True,
        'samples': samples,
        'failures_total': total,
        'failures_by_class': classes,
        'minimal_input_per_class': firsts,
        'failures': fl,
        'time_s': round(T.s(), 1),
    })
    return out
