"""C10 -- reflowing to a maximum line length preserves meaning and honours the limit (bounded tier).

Runtime contracts on  out = MarkdownRenderer(max_line_length=L).render(Document(x)) :

  c10a 'meaning'       wsnorm(html(out)) == wsnorm(html(x)) and the link definitions are equal
                       (wsnorm collapses every whitespace run to one blank outside <pre>..</pre>)
  c10b 'not-rebroken'  the lines of code blocks (fenced/indented), HTML blocks, tables and ATX headings
                       -- modulo container prefixes -- are the same sequence as in the L=None rendering
  c10c 'limit'         every output line longer than L either belongs to a not-rebroken block or has no
                       breakable blank after its container prefix
  c10d 'idempotent'    MarkdownRenderer(max_line_length=L).render(Document(out)) == out
  noraise

Precondition (not a failure when false, counted in 'excluded'): the plain round trip of x keeps the
meaning (C09a at L=None) -- C10 is about what reflowing adds.

Independent oracle for c10b/c10c: the generator (mdgen, modes 'reflow'/'reflowfree') makes every
line of a not-to-be-rebroken block recognisable after its container prefix: ATX headings start with
'#', table lines with '|', HTML block lines with '<' (and are not autolinks), fences with ``` / ~~~,
code lines with k<digit>; prose words are letters only (+ one of , . ; ! ?), so no prose word can
start a block and the container prefix of an output line is exactly its leading run of
'>' / blanks / list markers.  In prose lines every interior blank is breakable except those inside an
angle-bracket link destination (masked); blanks inside code spans, titles and labels are breakable by
CommonMark (a line ending there is equivalent to a blank in the whitespace-normalised HTML).
"""
import os
import random
import re
import sys

from runtime.common import use_repo, pool_map, Timer
from runtime import mdgen

use_repo()

from mistletoe import Document, HtmlRenderer                      # noqa: E402
from mistletoe.markdown_renderer import MarkdownRenderer          # noqa: E402

LMAX = 120
FIXED_L = [1, 2, 3, 4, 5, 10, 20, 40, 80, 120]
CHUNK = 16
SHRINK_BUDGET = 120
SHRINK_PER_CLASS = 4
ROBUST = ('html-renderer-drops-line-break-in-image-alt', 'child-budget-zero-disables-wrap',
          'code-span-delimiter-at-line-start-becomes-fence')
MAX_FAILURES = int(os.environ.get('VERIF_MAXFAIL', '400'))

PREFIX = re.compile(r'(?:> ?| +|[-+*] +|\d{1,9}[.)] +)*')
PREFIX_PART = re.compile(r'> ?| +|[-+*] +|\d{1,9}[.)] +')
AUTOLINK = re.compile(r'<(?:[A-Za-z][A-Za-z0-9+.-]{1,31}:[^ <>]*|[^ <>@]+@[^ <>]+)>')
NR = re.compile(r'#{1,6}(?: |$)|<(?:/?(?:div|p|table|tr)\b|!--)|\||k\d|`{3,}[^`]*$|~{3,}|([-_*])( *\1){2,} *$')
ALT = re.compile(r'alt="[^"]*"')
PRE = re.compile(r'(<pre>.*?</pre>)', re.S)
WS = re.compile(r'\s+')


def _clean():
    """Start every call from the library's initial global state.  The pinned tree leaks parser state
    between calls (collected code-span matches, the setext switch, the root node: property C11);
    without this the verdict of a case would depend on the cases a worker happened to run before."""
    from mistletoe import block_token, span_token, core_tokens, token
    if hasattr(core_tokens, '_code_matches'):
        core_tokens._code_matches = []
    if hasattr(block_token.Paragraph, 'parse_setext'):
        block_token.Paragraph.parse_setext = True
    if hasattr(token, '_root_node'):
        token._root_node = None
    block_token.reset_tokens()
    span_token.reset_tokens()


# Directed members of the domain (seed-independent): the minimal input of every root-cause class
# that the enumeration found on the pinned tree; each is run with every L in 1..40.
DIRECTED = [
    '```a fox``q```\n', '![a a](x)\n', 'yz!\\\n[a](<http://example.com/with space>)\\\nbe over\n',
    '\n[![markdown!][Foo  Bar]](a%20b ) a\n===\n', 'wrap!\\\n[a `rendering` of](/frag (lazy yz size the wrap jumps) ) a\n',
    '> aaa bbb ccc\n', '- aaa bbb ccc\n', '1. > - aaa bbb ccc ddd\n',
    # hard line breaks whose marker stands alone (blank before the backslash) or follows markup
    'first line \\\nsecond line here\n', '*emph* \\\nnext words follow\n', 'aa bb \\\ncc dd ee\n', 'a b  \nc d e f\n',
]


def html_of(text):
    _clean()
    with HtmlRenderer() as h:
        d = Document(text)
        out = h.render(d)
        return out, dict(d.footnotes)


def md_of(text, L):
    _clean()
    with MarkdownRenderer(max_line_length=L) as r:
        return r.render(Document(text))


def wsnorm(h, lenient=False):
    html, notes = h
    if lenient:     # HtmlRenderer.render_to_plain drops line breaks inside image descriptions
        html = ALT.sub(lambda m: WS.sub('', m.group(0)), html)
    parts = PRE.split(html)
    for i in range(0, len(parts), 2):
        parts[i] = WS.sub(' ', parts[i])
    return ''.join(parts), {k: tuple(WS.sub(' ', s) for s in v) for k, v in notes.items()}


def rest_of(line):
    return line[PREFIX.match(line).end():]


def is_nr(rest):
    """line (without its container prefix) of a block that must not be re-broken"""
    return bool(NR.match(rest))


def nr_lines(out):
    return [r for r in map(rest_of, out.split('\n')) if is_nr(r)]


MASKS = [re.compile(r'\]\(<[^>\n]*>'), re.compile(r'^\[[^\]]*\]: *<[^>\n]*>'), re.compile(r'^<[^>\n]*>(?= |$)')]


def over_limit(out, L):
    """-> offending lines: longer than L, not in a not-rebroken block, with a breakable blank"""
    bad = []
    for line in out.split('\n'):
        if len(line) <= L:
            continue
        rest = rest_of(line)
        if is_nr(rest):
            continue
        masked = rest
        for m in MASKS:
            masked = m.sub(lambda mo: mo.group(0).replace(' ', '_'), masked)
        if ' ' in masked.rstrip(' '):
            bad.append(line)
    return bad


def budget_zero(line, L):
    """does some container boundary of `line` sit exactly at column L (child budget == 0)?"""
    end = PREFIX.match(line).end()
    pos = 0
    for m in PREFIX_PART.finditer(line[:end]):
        pos = m.end()
        if pos == L:
            return True
    return False


class Ref:
    """per-document reference data (computed once)"""
    def __init__(self, x):
        self.x = x
        self.ok = True
        self.err = None
        try:
            self.hx = html_of(x)
            self.none = md_of(x, None)
            self.pre = html_of(self.none) == self.hx
            self.nhx = wsnorm(self.hx)
            self.lhx = wsnorm(self.hx, True)
            self.nr = nr_lines(self.none)
        except Exception as e:                                    # noqa: BLE001
            self.ok = False
            self.err = '%s: %s' % (type(e).__name__, e)


def check(ref, L):
    """-> (list of (contract, observed, expected), out)"""
    bad = []
    out = None
    try:
        out = md_of(ref.x, L)
        ho = html_of(out)
        h = wsnorm(ho)
        if h != ref.nhx:
            bad.append(('c10a', {'markdown': out, 'html': h[0], 'footnotes': h[1],
                                 'only_image_alt_differs': wsnorm(ho, True) == ref.lhx},
                        {'html': ref.nhx[0], 'footnotes': ref.nhx[1]}))
        nr = nr_lines(out)
        if nr != ref.nr:
            bad.append(('c10b', {'markdown': out, 'lines': nr}, {'lines': ref.nr}))
        ov = over_limit(out, L)
        if ov:
            bad.append(('c10c', {'markdown': out, 'lines_over_limit': ov}, 'no breakable blank in a line longer than %d' % L))
        again = md_of(out, L)
        if again != out:
            bad.append(('c10d', again, out))
    except Exception as e:                                        # noqa: BLE001
        bad.append(('noraise', '%s: %s' % (type(e).__name__, e), 'no exception'))
    return bad, out


FENCE = re.compile(r'`{3,}[^`]*$')
ZERO_MARKER = re.compile(r'[> ]*[.)](?: |$)')
BROKEN_AUTOLINK = re.compile(r'<[A-Za-z][A-Za-z0-9+.-]{1,31}:[^ <>\n]*\n[^<>]*>')


def classify(ref, L, contract, observed, out):
    """Root-cause slug; decided by oracle variants / neighbouring L, not by the shape of the input."""
    x = ref.x
    lines = (out or '').split('\n')
    if contract == 'c10a' and isinstance(observed, dict) and observed.get('only_image_alt_differs'):
        return 'html-renderer-drops-line-break-in-image-alt'
    fence = out and sum(1 for l in lines if FENCE.match(rest_of(l))) > \
        sum(1 for l in ref.none.split('\n') if FENCE.match(rest_of(l)))
    if fence and contract != 'c10c':
        return 'code-span-delimiter-at-line-start-becomes-fence'
    if contract == 'c10c':
        # wrapping is switched off where the child budget is exactly 0: the same lines are
        # wrapped again with L + 1 (a budget of 1)
        try:
            nxt = set(over_limit(md_of(x, L + 1), L + 1))
        except Exception:                                         # noqa: BLE001
            nxt = set()
        if not (set(observed['lines_over_limit']) & nxt):
            return 'child-budget-zero-disables-wrap'
    if out and BROKEN_AUTOLINK.search(out) and not BROKEN_AUTOLINK.search(ref.none):
        return 'angle-bracket-text-broken-across-lines-becomes-autolink'
    if out and any(ZERO_MARKER.match(l) for l in lines) and not any(ZERO_MARKER.match(l) for l in ref.none.split('\n')):
        return 'zero-digit-list-marker-at-line-start'
    if contract == 'c10c':
        return 'code-span-delimiter-at-line-start-becomes-fence' if fence else 'line-over-limit-with-breakable-blank'
    return 'unclassified'


def full_ls(tier, seed):
    """thorough: every L; quick: a seeded third of 1..120 that always contains FIXED_L"""
    if tier != 'quick':
        return list(range(1, LMAX + 1))
    rng = random.Random('L:%d' % seed)
    rest = [l for l in range(1, LMAX + 1) if l not in FIXED_L]
    rng.shuffle(rest)
    return sorted(FIXED_L + rest[:LMAX // 3 - len(FIXED_L)])


def sample_ls(key, k):
    rng = random.Random('Ls:%d' % key)
    return sorted(set(rng.sample(range(1, LMAX + 1), k)) | {1, 2, 3, 4})


KEEP_PER_CLASS = 6


def ORDER(f):
    return (len(f['input']['markdown']), f['input']['markdown'], f['input']['L'] or 0, f['key'])


def _trim(v, n=3000):
    if isinstance(v, str):
        return v if len(v) <= n else v[:n] + '...[%d chars]' % len(v)
    if isinstance(v, dict):
        return {k: _trim(w, n) for k, w in v.items()}
    if isinstance(v, list):
        return [_trim(w, n) for w in v[:20]]
    return v


def failure(x, L, contract, cls, observed, expected, name, gen):
    return {'key': '%s|%r|L=%d' % (contract, x, L), 'contract': contract, 'class': cls,
            'input': {'markdown': x, 'L': L, 'source': name}, 'observed': observed, 'expected': expected,
            'gen': gen,
            'replay': ('from mistletoe import Document, HtmlRenderer; '
                       'from mistletoe.markdown_renderer import MarkdownRenderer\n'
                       'x = %r\nwith MarkdownRenderer(max_line_length=%d) as m: out = m.render(Document(x))\n'
                       'with MarkdownRenderer(max_line_length=%d) as m: again = m.render(Document(out))\n'
                       'with HtmlRenderer() as h: hx = h.render(Document(x))\n'
                       'with HtmlRenderer() as h: ho = h.render(Document(out))\n'
                       'print(repr(out)); print(" ".join(hx.split()) == " ".join(ho.split()), again == out, '
                       'max(map(len, out.split(chr(10)))))' % (x, L, L))}


def shrink_one(f):
    """minimise one failing (document, L) structurally; keeps contract and L"""
    kind, ident = f['gen']
    L, contract = f['input']['L'], f['contract']
    tree, x = mdgen.gen(ident, kind)

    def fails(t):
        r2 = Ref(t)
        return r2.ok and r2.pre and any(b[0] == contract for b in check(r2, L)[0])
    _, mx, used = mdgen.shrink(tree, fails, SHRINK_BUDGET, normal=kind == 'reflow')
    mref = Ref(mx)
    b2, mout = check(mref, L)
    again = [b for b in b2 if b[0] == contract]
    if not again or mx == x:
        return f
    g = failure(mx, L, contract, classify(mref, L, contract, again[0][1], mout), again[0][1], again[0][2],
                f['input']['source'], None)
    g['shrunk_from_chars'] = len(x)
    return g


def work(chunk):
    res = {'evaluations': 0, 'contract_evaluations': 0, 'failures': [], 'samples': [],
           'nontrivial': 0, 'failing_cases': 0, 'excluded': 0, 'docs': 0, 'maxdepth': 0,
           'class_counts': {}, 'keep': {}}
    for case in chunk:
        kind, ident, ls = case[0], case[1], case[2]
        if kind == 'stack':
            tree, x = None, mdgen.stack_doc(ident)
            name = 'stack:%s' % ''.join(map(str, ident))
            res['maxdepth'] = max(res['maxdepth'], len(ident))
        elif kind == 'directed':
            tree, x, name = None, DIRECTED[ident], 'directed:%d' % ident
        else:
            tree, x = mdgen.gen(ident, kind)
            name = 'gen:%s:%d' % (kind, ident)
            res['maxdepth'] = max(res['maxdepth'], mdgen.depth_of(tree))
        res['docs'] += 1
        ref = Ref(x)
        if not ref.ok:
            res['failing_cases'] += 1
            res['class_counts']['noraise|exception'] = res['class_counts'].get('noraise|exception', 0) + 1
            res['failures'].append({'key': 'noraise|%r|L=None' % x, 'contract': 'noraise', 'class': 'exception',
                                    'input': {'markdown': x, 'L': None, 'source': name},
                                    'observed': ref.err, 'expected': 'no exception', 'replay': ''})
            continue
        if not ref.pre:
            res['excluded'] += len(ls)
            continue
        if len(res['samples']) < 1 and tree is not None:
            res['samples'].append({'id': name, 'markdown': x, 'L': ls[:5]})
        for L in ls:
            bad, out = check(ref, L)
            res['evaluations'] += 1
            res['contract_evaluations'] += 5
            if out is not None and out != ref.none:
                res['nontrivial'] += 1
            for contract, observed, expected in bad:
                res['failing_cases'] += 1
                cls = classify(ref, L, contract, observed, out)
                c = '%s|%s' % (contract, cls)
                res['class_counts'][c] = res['class_counts'].get(c, 0) + 1
                keep = res['keep'].setdefault(c, [])
                keep.append(failure(x, L, contract, cls, _trim(observed), _trim(expected), name,
                                    (kind, ident) if tree is not None else None))
                if len(keep) > 2 * KEEP_PER_CLASS:      # bound the memory: the smallest inputs stay
                    keep.sort(key=ORDER)
                    del keep[KEEP_PER_CLASS:]
    for keep in res.pop('keep').values():
        keep.sort(key=ORDER)
        res['failures'].extend(keep[:KEEP_PER_CLASS])
    return res


def select(fl, n):
    """the 3 smallest inputs of every (contract, class), then the globally smallest, n in all"""
    per, first, rest = {}, [], []
    for f in fl:
        c = (f['contract'], f['class'])
        per[c] = per.get(c, 0) + 1
        (first if per[c] <= 3 else rest).append(f)
    return sorted((first + rest)[:n], key=ORDER)


def run(tier, seed, workers):
    t = Timer()
    quick = tier == 'quick'
    base = seed * 10_000_000
    cases = []
    # systematic family: container stacks around one paragraph, small L (budget <= 0 included)
    depth = 3 if quick else 4
    stack_ls = list(range(1, 21 if quick else 31))
    stacks = [()]
    for d in range(depth):
        stacks += [s + (i,) for s in stacks if len(s) == d for i in range(len(mdgen.STACK_PREFIXES))]
    cases += [('stack', s, stack_ls) for s in stacks]
    cases += [('directed', i, list(range(1, 41))) for i in range(len(DIRECTED))]
    # generated documents: small set x (all L | a seeded third), big set x sampled L
    n_small, n_big, k_big = (500, 2500, 6) if quick else (2500, 25000, 8)
    full = full_ls(tier, seed)
    for i in range(n_small):
        cases.append(('reflow' if i % 2 == 0 else 'reflowfree', base + i, full))
    for i in range(n_big):
        cases.append(('reflow' if i % 2 == 0 else 'reflowfree', base + 1_000_000 + i,
                      sample_ls(seed * 1_000_003 + i, k_big)))
    chunks = [cases[i:i + CHUNK] for i in range(0, len(cases), CHUNK)]
    parts = []
    step = max(1, workers) * 24
    for lo in range(0, len(chunks), step):
        parts.extend(pool_map(work, chunks[lo:lo + step], workers))
        if os.environ.get('VERIF_PROGRESS'):
            sys.stderr.write('b10: %d/%d work items, %.0f s\n' % (min(lo + step, len(chunks)), len(chunks), t.s()))
    out = {k: 0 for k in ('evaluations', 'contract_evaluations', 'failing_cases', 'excluded', 'docs',
                          'nontrivial')}
    failures, samples, maxdepth, classes = {}, [], 0, {}
    for p in parts:
        for k in out:
            out[k] += p[k]
        for c, v in p['class_counts'].items():
            classes[c] = classes.get(c, 0) + v
        maxdepth = max(maxdepth, p['maxdepth'])
        if len(samples) < 6:
            samples.extend(p['samples'][:1])
        for f in p['failures']:
            failures.setdefault(f['key'], f)
    order = ORDER
    fl = sorted(failures.values(), key=order)
    # minimise the smallest generated failures of every (contract, class) -- bounded work
    todo, per = [], {}
    for f in fl:
        c = (f['contract'], f['class'])
        per[c] = per.get(c, 0) + 1
        if f.get('gen') and per[c] <= (SHRINK_PER_CLASS if f['class'] in ROBUST else 4 * SHRINK_PER_CLASS):
            todo.append(f)
    for f, g in zip(todo, pool_map(shrink_one, todo, workers)):
        if g is not f:
            failures.pop(f['key'])
            failures.setdefault(g['key'], g)
    fl = sorted(failures.values(), key=order)
    for f in fl:
        f.pop('gen', None)
    by_class, minimal = {}, {}
    for c, v in classes.items():
        by_class[c.split('|', 1)[1]] = by_class.get(c.split('|', 1)[1], 0) + v
    for f in fl:
        minimal.setdefault(f['class'], {'contract': f['contract'], 'key': f['key'], 'input': f['input']})
    out.update({
        'domain': ('DIRECTED: %d seed-independent documents (one per known root-cause class) x L in 1..40; STACKS: all container stacks of depth 0..%d over the prefixes %r around the paragraph '
                   '"aaa bbb ccc ddd" (%d documents) x L in 1..%d; DOCS: %d mdgen documents (modes reflow / '
                   'reflowfree alternating, container nesting <= 4, measured max depth %d) x %s, plus %d '
                   'documents x %d seeded L values (+ 1,2,3,4) each; generator seeds %d.. ; L range 1..%d. '
                   'Prose words cannot be mistaken for block markers; no raw inline HTML, escapes or '
                   'character references'
                   % (len(DIRECTED), depth, mdgen.STACK_PREFIXES, len(stacks), stack_ls[-1], n_small, maxdepth,
                      'every L in 1..120' if not quick else 'a seeded third of 1..120 (%d values incl. %r)' % (len(full), FIXED_L),
                      n_big, k_big, base, LMAX)),
        'rule': ('a case is a pair (document, L); it is non-trivial iff the reflowed output differs from '
                 'the L=None rendering; cases whose plain round trip already changes the HTML are excluded '
                 '(precondition, counted in "excluded"); contracts per case: noraise, c10a, c10b, c10c, c10d'),
        'distinct_nontrivial': out.pop('nontrivial'),
        'exhaustive': False,
        'samples': samples[:6],
        'failures_total': out['failing_cases'],
        'class_counts': classes,
        'failures_by_class': by_class,
        'minimal_input_per_class': minimal,
        'failures': select(fl, MAX_FAILURES),
        'elapsed_s': round(t.s(), 1),
    })
    return out
