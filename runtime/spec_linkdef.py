"""Independent recogniser of link reference definitions (CommonMark 0.30 section 4.7, with the
link label / destination / title grammars of section 6.3) and a miniature block structure model
that says WHERE definitions can occur in documents made of paragraphs, block quotes, indented code
and blank lines only.  No mistletoe import.

    parse_definition(s, i)  -> (end, raw_label, dest, title) | None      one definition at s[i:]
    normalize_label(raw)    -> the matching key of spec 6.3 (case fold, strip, collapse whitespace)
    document_definitions(text) -> {key: (dest, title)}  first definition wins (spec 4.7 "the first
                               one takes precedence")

document_definitions supports ONLY texts without tabs and without any of the characters that start
other block constructs (# ` ~ - + * _ = | digits, HTML); it raises ValueError otherwise.
"""
import re

PUNCT = set('!"#$%&\'()*+,-./:;<=>?@[\\]^_`{|}~')
_WS = ' \t\n'


def _esc(s, j):
    """s[j] is a backslash that escapes an ASCII punctuation character."""
    return s[j] == '\\' and j + 1 < len(s) and s[j + 1] in PUNCT


def unescape(s):
    out, j = [], 0
    while j < len(s):
        if _esc(s, j):
            out.append(s[j + 1])
            j += 2
        else:
            out.append(s[j])
            j += 1
    return ''.join(out)


def normalize_label(raw):
    return re.sub(r'[ \t\r\n]+', ' ', raw.strip(' \t\r\n')).casefold()


def parse_label(s, i):
    """Link label at s[i] == '[' -> (end, raw) | None.   Spec 6.3: ends with the first ']' that is
    not backslash-escaped; no unescaped '[' inside; at least one non-whitespace character; <= 999."""
    if i >= len(s) or s[i] != '[':
        return None
    j = i + 1
    while j < len(s):
        if _esc(s, j):
            j += 2
            continue
        if s[j] == '[':
            return None
        if s[j] == ']':
            raw = s[i + 1:j]
            if raw.strip(_WS) == '' or len(raw) > 999:
                return None
            return j + 1, raw
        j += 1
    return None


def parse_destination(s, i):
    """-> (end, value) | None.  Spec 6.3 link destination."""
    if i >= len(s):
        return None
    if s[i] == '<':
        j = i + 1
        while j < len(s):
            if _esc(s, j):
                j += 2
                continue
            if s[j] in '\n<':
                return None
            if s[j] == '>':
                return j + 1, unescape(s[i + 1:j])
            j += 1
        return None
    j, depth = i, 0
    while j < len(s):
        if _esc(s, j):
            j += 2
            continue
        c = s[j]
        if c == ' ' or ord(c) < 32 or ord(c) == 127:
            break
        if c == '(':
            depth += 1
        elif c == ')':
            if depth == 0:
                break
            depth -= 1
        j += 1
    if j == i or depth != 0:
        return None
    return j, unescape(s[i:j])


def parse_title(s, i):
    """-> (end, value) | None.  Spec 6.3 link title ("..." | '...' | (...) with the delimiter -- for
    parentheses both of them -- inside only when backslash-escaped; may span lines, no blank line)."""
    if i >= len(s) or s[i] not in '"\'(':
        return None
    close = ')' if s[i] == '(' else s[i]
    j = i + 1
    while j < len(s):
        if _esc(s, j):
            j += 2
            continue
        if s[j] == close:
            value = s[i + 1:j]
            if re.search(r'\n[ \t]*\n', value):
                return None
            return j + 1, unescape(value)
        if close == ')' and s[j] == '(':
            return None
        j += 1
    return None


def _spnl(s, i):
    """Spaces/tabs including at most one line ending."""
    j = i
    while j < len(s) and s[j] in ' \t':
        j += 1
    if j < len(s) and s[j] == '\n':
        j += 1
        while j < len(s) and s[j] in ' \t':
            j += 1
    return j


def _eol(s, i):
    """Only spaces/tabs up to the end of the line -> index after the line ending, else None."""
    j = i
    while j < len(s) and s[j] in ' \t':
        j += 1
    if j == len(s):
        return j
    return j + 1 if s[j] == '\n' else None


def parse_definition(s, i=0):
    """One link reference definition starting at s[i] (s = paragraph content, i at a line start,
    indentation already removed) -> (end, raw_label, dest, title) | None."""
    m = parse_label(s, i)
    if m is None:
        return None
    j, raw = m
    if j >= len(s) or s[j] != ':':
        return None
    j = _spnl(s, j + 1)
    d = parse_destination(s, j)
    if d is None:
        return None
    after_dest, dest = d
    k = _spnl(s, after_dest)
    if k > after_dest:                      # a title must be separated from the destination
        t = parse_title(s, k)
        if t is not None:
            end = _eol(s, t[0])
            if end is not None:
                return end, raw, dest, t[1]
    # no (valid) title: the destination must end its line
    end = _eol(s, after_dest)
    if end is None:
        return None
    return end, raw, dest, ''


# ------------------------------------------------------------------------ miniature block structure

_FORBIDDEN = re.compile(r'[\t#`~\-+*_=|0-9&]')


def _indent(line):
    return len(line) - len(line.lstrip(' '))


def _quote_strip(line):
    """line has <= 3 spaces of indentation and then '>': content after the marker."""
    rest = line.lstrip(' ')[1:]
    return rest[1:] if rest.startswith(' ') else rest


def _is_quote(line):
    return _indent(line) <= 3 and line.lstrip(' ').startswith('>')


def _blocks(lines):
    """-> (list of blocks, last block still open as a paragraph at the deepest level?)
    block = ('para', [lines]) | ('code',) | ('quote', [blocks])."""
    out = []
    para = None
    i = 0
    open_para = False
    while i < len(lines):
        line = lines[i]
        if line.strip(' ') == '':
            para = None
            open_para = False
            i += 1
            continue
        if _is_quote(line):
            para = None
            inner = [_quote_strip(line)]
            i += 1
            while i < len(lines):
                nxt = lines[i]
                if _is_quote(nxt):
                    inner.append(_quote_strip(nxt))
                elif nxt.strip(' ') != '' and _blocks(inner)[1]:
                    inner.append(nxt)            # lazy continuation line of the innermost paragraph
                else:
                    break
                i += 1
            blocks, still = _blocks(inner)
            out.append(('quote', blocks))
            # still open only if the input ended inside it (otherwise the next line was already
            # tried as a lazy continuation and refused)
            open_para = still and i == len(lines)
            continue
        if para is None and _indent(line) >= 4:
            out.append(('code',))
            open_para = False
            i += 1
            while i < len(lines) and (lines[i].strip(' ') == '' or _indent(lines[i]) >= 4):
                i += 1
            continue
        if para is None:
            para = [line]
            out.append(('para', para))
        else:
            para.append(line)
        open_para = True
        i += 1
    return out, open_para


def _collect(blocks, found):
    for b in blocks:
        if b[0] == 'quote':
            _collect(b[1], found)
        elif b[0] == 'para':
            content = '\n'.join(l.lstrip(' ') for l in b[1]).rstrip(' ')
            pos = 0
            while pos < len(content) and content[pos] == '[':
                m = parse_definition(content, pos)
                if m is None:
                    break
                pos, raw, dest, title = m
                found.setdefault(normalize_label(raw), (dest, title))


def document_definitions(text):
    if _FORBIDDEN.search(text):
        raise ValueError('text outside the supported fragment')
    lines = text.split('\n')
    if lines and lines[-1] == '':
        lines.pop()
    found = {}
    _collect(_blocks(lines)[0], found)
    return found
