"""C06 -- emphasis nesting equals the specification's delimiter-run algorithm (bounded tier).

Runtime contracts, evaluated on the real parser through the public API
`HtmlRenderer().render(Document('# ' + t))`:

  noraise    parsing + rendering returns (no exception)
  shape      the output is exactly one `<h1>...</h1>` element
  structure  the text between <h1> and </h1> equals to_html(spec_emphasis(t)), where
             `spec_emphasis` (runtime/spec_emphasis.py) is an independent transcription of the
             CommonMark 0.30 algorithm.  The literal characters are the same on both sides by
             construction, so string equality of the HTML *is* equality of the <em>/<strong>
             nesting structure (including which delimiter characters stay literal).

Precondition (cases excluded, not failures): t does not begin or end with a Unicode whitespace
character -- the ATX heading rule strips leading/trailing blanks before inline parsing, so such
a t is the same inline text as its stripped form, which is enumerated anyway; and t does not end
with an ATX closing sequence (a run of # preceded by a blank, or t is only #s), which the heading
rule removes as well.

Input families (all deterministic for a given (tier, seed); see run() for the bounds):

  enum5 / enum-star / enum-underscore   exhaustive ALPHA enumerations of the property's quantifier
  random                                seeded random strings over WIDE_OTHER (BMP only; kept unchanged)
  random-astral                         seeded random strings over WIDE_ASTRAL (adds astral punctuation,
                                        astral letters, S* symbols, more Zs, non-ASCII digits, a mark)
  charclass-matrix                      DIRECTED: for a character c and a run d^n (d in * _, n in 1 2 3),
                                        c on either side of the run with a letter / whitespace / line
                                        edge / punctuation on the other side, observed with an
                                        open-probe, a close-probe and a combined probe (char_matrix()).
                                        c ranges over EVERY ASCII punctuation character, EVERY non-ASCII
                                        character of general category P* (BMP and astral), EVERY Zs
                                        character + TAB, the named representatives CLASS_REPS, and a
                                        seed-rotated sample of every L* M* N* S* category (BMP and astral
                                        separately) -- S* are symbols, NOT punctuation in CommonMark 0.30.
  charclass-enum                        exhaustive ALPHA over one representative per character class
                                        (REPS10) up to length 5
  partial-runs                          DIRECTED: 3 and 4 delimiter runs of length 1..5 / 1..4 separated by
                                        'a' or '.', runs that can both open and close and are consumed in
                                        two or more steps (rule of three on ORIGINAL lengths across partly
                                        consumed runs, e.g. '*a***a*', '**a*.*.'); the number of cases whose
                                        expected output changes when the rule of three is applied to the
                                        remaining lengths is measured and reported
  multiline-par                         exhaustive ALPHA over {a, SP, *, _, ., LF} with at least one line
                                        ending, observed through Document(t) (one paragraph; the line
                                        ending is a Unicode whitespace character for the flanking rules and
                                        is rendered as a soft break).  Preconditions: no empty line, no line
                                        with leading/trailing blanks, no thematic break line, no line that
                                        starts a bullet list item.

The seven characters the reference model does not support in general (backtick [ ] backslash < & !) are ASCII
punctuation too.  They are admitted when the string contains exactly ONE of them and nothing it
could pair with ('>' for '<', ';' for '&'; a backslash only before an ASCII letter/digit or at the
end): such a character is literal text by the specification (no code span, link, image, autolink,
raw HTML, entity or escape can be formed), so for the delimiter algorithm it is just a punctuation
character.  The oracle then runs the model on the string with the character replaced by a private
stand-in punctuation character and substitutes it back (see _spec_html).

Failure classes: a disagreement is attributed by replaying the *reference model* with named
deviations from the specification switched on (see spec_emphasis.spec_emphasis keyword arguments)
and taking the smallest set of deviations that reproduces the implementation's output exactly.
"""
import itertools
import json
import random
import re
import traceback
import unicodedata

from runtime.common import use_repo, spec_examples, pool_map, merge
from runtime import spec_emphasis as SE

SIGMA5 = ['a', ' ', '*', '_', '.']
SIGMA6NL = ['a', ' ', '*', '_', '.', '\n']
# wider alphabet for the random part: letters, digits, ASCII + Unicode punctuation (Pi, Pf, Po, Pd,
# Ps/Pe, Pc), ASCII + Unicode whitespace (TAB, NBSP = Zs, EM SPACE = Zs, IDEOGRAPHIC SPACE = Zs),
# a non-ASCII letter, a currency symbol (Sc: NOT punctuation in 0.30).  Heavily weighted to * and _.
WIDE_OTHER = ['a', 'b', '\u00e9', '\u042f', '0', '7',
              ' ', ' ', '\t', '\u00a0', '\u2003', '\u3000',
              '.', ',', '-', '(', ')', '"', "'", ':', '?', '/', '+', '=', '$', '%', '@',
              '\u201c', '\u201d', '\u00a1', '\u00bf', '\u2014', '\u00ab', '\u00bb', '\u203f',
              '\u3001', '\u20ac', '\u00b7']
# second random alphabet (family random-astral): WIDE_OTHER + astral punctuation (Po, Pd), astral
# letters (Lu, Lo), astral digit, S* symbols BMP + astral (Sc, Sm, So, Sk: not punctuation in 0.30),
# further Zs characters, a non-ASCII BMP digit, a combining mark, ASCII symbols that ARE punctuation.
WIDE_ASTRAL = WIDE_OTHER + [
    '\U00010100', '\U0001039f', '\U00011047', '\U0001e95e', '\U00010ead', '\U00016fe2', '\U0001da87',
    '\U00010400', '\U0001d400', '\U00020000', '\U0001d7ce',
    '\u00a3', '\u2190', '\u00a9', '\u00ac', '\u00b4', '\U0001f600', '\U0001d6c1', '\U0001f3fb', '\U0001e2ff',
    '\u1680', '\u202f', '\u205f', '\u0663', '\u0301', '~', '^', '|', '>', '#', ';', '{', '}']

# named representatives of every character class that matters around a delimiter run
CLASS_REPS = [
    # ASCII letter / digit, non-ASCII letter, astral letter (Lu, Lo), astral digit
    'a', 'Z', '0', '\u00e9', '\u042f', '\u4e2d', '\U00010400', '\U00020000', '\U0001d400', '\U0001d7ce',
    # BMP Unicode punctuation: Po Pd Po Pi Pf Pc Ps Pe, fullwidth forms
    '\u00a1', '\u2014', '\u3001', '\u00ab', '\u00bb', '\u203f', '\u300c', '\u300d', '\uff01', '\uff3f',
    # astral punctuation: AEGEAN WORD SEPARATOR LINE, UGARITIC WORD DIVIDER, BRAHMI DANDA,
    # ADLAM INITIAL EXCLAMATION MARK, YEZIDI HYPHENATION MARK (the only astral Pd), SIGNWRITING COMMA
    '\U00010100', '\U0001039f', '\U00011047', '\U0001e95e', '\U00010ead', '\U0001da87',
    # ASCII whitespace, Unicode whitespace (Zs)
    ' ', '\t', '\u00a0', '\u2003', '\u3000', '\u1680',
    # symbols S*: NOT punctuation in CommonMark 0.30 (they are in 0.31): Sc Sm So Sk, BMP and astral
    '\u00a3', '\u20ac', '\u2190', '\u00ac', '\u00a9', '\u00b4', '\U0001f600', '\U0001d6c1', '\U0001f3fb',
    '\U0001e2ff',
    # marks and other numbers
    '\u0301', '\u0663', '\u00bd',
]
# one representative per class for the small exhaustive enumeration charclass-enum
REPS10 = ['a', ' ', '*', '_', '.', '\u2014', '\U00010100', '\u00a0', '\u00a3', '\U00010400']

SPECIALS = '`[]\\<&!'            # == SE.UNSUPPORTED minus CR
STANDIN = '\u2e2e'               # REVERSED QUESTION MARK (Po): private stand-in, never generated

# deviations tried for attribution, in this order (slug, kwargs)
DEVIATIONS = [
    ('rule3-on-current-length', {'rule3': 'current'}),
    ('bottom-per-kind-only', {'bottoms': 'kind'}),
    ('bottom-kept-as-stale-index', {'bottom_as_index': True}),
    ('bottom-none-at-pos1', {'bottom_none_at_1': True}),
    ('rescan-below-after-closer-exhausted', {'rescan': True}),
]

DISFAVOURED = ('rule3-on-current-length',)

_R = None
_BOUNDS = (8, 12)                # (n5, n2) of the current run; set by run() before the pool forks


def _renderer():
    global _R
    if _R is None:
        use_repo()
        from mistletoe import Document, HtmlRenderer
        r = HtmlRenderer()
        r.__enter__()
        _R = (r, Document)
    return _R


def observe(t, mode='h'):
    """-> ('ok', inner_html) | ('raise', 'ExcType: msg @ file:line func') | ('shape', html)
    mode 'h': t is the content of an ATX heading; mode 'p': t is a whole (multi-line) paragraph."""
    r, Document = _renderer()
    try:
        html = r.render(Document(('# ' + t) if mode == 'h' else t))
    except Exception as e:  # noqa
        tb = traceback.extract_tb(e.__traceback__)
        fr = tb[-1]
        where = '%s:%s' % (fr.filename.rsplit('/', 1)[-1], fr.name)
        return 'raise', '%s: %s @ %s' % (type(e).__name__, e, where)
    if mode == 'h':
        if html.startswith('<h1>') and html.endswith('</h1>\n') and html.count('<h1>') == 1:
            return 'ok', html[4:-6]
    else:
        if html.startswith('<p>') and html.endswith('</p>\n') and html.count('<p>') == 1:
            return 'ok', html[3:-5]
    return 'shape', html


def _literal_special(t):
    """The single character of SPECIALS in t when it is certainly literal text, '' when t has none;
    raises ValueError when t is outside the supported domain."""
    found = [i for i, c in enumerate(t) if c in SPECIALS]
    if not found:
        return ''
    if len(found) > 1 or STANDIN in t:
        raise ValueError('more than one special character')
    i = found[0]
    c = t[i]
    if c == '<' and '>' in t:
        raise ValueError('< with >')
    if c == '&' and ';' in t:
        raise ValueError('& with ;')
    if c == '\\' and i + 1 < len(t) and not (t[i + 1].isascii() and t[i + 1].isalnum()):
        raise ValueError('backslash before a non-alphanumeric character')
    return c


def _spec_html(t, **kw):
    """to_html(spec_emphasis(t)); a lone, certainly literal special character is handled by running
    the model with a stand-in punctuation character in its place.  ValueError = unsupported."""
    c = _literal_special(t)
    if not c:
        return SE.spec_html(t, **kw)
    out = SE.spec_html(t.replace(c, STANDIN), **kw)
    return out.replace(STANDIN, {'<': '&lt;', '&': '&amp;'}.get(c, c))


_SPEC_WS, _SPEC_P = SE.is_unicode_whitespace, SE.is_punctuation      # the specification's classes


def _combos():
    n = len(DEVIATIONS)
    combos = [c for size in range(1, n + 1) for c in itertools.combinations(range(n), size)]
    combos.sort(key=lambda c: (any(DEVIATIONS[i][0] in DISFAVOURED for i in c), len(c), c))
    return combos


def _explained_by(t, observed, combos):
    for combo in combos:
        kw = {'push_inert': True}
        for i in combo:
            kw.update(DEVIATIONS[i][1])
        try:
            if _spec_html(t, **kw) == observed:
                return '+'.join(DEVIATIONS[i][0] for i in combo)
        except Exception:  # noqa
            pass
    return None


def classify(t, observed):
    """Smallest set of named deviations of the reference model that reproduces `observed`."""
    # Explanations that avoid the deviations listed in DISFAVOURED (fixed in the tree by now) are
    # preferred: a set using one of them is only reported when no set without them reproduces
    # the output.  Within each group the smallest set (then declaration order) wins.
    return _explained_by(t, observed, _combos()) or classify_flanking(t, observed)


def _char_class(c):
    """Class of a character by the specification (section 2.1), refined for reporting."""
    if c in '*_':
        return 'delimiter'
    if c == '\n':
        return 'line-ending'
    if _SPEC_WS(c):
        return 'ascii-whitespace' if c.isascii() else 'unicode-whitespace'
    plane = 'ascii' if c.isascii() else ('bmp' if ord(c) < 0x10000 else 'astral')
    if _SPEC_P(c):
        return plane + '-punctuation'
    cat = unicodedata.category(c)
    if cat[0] == 'S':
        return plane + '-symbol'
    return plane + '-' + {'L': 'letter', 'N': 'number', 'M': 'mark'}.get(cat[0], 'other-' + cat)


def classify_flanking(t, observed):
    """Second attribution stage: is the observed output what the SPECIFICATION algorithm gives when
    the characters of one class next to a delimiter run are put into another flanking class
    (alone, or together with at most two of the named deviations)?
    -> 'flanking-<class>-treated-as-<whitespace|punctuation|other>[+deviations]' or 'unexplained'."""
    neigh = set()
    for i, c in enumerate(t):
        if c in '*_':
            for j in (i - 1, i + 1):
                if 0 <= j < len(t) and t[j] not in '*_':
                    neigh.add(_char_class(t[j]))
    small = [c for c in _combos() if len(c) <= 2 and not any(DEVIATIONS[i][0] in DISFAVOURED for i in c)]
    # non-ASCII classes first: a misclassified ASCII class shows up in the exhaustive ASCII
    # enumerations (where it is the only candidate), so next to a non-ASCII character the
    # non-ASCII class is the more plausible culprit
    rank = lambda cls: (0 if cls.startswith('astral') else 2 if cls.startswith('ascii') else 1,  # noqa
                        0 if cls.endswith(('punctuation', 'whitespace', 'symbol')) else 1, cls)
    try:
        for combos in ([()], small):
            for cls in sorted(neigh, key=rank):
                for name, as_ws, as_p in (('punctuation', False, True), ('other', False, False),
                                          ('whitespace', True, False)):
                    if (as_ws, as_p) == (cls.endswith('whitespace') or cls == 'line-ending', cls.endswith('punctuation')):
                        continue                             # that IS the specification
                    SE.is_unicode_whitespace = (lambda c, cls=cls, v=as_ws:
                                                v if _char_class(c) == cls else _SPEC_WS(c))
                    SE.is_punctuation = (lambda c, cls=cls, v=as_p:
                                         v if _char_class(c) == cls else _SPEC_P(c))
                    slug = 'flanking-%s-treated-as-%s' % (cls, name)
                    if combos == [()]:
                        try:
                            if _spec_html(t) == observed:
                                return slug
                        except Exception:  # noqa
                            pass
                    else:
                        dev = _explained_by(t, observed, combos)
                        if dev:
                            return slug + '+' + dev
    finally:
        SE.is_unicode_whitespace, SE.is_punctuation = _SPEC_WS, _SPEC_P
    return 'unexplained'


def _has_ws_edge(t):
    return bool(t) and (t[0].isspace() or t[-1].isspace()
                        or SE.is_unicode_whitespace(t[0]) or SE.is_unicode_whitespace(t[-1]))


# an ATX heading's optional closing sequence (spec 4.2): a run of # at the end that is preceded by a
# blank or is the whole content -- it is not part of the inline text.  The specification says
# "preceded by spaces or tabs"; the tree under test also accepts other Unicode whitespace there
# ('# a\u202f#' -> <h1>a</h1>), which is a deviation of the HEADING rule and not of the emphasis
# algorithm this property is about, so any whitespace (re \s) excludes the case here.
_ATX_CLOSING = re.compile(r'(?:^|\s)#+$')


def _in_enumerated(t):
    """Is t a member of one of the three exhaustive heading enumerations of this run?"""
    n5, n2 = _BOUNDS
    s = set(t)
    return ((len(t) <= n5 and s <= set(SIGMA5)) or (len(t) <= n2 and (s <= {'a', '*'} or s <= {'a', '_'})))


def _par_precondition(t):
    """t (with line endings) is exactly one paragraph whose inline content is t itself."""
    for line in t.split('\n'):
        if not line or line[0] == ' ' or line[-1] == ' ':
            return False
        bare = line.replace(' ', '')
        if len(bare) >= 3 and bare[0] in '*_' and bare == bare[0] * len(bare):
            return False                                     # thematic break
        if line == '*' or line.startswith('* '):
            return False                                     # bullet list item
    return True


def check_many(texts, selfcheck, family='enum5', mode='h', dedupe=False, rule3_probe=False):
    res = {'evaluations': 0, 'distinct_nontrivial': 0, 'contract_evaluations': 0,
           'failures': [], 'samples': [], 'skipped_precondition': 0, 'selfcheck_evaluations': 0,
           'by_class': {}, 'by_len': {}, 'by_class_len': {},
           'skipped_unsupported': 0, 'already_enumerated': 0, 'rule3_sensitive': 0,
           'family': {family: {'evaluations': 0, 'nontrivial': 0}}}
    fam = res['family'][family]
    sfx = '' if mode == 'h' else '-par'
    for t in texts:
        if mode == 'h':
            if _has_ws_edge(t) or _ATX_CLOSING.search(t):
                res['skipped_precondition'] += 1
                continue
            if dedupe and _in_enumerated(t):
                res['already_enumerated'] += 1
                continue
        elif not _par_precondition(t):
            res['skipped_precondition'] += 1
            continue
        try:
            expected = _spec_html(t)
        except ValueError:
            res['skipped_unsupported'] += 1
            continue
        if selfcheck:
            # the keyed lower bounds are an optimisation that must be unobservable
            res['selfcheck_evaluations'] += 1
            if _spec_html(t, bottoms='none') != expected:
                raise AssertionError('reference model self-check failed on %r' % t)
        if rule3_probe and _spec_html(t, rule3='current') != expected:
            res['rule3_sensitive'] += 1
        res['evaluations'] += 1
        fam['evaluations'] += 1
        nontrivial = '<' in expected.replace('&lt;', '')
        if nontrivial:
            res['distinct_nontrivial'] += 1
            fam['nontrivial'] += 1
        kind, obs = observe(t, mode)
        res['contract_evaluations'] += 1
        fail = None
        if kind == 'raise':
            cls = 'remove-right-truncates-type' if obs.startswith('IndexError') else 'exception-other'
            fail = ('noraise' + sfx, obs, cls)
        else:
            res['contract_evaluations'] += 1
            if kind == 'shape':
                fail = ('shape' + sfx, obs, 'heading-shape' if mode == 'h' else 'paragraph-shape')
            else:
                res['contract_evaluations'] += 1
                if obs != expected:
                    fail = ('structure' + sfx, obs, classify(t, obs))
        if fail:
            contract, obs, cls = fail
            doc = ("'# ' + %r" % t) if mode == 'h' else repr(t)
            res['failures'].append({
                'key': '%s|%r' % (contract, t), 'contract': contract, 'input': t,
                'observed': obs, 'expected': expected, 'class': cls, 'family': family,
                'replay': "from mistletoe import Document, HtmlRenderer; "
                          "print(HtmlRenderer().render(Document(%s)))" % doc})
            res['by_class'][cls] = res['by_class'].get(cls, 0) + 1
            L = str(len(t))
            res['by_len'][L] = res['by_len'].get(L, 0) + 1
            k = cls + '|' + L
            res['by_class_len'][k] = res['by_class_len'].get(k, 0) + 1
        elif nontrivial and len(res['samples']) < 2 and len(t) >= 5:
            res['samples'].append({'input': t, 'output': obs})
    return res


# ---------------------------------------------------------------- directed families

def char_matrix(c, runs=(1, 2, 3), kinds='*_'):
    """All probes that put character c directly before / after a delimiter run d^n.

    The class of c (whitespace / punctuation / other) is observable only together with the
    character on the OTHER side of the run, so that one ranges over letter, punctuation,
    whitespace and the edge of the text.  open-probe: the run under test is followed (later) by a
    pure closer `a d^n<end>`; close-probe: it is preceded by a pure opener `<start>d^n a`;
    combined: both.  20 strings per (c, d, n)."""
    for d in kinds:
        for n in runs:
            R = d * n
            # c AFTER the run
            for x in ('', 'a ', 'a', '.'):
                yield x + R + c + 'a' + R                    # open-probe
            for x in ('', ' ', '.'):
                yield R + 'a' + x + R + c + 'a'              # close-probe
            # c BEFORE the run
            for y in ('', '.', ' '):
                yield 'a' + c + R + y + 'a' + R              # open-probe
            for y in ('', 'a', '.', ' a'):
                yield R + 'a' + c + R + y                    # close-probe
            # combined
            for o in ('', '.', ' '):
                yield R + 'a' + c + R + o + 'a' + R
                yield R + 'a' + o + R + c + 'a' + R


def matrix_chars(seed, thorough):
    """(characters, description counts) for the family charclass-matrix."""
    out = [c for c in sorted(SE.ASCII_PUNCT) if c not in '*_']
    cats = {}
    for i in range(0x80, 0x110000):
        ch = chr(i)
        cats.setdefault(unicodedata.category(ch), []).append(ch)
    counts = {'ascii-punct': len(out)}
    allp = [ch for k in sorted(cats) if k[0] == 'P' for ch in cats[k]]
    counts['P*'] = len(allp)
    counts['P* astral'] = sum(1 for ch in allp if ord(ch) >= 0x10000)
    out += allp
    zs = [' ', '\t'] + cats.get('Zs', [])
    counts['Zs+SP+TAB'] = len(zs)
    out += zs
    out += CLASS_REPS
    quota = {'S': 160 if thorough else 48, 'L': 80 if thorough else 24,
             'N': 40 if thorough else 12, 'M': 40 if thorough else 12}
    sampled = 0
    for k in sorted(cats):
        if k[0] not in quota:
            continue
        for part in ([ch for ch in cats[k] if ord(ch) < 0x10000], [ch for ch in cats[k] if ord(ch) >= 0x10000]):
            if not part:
                continue
            q = min(len(part), quota[k[0]] // 2)
            for j in range(q):
                out.append(part[(j * len(part) // q + seed) % len(part)])
                sampled += 1
    counts['sampled L* M* N* S*'] = sampled
    seen, uniq = set(), []
    for ch in out:
        if ch not in seen:
            seen.add(ch)
            uniq.append(ch)
    counts['total'] = len(uniq)
    return uniq, counts


def partial_runs():
    """3 and 4 delimiter runs separated by a letter or a punctuation character: runs in the middle
    can both open and close (`a***a`, `.___.`) and are consumed in several steps."""
    lead = ('', 'a', '.')
    for d in '*_':
        for ls in itertools.product(range(1, 6), repeat=3):
            for f in itertools.product('a.', repeat=2):
                for p in lead:
                    for q in lead:
                        yield p + d * ls[0] + f[0] + d * ls[1] + f[1] + d * ls[2] + q
        for ls in itertools.product(range(1, 5), repeat=4):
            for f in itertools.product('a.', repeat=3):
                for p in lead:
                    for q in lead:
                        yield (p + d * ls[0] + f[0] + d * ls[1] + f[1] + d * ls[2] + f[2]
                               + d * ls[3] + q)
    for ds in itertools.product('*_', repeat=3):
        if len(set(ds)) == 1:
            continue
        for ls in itertools.product(range(1, 4), repeat=3):
            for f in itertools.product('a.', repeat=2):
                for p in lead:
                    for q in lead:
                        yield p + ds[0] * ls[0] + f[0] + ds[1] * ls[1] + f[1] + ds[2] * ls[2] + q


# the examples named in the property / review; asserted to be in the quick domain by run()
NAMED_PARTIAL = ['*a***a*', '**a*.*.', '**a****a*', '**_*_*', '*_**.*', '***a**a*', '*a**a***',
                 '.__.___.__.', '.___.__._.']


# ---------------------------------------------------------------- task generation

def _task_texts(task):
    if task[0] == 'alpha':
        _, sigma, prefix, rest = task[:4]
        need_nl = len(task) > 4 and task[4] == 'nl'
        if rest is None:            # all strings up to len(prefix) marker: prefix is an int here
            for k in range(0, prefix + 1):
                for tup in itertools.product(sigma, repeat=k):
                    if not need_nl or '\n' in tup:
                        yield ''.join(tup)
        else:
            for tup in itertools.product(sigma, repeat=rest):
                if not need_nl or '\n' in tup or '\n' in prefix:
                    yield prefix + ''.join(tup)
    elif task[0] == 'list':
        for t in task[1]:
            yield t
    else:
        _, seed, chunk, count, maxlen = task[:5]
        astral = len(task) > 5 and task[5] == 'astral'
        others = WIDE_ASTRAL if astral else WIDE_OTHER
        rnd = random.Random(('C06/astral/%d/%d' if astral else 'C06/%d/%d') % (seed, chunk))
        for _ in range(count):
            n = rnd.randint(1, maxlen)
            p_delim = rnd.choice((0.35, 0.5, 0.65))
            out = []
            while len(out) < n:
                if rnd.random() < p_delim:
                    c = rnd.choice('**_') if rnd.random() < 0.8 else rnd.choice('*_')
                    run = rnd.choice((1, 1, 1, 2, 2, 3, 3, 4, 5))
                    out.extend(c * run)
                else:
                    out.append(rnd.choice(others))
            t = ''.join(out[:n])
            # precondition: no whitespace at the edges (strip instead of reject: fixed case count)
            while t and (t[0].isspace()):
                t = t[1:]
            while t and (t[-1].isspace()):
                t = t[:-1]
            yield t


def alpha_tasks(sigma, n, plen, flag=None):
    """Partition ALPHA(sigma, n) into tasks by prefix."""
    extra = (flag,) if flag else ()
    tasks = [('alpha', sigma, min(n, plen), None) + extra]
    for k in range(plen + 1, n + 1):
        for pre in itertools.product(sigma, repeat=plen):
            tasks.append(('alpha', sigma, ''.join(pre), k - plen) + extra)
    return tasks


def _run_task(arg):
    task, selfcheck, opts = arg
    return check_many(_task_texts(task), selfcheck, **opts)


def validate_model():
    """The reference model must reproduce every example of the spec section on emphasis that is
    inside its supported character set.  Returns (validated, skipped)."""
    ok = skipped = 0
    for e in spec_examples():
        if e['section'] != 'Emphasis and strong emphasis':
            continue
        t = e['markdown'][:-1]
        if set(t) & SE.UNSUPPORTED or '\n ' in t or ' \n' in t:
            skipped += 1
            continue
        for b in ('key', 'none'):
            got = '<p>' + SE.spec_html(t, bottoms=b).replace('"', '&quot;') + '</p>\n'
            if got != e['html']:
                raise AssertionError('reference model disagrees with spec example %d: %r -> %r, '
                                     'spec says %r' % (e['example'], t, got, e['html']))
        ok += 1
    return ok, skipped


def validate_char_classes():
    """The character classes of the reference model, checked against the wording of section 2.1
    on the named representatives (guards the oracle itself, independent of mistletoe)."""
    for c in CLASS_REPS + REPS10:
        cls = _char_class(c)
        cat = unicodedata.category(c)
        want_p = c in '!"#$%&\'()*+,-./:;<=>?@[\\]^_`{|}~' or cat in ('Pc', 'Pd', 'Pe', 'Pf', 'Pi', 'Po', 'Ps')
        want_ws = c in '\t\n\x0c\r' or cat == 'Zs'
        assert SE.is_punctuation(c) == want_p and SE.is_unicode_whitespace(c) == want_ws, (c, cls)
    for c, cls in (('\U00010100', 'astral-punctuation'), ('\U0001039f', 'astral-punctuation'),
                   ('\U00011047', 'astral-punctuation'), ('\U0001e95e', 'astral-punctuation'),
                   ('\u2014', 'bmp-punctuation'), ('\u00a3', 'bmp-symbol'), ('\u2190', 'bmp-symbol'),
                   ('\U0001f600', 'astral-symbol'), ('\u00a0', 'unicode-whitespace'),
                   ('\U00010400', 'astral-letter'), ('$', 'ascii-punctuation'), ('\t', 'ascii-whitespace')):
        assert _char_class(c) == cls, (c, _char_class(c), cls)


def run(tier, seed, workers):
    global _BOUNDS
    thorough = tier == 'thorough'
    n5 = 10 if thorough else 8
    n2 = 14 if thorough else 12
    n_rand = 500000 if thorough else 20000
    n_rand2 = 250000 if thorough else 10000
    n_enum = 6 if thorough else 5
    n_nl = 8 if thorough else 7
    _BOUNDS = (n5, n2)
    validated, vskipped = validate_model()
    validate_char_classes()
    for t in NAMED_PARTIAL[:7]:
        # hole (2) of the review: these must be members of the exhaustive quick enumerations
        assert _in_enumerated(t), t
    H = {'mode': 'h'}
    tasks = []           # (task, selfcheck, opts)
    for t in alpha_tasks(SIGMA5, n5, 4):
        sc = not (thorough and t[3] is not None and len(t[2]) + t[3] > 8)
        tasks.append((t, sc, dict(H, family='enum5')))
    # model self-check (keyed bottoms == no bottoms) on everything in quick, and in thorough on all
    # but the length-9/10 part of the 5-letter enumeration (it is pure model-vs-model work)
    for t in alpha_tasks(['a', '*'], n2, 6):
        tasks.append((t, True, dict(H, family='enum-star')))
    for t in alpha_tasks(['a', '_'], n2, 6):
        tasks.append((t, True, dict(H, family='enum-underscore')))
    per = 2000
    for c in range(n_rand // per):
        tasks.append((('random', seed, c, per, 40), True, dict(H, family='random')))
    for c in range(n_rand2 // per):
        tasks.append((('random', seed, c, per, 40, 'astral'), True, dict(H, family='random-astral')))
    # directed: character classes around runs
    chars, char_counts = matrix_chars(seed, thorough)
    for i in range(0, len(chars), 40):
        texts = [t for c in chars[i:i + 40] for t in char_matrix(c)]
        tasks.append((('list', texts), True, dict(H, family='charclass-matrix', dedupe=True)))
    for t in alpha_tasks(REPS10, n_enum, 2):
        tasks.append((t, True, dict(H, family='charclass-enum', dedupe=True)))
    # directed: partly consumed runs
    part = sorted(set(partial_runs()) | set(NAMED_PARTIAL))
    for i in range(0, len(part), 4000):
        tasks.append((('list', part[i:i + 4000]), True,
                      dict(H, family='partial-runs', dedupe=True, rule3_probe=True)))
    tasks.append((('list', NAMED_PARTIAL), True, dict(H, family='named-partial', rule3_probe=True)))
    # multi-line paragraphs
    for t in alpha_tasks(SIGMA6NL, n_nl, 3, 'nl'):
        tasks.append((t, True, {'mode': 'p', 'family': 'multiline-par'}))
    # big tasks first for better load balance
    order = sorted(range(len(tasks)), key=lambda i: -_task_size(tasks[i][0]))
    parts = pool_map(_run_task, [tasks[i] for i in order], workers)
    out = merge(parts)
    skipped = selfchecks = unsupported = already = r3 = 0
    families = {}
    named_r3 = 0
    for p in parts:
        skipped += p['skipped_precondition']
        selfchecks += p['selfcheck_evaluations']
        unsupported += p['skipped_unsupported']
        already += p['already_enumerated']
        for k, v in p['family'].items():
            d = families.setdefault(k, {'evaluations': 0, 'nontrivial': 0})
            d['evaluations'] += v['evaluations']
            d['nontrivial'] += v['nontrivial']
            if k == 'named-partial':
                named_r3 += p['rule3_sensitive']
            else:
                r3 += p['rule3_sensitive']
    # the named examples are evaluated twice (they are members of the enumerations): keep them out
    # of the measured totals
    nm = families.pop('named-partial', {'evaluations': 0, 'nontrivial': 0})
    out['evaluations'] -= nm['evaluations']
    out['distinct_nontrivial'] -= nm['nontrivial']
    out['contract_evaluations'] -= 3 * nm['evaluations']
    fails = {}
    for f in out['failures']:
        fails.setdefault(f['key'], f)          # the random part may repeat an enumerated string
    fl = sorted(fails.values(), key=lambda f: (len(f['input']), f['input']))
    # recompute the tables on distinct inputs
    by_class, by_len, by_cl, by_fam = {}, {}, {}, {}
    for f in fl:
        L = len(f['input'])
        by_class[f['class']] = by_class.get(f['class'], 0) + 1
        by_len[L] = by_len.get(L, 0) + 1
        by_cl.setdefault(f['class'], {})
        by_cl[f['class']][L] = by_cl[f['class']].get(L, 0) + 1
        by_fam.setdefault(f['family'], {})
        by_fam[f['family']][f['class']] = by_fam[f['family']].get(f['class'], 0) + 1
    minimal = {}
    for f in fl:
        minimal.setdefault(f['class'], f['input'])
    out['failures_total'] = len(fl)
    out['failures'] = fl[:400]
    out['failures_by_class'] = dict(sorted(by_class.items(), key=lambda kv: -kv[1]))
    out['failures_by_length'] = {str(k): by_len[k] for k in sorted(by_len)}
    out['failures_by_class_and_length'] = {c: {str(k): d[k] for k in sorted(d)} for c, d in by_cl.items()}
    out['failures_by_family_and_class'] = by_fam
    out['minimal_input_per_class'] = minimal
    involving = {}
    for c, v in by_class.items():
        for part_ in c.split('+'):
            involving[part_] = involving.get(part_, 0) + v
    out['failures_involving_root_cause'] = dict(sorted(involving.items(), key=lambda kv: -kv[1]))
    out['skipped_precondition'] = skipped
    out['skipped_unsupported'] = unsupported
    out['directed_already_enumerated'] = already
    out['families'] = families
    out['matrix_characters'] = char_counts
    out['rule3_sensitive_cases'] = {'partial-runs': r3, 'named examples (of %d)' % len(NAMED_PARTIAL): named_r3}
    out['model_selfcheck_evaluations'] = selfchecks
    out['model_validated_on_spec_examples'] = validated
    out['exhaustive'] = False      # the enumerated parts are exhaustive, the random part is not
    out['samples'] = out['samples'][:8]
    out['domain'] = (
        'ALPHA({a,SP,*,_,.}, %d) + ALPHA({a,*}, %d) + ALPHA({a,_}, %d), each exhaustive incl. the empty '
        'string, + %d seeded random strings of length 1..40 over %d non-delimiter characters '
        '(letters, digits, ASCII/Unicode punctuation Pi Pf Po Pd Ps Pe Pc, TAB, NBSP, U+2003, U+3000, '
        'a currency sign) mixed with * and _ runs of length 1..5 + %d more over %d characters (adds '
        'astral punctuation / letters / digit, S* symbols, more Zs, a combining mark); '
        '+ charclass-matrix: 120 probes (character directly before/after a run of length 1,2,3 of * and _, '
        'other side letter/whitespace/punctuation/text edge; open-, close- and combined probe) for each '
        'of %d characters = all %d ASCII punctuation characters except the delimiters, all %d non-ASCII '
        'characters of category P* (%d astral), all %d Zs characters + SP + TAB, %d named class '
        'representatives and a seed-rotated sample of %d characters from every L* M* N* S* category '
        '(BMP and astral); + charclass-enum: ALPHA over {a, SP, *, _, ., U+2014, U+10100, U+00A0, '
        'U+00A3, U+10400}, %d, exhaustive; + partial-runs: 3 runs of length 1..5 / 4 runs of length 1..4 '
        'of one kind and 3 runs of length 1..3 of mixed kinds, separated by a or ., preceded/followed by '
        'nothing, a or . (%d of these change when the rule of three uses the remaining lengths); '
        "every string t observed through HtmlRenderer().render(Document('# ' + t)); "
        '+ multiline-par: ALPHA({a,SP,*,_,.,LF}, %d) with at least one LF observed through '
        'Document(t) as one paragraph; strings beginning or ending with whitespace or ending with an ATX closing sequence (heading), resp. '
        'with an empty line, a line with leading/trailing blanks, a thematic break or a bullet item '
        '(paragraph) are excluded by precondition (%d excluded, not counted in evaluations); %d directed '
        'strings with more than one of ` [ ] \\ < & ! or one that is not certainly literal are outside '
        'the oracle and skipped; %d directed strings were already members of the exhaustive '
        'enumerations and not evaluated twice. Reference model '
        'validated on %d/%d spec examples of section "Emphasis and strong emphasis" (rest use '
        'links/code/escapes/HTML) and self-checked (keyed openers_bottom == no openers_bottom) on %d cases.'
        % (n5, n2, n2, n_rand, len(WIDE_OTHER), n_rand2, len(WIDE_ASTRAL),
           char_counts['total'], char_counts['ascii-punct'], char_counts['P*'], char_counts['P* astral'],
           char_counts['Zs+SP+TAB'] - 2, len(CLASS_REPS), char_counts['sampled L* M* N* S*'],
           n_enum, r3, n_nl, skipped, unsupported, already,
           validated, validated + vskipped, selfchecks))
    out['rule'] = ('a case is non-trivial when the specification output contains at least one <em> '
                   'or <strong>; contracts per case: noraise, shape (single <h1>, resp. single <p> for '
                   'the family multiline-par), structure (inner HTML == to_html(spec_emphasis(t)))')
    return out


def _task_size(task):
    if task[0] == 'alpha':
        if task[3] is None:
            return sum(len(task[1]) ** k for k in range(task[2] + 1))
        return len(task[1]) ** task[3]
    if task[0] == 'list':
        return len(task[1])
    return task[3] * 3
