"""C06 -- emphasis nesting equals the specification's delimiter-run algorithm (bounded tier).

Runtime contracts, evaluated on the real parser through the public API
`HtmlRenderer().render(Document('# ' + t))`:

  noraise    parsing + rendering returns (no exception)
  shape      the output is exactly one `<h1>...</h1>` element
  structure  the text between <h1> and </h1> equals to_html(spec_emphasis(t)), where
             `spec_emphasis` (runtime/spec_emphasis.py) is an independent transcription of the
             CommonMark 0.30 algorithm.  The literal characters are the same on both sides by
             construction, so string equality of the HTML *is* equality of the <em>/<strong>
             nesting structure (including which delimiter characters stay literal).

Precondition (cases excluded, not failures): t does not begin or end with a Unicode whitespace
character -- the ATX heading rule strips leading/trailing blanks before inline parsing, so such
a t is the same inline text as its stripped form, which is enumerated anyway.

Failure classes: a disagreement is attributed by replaying the *reference model* with named
deviations from the specification switched on (see spec_emphasis.spec_emphasis keyword arguments)
and taking the smallest set of deviations that reproduces the implementation's output exactly.
"""
import itertools
import json
import random
import traceback

from runtime.common import use_repo, spec_examples, pool_map, merge
from runtime import spec_emphasis as SE

SIGMA5 = ['a', ' ', '*', '_', '.']
# wider alphabet for the random part: letters, digits, ASCII + Unicode punctuation (Pi, Pf, Po, Pd,
# Ps/Pe, Pc), ASCII + Unicode whitespace (TAB, NBSP = Zs, EM SPACE = Zs, IDEOGRAPHIC SPACE = Zs),
# a non-ASCII letter, a currency symbol (Sc: NOT punctuation in 0.30).  Heavily weighted to * and _.
WIDE_OTHER = ['a', 'b', '\u00e9', '\u042f', '0', '7',
              ' ', ' ', '\t', '\u00a0', '\u2003', '\u3000',
              '.', ',', '-', '(', ')', '"', "'", ':', '?', '/', '+', '=', '$', '%', '@',
              '\u201c', '\u201d', '\u00a1', '\u00bf', '\u2014', '\u00ab', '\u00bb', '\u203f',
              '\u3001', '\u20ac', '\u00b7']

# deviations tried for attribution, in this order (slug, kwargs)
DEVIATIONS = [
    ('rule3-on-current-length', {'rule3': 'current'}),
    ('bottom-per-kind-only', {'bottoms': 'kind'}),
    ('bottom-kept-as-stale-index', {'bottom_as_index': True}),
    ('bottom-none-at-pos1', {'bottom_none_at_1': True}),
    ('rescan-below-after-closer-exhausted', {'rescan': True}),
]

DISFAVOURED = ('rule3-on-current-length',)

_R = None


def _renderer():
    global _R
    if _R is None:
        use_repo()
        from mistletoe import Document, HtmlRenderer
        r = HtmlRenderer()
        r.__enter__()
        _R = (r, Document)
    return _R


def observe(t):
    """-> ('ok', inner_html) | ('raise', 'ExcType: msg @ file:line func') | ('shape', html)"""
    r, Document = _renderer()
    try:
        html = r.render(Document('# ' + t))
    except Exception as e:  # noqa
        tb = traceback.extract_tb(e.__traceback__)
        fr = tb[-1]
        where = '%s:%s' % (fr.filename.rsplit('/', 1)[-1], fr.name)
        return 'raise', '%s: %s @ %s' % (type(e).__name__, e, where)
    if html.startswith('<h1>') and html.endswith('</h1>\n') and html.count('<h1>') == 1:
        return 'ok', html[4:-6]
    return 'shape', html


def classify(t, observed):
    """Smallest set of named deviations of the reference model that reproduces `observed`."""
    # Explanations that avoid the deviations listed in DISFAVOURED (fixed in the tree by now) are
    # preferred: a set using one of them is only reported when no set without them reproduces
    # the output.  Within each group the smallest set (then declaration order) wins.
    n = len(DEVIATIONS)
    combos = [c for size in range(1, n + 1) for c in itertools.combinations(range(n), size)]
    combos.sort(key=lambda c: (any(DEVIATIONS[i][0] in DISFAVOURED for i in c), len(c), c))
    for combo in combos:
        kw = {'push_inert': True}
        for i in combo:
            kw.update(DEVIATIONS[i][1])
        try:
            if SE.spec_html(t, **kw) == observed:
                return '+'.join(DEVIATIONS[i][0] for i in combo)
        except Exception:  # noqa
            pass
    return 'unexplained'


def _has_ws_edge(t):
    return bool(t) and (t[0].isspace() or t[-1].isspace()
                        or SE.is_unicode_whitespace(t[0]) or SE.is_unicode_whitespace(t[-1]))


def check_many(texts, selfcheck):
    res = {'evaluations': 0, 'distinct_nontrivial': 0, 'contract_evaluations': 0,
           'failures': [], 'samples': [], 'skipped_precondition': 0, 'selfcheck_evaluations': 0,
           'by_class': {}, 'by_len': {}, 'by_class_len': {}}
    for t in texts:
        if _has_ws_edge(t):
            res['skipped_precondition'] += 1
            continue
        expected = SE.spec_html(t)
        if selfcheck:
            # the keyed lower bounds are an optimisation that must be unobservable
            res['selfcheck_evaluations'] += 1
            if SE.spec_html(t, bottoms='none') != expected:
                raise AssertionError('reference model self-check failed on %r' % t)
        res['evaluations'] += 1
        nontrivial = '<' in expected
        if nontrivial:
            res['distinct_nontrivial'] += 1
        kind, obs = observe(t)
        res['contract_evaluations'] += 1
        fail = None
        if kind == 'raise':
            cls = 'remove-right-truncates-type' if obs.startswith('IndexError') else 'exception-other'
            fail = ('noraise', obs, cls)
        else:
            res['contract_evaluations'] += 1
            if kind == 'shape':
                fail = ('shape', obs, 'heading-shape')
            else:
                res['contract_evaluations'] += 1
                if obs != expected:
                    fail = ('structure', obs, classify(t, obs))
        if fail:
            contract, obs, cls = fail
            res['failures'].append({
                'key': '%s|%r' % (contract, t), 'contract': contract, 'input': t,
                'observed': obs, 'expected': expected, 'class': cls,
                'replay': "from mistletoe import Document, HtmlRenderer; "
                          "print(HtmlRenderer().render(Document('# ' + %r)))" % t})
            res['by_class'][cls] = res['by_class'].get(cls, 0) + 1
            L = str(len(t))
            res['by_len'][L] = res['by_len'].get(L, 0) + 1
            k = cls + '|' + L
            res['by_class_len'][k] = res['by_class_len'].get(k, 0) + 1
        elif nontrivial and len(res['samples']) < 2 and len(t) >= 5:
            res['samples'].append({'input': t, 'output': obs})
    return res


# ---------------------------------------------------------------- task generation

def _task_texts(task):
    if task[0] == 'alpha':
        _, sigma, prefix, rest = task
        if rest is None:            # all strings up to len(prefix) marker: prefix is an int here
            for k in range(0, prefix + 1):
                for tup in itertools.product(sigma, repeat=k):
                    yield ''.join(tup)
        else:
            for tup in itertools.product(sigma, repeat=rest):
                yield prefix + ''.join(tup)
    else:
        _, seed, chunk, count, maxlen = task
        rnd = random.Random('C06/%d/%d' % (seed, chunk))
        for _ in range(count):
            n = rnd.randint(1, maxlen)
            p_delim = rnd.choice((0.35, 0.5, 0.65))
            out = []
            while len(out) < n:
                if rnd.random() < p_delim:
                    c = rnd.choice('**_') if rnd.random() < 0.8 else rnd.choice('*_')
                    run = rnd.choice((1, 1, 1, 2, 2, 3, 3, 4, 5))
                    out.extend(c * run)
                else:
                    out.append(rnd.choice(WIDE_OTHER))
            t = ''.join(out[:n])
            # precondition: no whitespace at the edges (strip instead of reject: fixed case count)
            while t and (t[0].isspace()):
                t = t[1:]
            while t and (t[-1].isspace()):
                t = t[:-1]
            yield t


def alpha_tasks(sigma, n, plen):
    """Partition ALPHA(sigma, n) into tasks by prefix."""
    tasks = [('alpha', sigma, min(n, plen), None)]
    for k in range(plen + 1, n + 1):
        for pre in itertools.product(sigma, repeat=plen):
            tasks.append(('alpha', sigma, ''.join(pre), k - plen))
    return tasks


def _run_task(arg):
    task, selfcheck = arg
    return check_many(_task_texts(task), selfcheck)


def validate_model():
    """The reference model must reproduce every example of the spec section on emphasis that is
    inside its supported character set.  Returns (validated, skipped)."""
    ok = skipped = 0
    for e in spec_examples():
        if e['section'] != 'Emphasis and strong emphasis':
            continue
        t = e['markdown'][:-1]
        if set(t) & SE.UNSUPPORTED or '\n ' in t or ' \n' in t:
            skipped += 1
            continue
        for b in ('key', 'none'):
            got = '<p>' + SE.spec_html(t, bottoms=b).replace('"', '&quot;') + '</p>\n'
            if got != e['html']:
                raise AssertionError('reference model disagrees with spec example %d: %r -> %r, '
                                     'spec says %r' % (e['example'], t, got, e['html']))
        ok += 1
    return ok, skipped


def run(tier, seed, workers):
    thorough = tier == 'thorough'
    n5 = 10 if thorough else 8
    n2 = 14 if thorough else 12
    n_rand = 500000 if thorough else 20000
    validated, vskipped = validate_model()
    tasks = []
    tasks += alpha_tasks(SIGMA5, n5, 4)
    tasks += alpha_tasks(['a', '*'], n2, 6)
    tasks += alpha_tasks(['a', '_'], n2, 6)
    per = 2000
    for c in range(n_rand // per):
        tasks.append(('random', seed, c, per, 40))
    # model self-check (keyed bottoms == no bottoms) on everything in quick, and in thorough on all
    # but the length-9/10 part of the 5-letter enumeration (it is pure model-vs-model work)
    args = []
    for t in tasks:
        sc = True
        if thorough and t[0] == 'alpha' and t[1] is SIGMA5 and t[3] is not None and len(t[2]) + t[3] > 8:
            sc = False
        args.append((t, sc))
    # big tasks first for better load balance
    order = sorted(range(len(args)), key=lambda i: -_task_size(args[i][0]))
    parts = pool_map(_run_task, [args[i] for i in order], workers)
    out = merge(parts)
    by_class, by_len, by_cl = {}, {}, {}
    skipped = selfchecks = 0
    for p in parts:
        skipped += p['skipped_precondition']
        selfchecks += p['selfcheck_evaluations']
        for src, dst in ((p['by_class'], by_class), (p['by_len'], by_len), (p['by_class_len'], by_cl)):
            for k, v in src.items():
                dst[k] = dst.get(k, 0) + v
    fails = {}
    for f in out['failures']:
        fails.setdefault(f['key'], f)          # the random part may repeat an enumerated string
    fl = sorted(fails.values(), key=lambda f: (len(f['input']), f['input']))
    # recompute the tables on distinct inputs
    by_class, by_len, by_cl = {}, {}, {}
    for f in fl:
        L = len(f['input'])
        by_class[f['class']] = by_class.get(f['class'], 0) + 1
        by_len[L] = by_len.get(L, 0) + 1
        by_cl.setdefault(f['class'], {})
        by_cl[f['class']][L] = by_cl[f['class']].get(L, 0) + 1
    minimal = {}
    for f in fl:
        minimal.setdefault(f['class'], f['input'])
    out['failures_total'] = len(fl)
    out['failures'] = fl[:400]
    out['failures_by_class'] = dict(sorted(by_class.items(), key=lambda kv: -kv[1]))
    out['failures_by_length'] = {str(k): by_len[k] for k in sorted(by_len)}
    out['failures_by_class_and_length'] = {c: {str(k): d[k] for k in sorted(d)} for c, d in by_cl.items()}
    out['minimal_input_per_class'] = minimal
    involving = {}
    for c, v in by_class.items():
        for part in c.split('+'):
            involving[part] = involving.get(part, 0) + v
    out['failures_involving_root_cause'] = dict(sorted(involving.items(), key=lambda kv: -kv[1]))
    out['skipped_precondition'] = skipped
    out['model_selfcheck_evaluations'] = selfchecks
    out['model_validated_on_spec_examples'] = validated
    out['exhaustive'] = False      # the enumerated parts are exhaustive, the random part is not
    out['samples'] = out['samples'][:8]
    out['domain'] = (
        'ALPHA({a,SP,*,_,.}, %d) + ALPHA({a,*}, %d) + ALPHA({a,_}, %d), each exhaustive incl. the empty '
        'string, + %d seeded random strings of length 1..40 over %d non-delimiter characters '
        '(letters, digits, ASCII/Unicode punctuation Pi Pf Po Pd Ps Pe Pc, TAB, NBSP, U+2003, U+3000, '
        'a currency sign) mixed with * and _ runs of length 1..5; every string t observed through '
        "HtmlRenderer().render(Document('# ' + t)); strings beginning or ending with whitespace are "
        'excluded by precondition (%d excluded, not counted in evaluations). Reference model '
        'validated on %d/%d spec examples of section "Emphasis and strong emphasis" (rest use '
        'links/code/escapes/HTML) and self-checked (keyed openers_bottom == no openers_bottom) on %d cases.'
        % (n5, n2, n2, n_rand, len(WIDE_OTHER), skipped, validated, validated + vskipped, selfchecks))
    out['rule'] = ('a case is non-trivial when the specification output contains at least one <em> '
                   'or <strong>; contracts per case: noraise, shape (single <h1>), structure '
                   '(inner HTML == to_html(spec_emphasis(t)))')
    return out


def _task_size(task):
    if task[0] == 'alpha':
        if task[3] is None:
            return sum(len(task[1]) ** k for k in range(task[2] + 1))
        return len(task[1]) ** task[3]
    return task[3] * 3
